"""Small abstract domains (DESIGN section 3).

D1 ORD  - exact evaluation of comparison-only predicates: a predicate built from comparisons (< <= == != >= >, and/or/
          not, chained, conditional expressions) over k integer symbols and integer constants is decided by enumerating
          every assignment of the symbols to integers in [cmin-k, cmax+k]; that range realises every order pattern of
          the symbols among themselves and relative to the constants, so the enumeration is exhaustive and exact.
D4 LIN  - linear forms over named symbols with rational coefficients.
D3 RND  - bounds of floor/ceil/int-division expressions relative to the real quotient.
"""
import ast
import itertools
from fractions import Fraction

from .index import src, dotted, AnalysisError


# ------------------------------------------------------------------ D4 linear forms
class Lin:
    """sum(coef[s] * s) + const"""
    __slots__ = ('coef', 'const')

    def __init__(self, coef=None, const=0):
        self.coef = {k: Fraction(v) for k, v in (coef or {}).items() if v != 0}
        self.const = Fraction(const)

    def __add__(self, o):
        c = dict(self.coef)
        for k, v in o.coef.items():
            c[k] = c.get(k, 0) + v
        return Lin(c, self.const + o.const)

    def __neg__(self):
        return Lin({k: -v for k, v in self.coef.items()}, -self.const)

    def __sub__(self, o):
        return self + (-o)

    def scale(self, f):
        return Lin({k: v * f for k, v in self.coef.items()}, self.const * f)

    def is_const(self):
        return not self.coef

    def __eq__(self, o):
        return isinstance(o, Lin) and self.coef == o.coef and self.const == o.const

    def __hash__(self):
        return hash((tuple(sorted(self.coef.items())), self.const))

    def __repr__(self):
        parts = []
        for k in sorted(self.coef):
            v = self.coef[k]
            if v == 1:
                parts.append(f'+{k}')
            elif v == -1:
                parts.append(f'-{k}')
            else:
                parts.append(f'{"+" if v > 0 else ""}{v}*{k}')
        if self.const != 0 or not parts:
            parts.append(f'{"+" if self.const >= 0 else ""}{self.const}')
        s = ' '.join(parts)
        return s[1:] if s.startswith('+') else s


def linform(e, env=None, symname=None):
    """Linear form of expression `e`. `env`: name -> Lin (substitution of locals). Non-linear sub-expressions become
    opaque symbols named by their source text (or symname(node))."""
    env = env or {}

    def sym(n):
        name = symname(n) if symname else None
        return Lin({name or src(n): 1})

    def rec(n):
        if isinstance(n, ast.Constant) and isinstance(n.value, (int, float)) and not isinstance(n.value, bool):
            return Lin(const=Fraction(n.value).limit_denominator(10 ** 6))
        if isinstance(n, ast.Name):
            if n.id in env and env[n.id] is not None:
                return env[n.id]
            return sym(n)
        if isinstance(n, ast.UnaryOp) and isinstance(n.op, ast.USub):
            return -rec(n.operand)
        if isinstance(n, ast.UnaryOp) and isinstance(n.op, ast.UAdd):
            return rec(n.operand)
        if isinstance(n, ast.BinOp):
            if isinstance(n.op, ast.Add):
                return rec(n.left) + rec(n.right)
            if isinstance(n.op, ast.Sub):
                return rec(n.left) - rec(n.right)
            if isinstance(n.op, ast.Mult):
                l, r = rec(n.left), rec(n.right)
                if l.is_const():
                    return r.scale(l.const)
                if r.is_const():
                    return l.scale(r.const)
                return sym(n)
            if isinstance(n.op, ast.Div):
                l, r = rec(n.left), rec(n.right)
                if r.is_const() and r.const != 0:
                    return l.scale(1 / r.const)
                return sym(n)
        if isinstance(n, ast.Call) and dotted(n.func) == 'len' and n.args and isinstance(n.args[0], ast.Constant) \
                and isinstance(n.args[0].value, (str, bytes)):
            return Lin(const=len(n.args[0].value))
        return sym(n)

    return rec(e)


# ------------------------------------------------------------------ D1 ordering / comparison predicates
class NotComparisonOnly(AnalysisError):
    pass


def eval_num(n, env, atom_name=None):
    """Integer value of an arithmetic expression over atoms: constants, atoms (by atom_name / source text), + - * //,
    unary minus, min / max / abs, conditional expressions."""
    nm = atom_name or (lambda x: None)
    c = _num_const(n)
    if c is not None:
        return c
    k = nm(n) or src(n)
    if k in env:
        return env[k]
    if isinstance(n, ast.BinOp) and isinstance(n.op, (ast.Add, ast.Sub, ast.Mult, ast.FloorDiv)):
        l, r = eval_num(n.left, env, atom_name), eval_num(n.right, env, atom_name)
        if isinstance(n.op, ast.Add):
            return l + r
        if isinstance(n.op, ast.Sub):
            return l - r
        if isinstance(n.op, ast.Mult):
            return l * r
        if r == 0:
            raise NotComparisonOnly('division by zero in abstract case')
        return l // r
    if isinstance(n, ast.UnaryOp) and isinstance(n.op, ast.USub):
        return -eval_num(n.operand, env, atom_name)
    if isinstance(n, ast.Call) and dotted(n.func) in ('min', 'max', 'abs') and n.args and not n.keywords:
        vals = [eval_num(a, env, atom_name) for a in n.args]
        return {'min': min, 'max': max, 'abs': lambda *v: abs(v[0])}[dotted(n.func)](*vals)
    if isinstance(n, ast.IfExp):
        return eval_num(n.body, env, atom_name) if eval_pred(n.test, env, atom_name) else eval_num(n.orelse, env, atom_name)
    raise NotComparisonOnly(f'no value for atom {k}')


def num_atoms(n, atom_name=None, out=None):
    """atoms (leaf operands) of an arithmetic expression as understood by eval_num"""
    nm = atom_name or (lambda x: None)
    out = out if out is not None else {}
    if _num_const(n) is not None:
        return out
    k = nm(n)
    if k:
        out.setdefault(k, n)
        return out
    if isinstance(n, ast.BinOp) and isinstance(n.op, (ast.Add, ast.Sub, ast.Mult, ast.FloorDiv)):
        num_atoms(n.left, atom_name, out); num_atoms(n.right, atom_name, out)
    elif isinstance(n, ast.UnaryOp) and isinstance(n.op, ast.USub):
        num_atoms(n.operand, atom_name, out)
    elif isinstance(n, ast.Call) and dotted(n.func) in ('min', 'max', 'abs') and n.args and not n.keywords:
        for a in n.args:
            num_atoms(a, atom_name, out)
    elif isinstance(n, ast.IfExp):
        a, b = cmp_atoms(n.test, atom_name)
        out.update(a)
        num_atoms(n.body, atom_name, out); num_atoms(n.orelse, atom_name, out)
    else:
        out.setdefault(src(n), n)
    return out


def check_exprs(exprs, spec, symbols, constraint=None, atom_name=None, extra_consts=(), bools=()):
    """Compare a tuple of arithmetic expressions with spec(env) -> tuple on every assignment of `symbols`."""
    for e in exprs:
        for a in num_atoms(e, atom_name):
            if a not in symbols:
                raise NotComparisonOnly(f'unexpected atom {a} in {src(e)}')
    consts = set(extra_consts)
    for e in exprs:
        consts |= consts_in(e)
    n = 0
    bad = []
    for env in assignments(symbols, consts, bools, constraint):
        n += 1
        got = tuple(eval_num(e, env, atom_name) for e in exprs)
        want = tuple(spec(env))
        if got != want and len(bad) < 5:
            bad.append({'case': dict(env), 'code': got, 'spec': want})
    return n, bad


def cmp_atoms(e, atom_name=None):
    """Operands of all comparisons inside boolean expression e -> {name: node}. Boolean leaves that are not
    comparisons are returned in the second dict."""
    nums, bools = {}, {}
    nm = atom_name or (lambda n: None)

    def operand(n):
        for k, v in num_atoms(n, atom_name).items():
            nums.setdefault(k, v)

    def rec(n):
        k0 = nm(n)
        if k0 and not isinstance(n, (ast.BoolOp,)):
            # the rule names this whole sub-expression as one boolean atom
            if isinstance(n, ast.Compare) or not isinstance(n, (ast.UnaryOp,)):
                if isinstance(n, ast.Compare) and k0:
                    bools.setdefault(k0, n)
                    return
        if isinstance(n, ast.BoolOp):
            for v in n.values:
                rec(v)
        elif isinstance(n, ast.UnaryOp) and isinstance(n.op, ast.Not):
            rec(n.operand)
        elif isinstance(n, ast.IfExp):
            rec(n.test); rec(n.body); rec(n.orelse)
        elif isinstance(n, ast.Compare) and all(isinstance(o, (ast.Lt, ast.LtE, ast.Gt, ast.GtE, ast.Eq, ast.NotEq)) for o in n.ops):
            operand(n.left)
            for c in n.comparators:
                operand(c)
        elif isinstance(n, ast.Constant) and isinstance(n.value, bool):
            pass
        else:
            bools.setdefault(nm(n) or src(n), n)
    rec(e)
    return nums, bools


def _num_const(n):
    if isinstance(n, ast.Constant) and isinstance(n.value, (int, float)) and not isinstance(n.value, bool):
        return n.value
    if isinstance(n, ast.UnaryOp) and isinstance(n.op, ast.USub) and isinstance(n.operand, ast.Constant) \
            and isinstance(n.operand.value, (int, float)):
        return -n.operand.value
    return None


def eval_pred(e, env, atom_name=None):
    """Evaluate boolean/comparison expression under env: atom name -> int / bool."""
    nm = atom_name or (lambda n: None)

    def val(n):
        return eval_num(n, env, atom_name)

    def rec(n):
        k0 = nm(n)
        if k0 and isinstance(n, ast.Compare) and k0 in env and isinstance(env[k0], bool):
            return env[k0]
        if isinstance(n, ast.BoolOp):
            if isinstance(n.op, ast.And):
                return all(rec(v) for v in n.values)
            return any(rec(v) for v in n.values)
        if isinstance(n, ast.UnaryOp) and isinstance(n.op, ast.Not):
            return not rec(n.operand)
        if isinstance(n, ast.IfExp):
            return rec(n.body) if rec(n.test) else rec(n.orelse)
        if isinstance(n, ast.Constant) and isinstance(n.value, bool):
            return n.value
        if isinstance(n, ast.Compare) and all(isinstance(o, (ast.Lt, ast.LtE, ast.Gt, ast.GtE, ast.Eq, ast.NotEq)) for o in n.ops):
            l = val(n.left)
            for op, c in zip(n.ops, n.comparators):
                r = val(c)
                ok = {ast.Lt: l < r, ast.LtE: l <= r, ast.Gt: l > r, ast.GtE: l >= r, ast.Eq: l == r, ast.NotEq: l != r}[type(op)]
                if not ok:
                    return False
                l = r
            return True
        k = nm(n) or src(n)
        if k in env:
            return bool(env[k])
        raise NotComparisonOnly(f'not a comparison-only predicate: {src(n)}')
    return rec(e)


def consts_in(e):
    out = set()
    for n in ast.walk(e):
        c = _num_const(n)
        if c is not None and isinstance(n, (ast.Constant,)):
            out.add(int(c) if float(c).is_integer() else c)
    return out


def assignments(symbols, consts=(), bools=(), constraint=None):
    """All assignments of integer `symbols` over [cmin-k, cmax+k] x all boolean atoms, filtered by constraint(env)."""
    symbols = list(symbols)
    k = len(symbols)
    cs = [int(c) for c in consts if float(c).is_integer()] or [0]
    lo, hi = min(cs) - k, max(cs) + k
    rng = range(lo, hi + 1)
    bools = list(bools)
    for vals in itertools.product(rng, repeat=k):
        env = dict(zip(symbols, vals))
        for bv in itertools.product((False, True), repeat=len(bools)):
            env2 = dict(env)
            env2.update(zip(bools, bv))
            if constraint is None or constraint(env2):
                yield env2


def check_pred(e, spec, symbols=None, constraint=None, atom_name=None, extra_consts=(), extra_bools=()):
    """Compare predicate expression `e` with python function spec(env) on every assignment.
    Returns (n_cases, counterexamples[:5])."""
    nums, bools = cmp_atoms(e, atom_name)
    syms = list(symbols) if symbols is not None else sorted(nums)
    for s in nums:
        if s not in syms:
            raise NotComparisonOnly(f'unexpected atom {s} in {src(e)}')
    consts = consts_in(e) | set(extra_consts)
    n = 0
    bad = []
    for env in assignments(syms, consts, sorted(set(bools) | set(extra_bools)), constraint):
        n += 1
        got = eval_pred(e, env, atom_name)
        want = spec(env)
        if bool(got) != bool(want):
            if len(bad) < 5:
                bad.append({'case': dict(env), 'code': bool(got), 'spec': bool(want)})
    return n, bad


# ------------------------------------------------------------------ D3 rounding bounds
class Rnd:
    """An integer-valued expression v related to a real quotient num/den (linear forms):
         lo  <(=)  v - num/den  <(=)  hi
    Plain integers / linear integer terms have den None (num carries them, bounds [0,0])."""

    def __init__(self, num, den, lo, lo_closed, hi, hi_closed):
        self.num, self.den = num, den
        self.lo, self.lo_closed, self.hi, self.hi_closed = Fraction(lo), lo_closed, Fraction(hi), hi_closed

    @property
    def q(self):
        return f'({self.num})/({self.den})' if self.den is not None else f'{self.num}'

    def shift(self, c):
        return Rnd(self.num, self.den, self.lo + c, self.lo_closed, self.hi + c, self.hi_closed)

    def neg(self):
        return Rnd(-self.num, self.den, -self.hi, self.hi_closed, -self.lo, self.lo_closed)

    def add(self, o):
        if self.den is None and self.num.is_const() and self.lo == self.hi == 0:
            return o.shift(self.num.const)
        if o.den is None and o.num.is_const() and o.lo == o.hi == 0:
            return self.shift(o.num.const)
        if self.den is None and o.den is None:
            num, den = self.num + o.num, None
        elif self.den is None:
            num, den = o.num + _mul(self.num, o.den), o.den
            if num is None:
                return None
        elif o.den is None:
            num, den = self.num + _mul(o.num, self.den), self.den
            if num is None:
                return None
        elif self.den == o.den:
            num, den = self.num + o.num, self.den
        else:
            return None
        lo, hi = self.lo + o.lo, self.hi + o.hi
        return Rnd(num, den, lo, self.lo_closed and o.lo_closed, hi, self.hi_closed and o.hi_closed)

    def within(self, lo, lo_closed, hi, hi_closed):
        lo, hi = Fraction(lo), Fraction(hi)
        okl = self.lo > lo or (self.lo == lo and (lo_closed or not self.lo_closed))
        okh = self.hi < hi or (self.hi == hi and (hi_closed or not self.hi_closed))
        return okl and okh

    def interval(self):
        return f'{"[" if self.lo_closed else "("}{self.lo},{self.hi}{"]" if self.hi_closed else ")"}'

    def __repr__(self):
        return f'{self.interval()} + {self.q}'


def _mul(lin, den):
    """lin * den when one of them is a constant (keeps linearity); None otherwise."""
    if lin.is_const():
        return den.scale(lin.const)
    if den.is_const():
        return lin.scale(den.const)
    return None


def rounding(e, env=None, nonneg=None):
    """Rnd of an expression built from floor / ceil / int(x/y) / x//y (np./math. prefixes allowed), integer constants,
    + and - of such terms with a common denominator. `env`: name -> AST expression (local definitions to inline).
    `nonneg(quotient ast)` -> True when the quotient is known >= 0 (int() truncation then equals floor).
    Returns None for forms outside this table."""
    env = env or {}
    nonneg = nonneg or (lambda q: False)

    def quot(a):
        if isinstance(a, ast.BinOp) and isinstance(a.op, ast.Div):
            return linform(a.left, _lin_env(env)), linform(a.right, _lin_env(env))
        return None

    def rec(n, depth=0):
        if depth > 20:
            return None
        if isinstance(n, ast.Name) and n.id in env:
            return rec(env[n.id], depth + 1)
        c = _num_const(n)
        if c is not None and float(c).is_integer():
            return Rnd(Lin(const=int(c)), None, 0, True, 0, True)
        if isinstance(n, ast.BinOp) and isinstance(n.op, (ast.Add, ast.Sub)):
            l, r = rec(n.left, depth + 1), rec(n.right, depth + 1)
            if l is None or r is None:
                return None
            return l.add(r if isinstance(n.op, ast.Add) else r.neg())
        if isinstance(n, ast.UnaryOp) and isinstance(n.op, ast.USub):
            r = rec(n.operand, depth + 1)
            return r.neg() if r else None
        if isinstance(n, ast.BinOp) and isinstance(n.op, ast.FloorDiv):
            return Rnd(linform(n.left, _lin_env(env)), linform(n.right, _lin_env(env)), -1, False, 0, True)
        if isinstance(n, ast.Call):
            d = dotted(n.func) or ''
            base = d.split('.')[-1]
            if base == 'int' and len(n.args) == 1:
                a = n.args[0]
                inner = rec(a, depth + 1)
                if inner is not None:
                    return inner
                q = quot(a)
                if q is not None:
                    if nonneg(a):
                        return Rnd(q[0], q[1], -1, False, 0, True)      # truncation == floor for q >= 0
                    return Rnd(q[0], q[1], -1, False, 1, False)         # truncation toward zero: v - q in (-1, 1)
                return None
            if base in ('floor', 'ceil') and len(n.args) == 1:
                q = quot(n.args[0])
                if q is None:
                    return None
                return Rnd(q[0], q[1], -1, False, 0, True) if base == 'floor' else Rnd(q[0], q[1], 0, True, 1, False)
        if isinstance(n, ast.Name):
            return Rnd(Lin({n.id: 1}), None, 0, True, 0, True)     # an integer symbol
        return None
    return rec(e)


def _lin_env(env):
    return None
