"""Constant propagation through constructor chains (DESIGN D5 / C02-R0).

Interprets `Class(**kwargs)` -> `Class.__init__` -> explicit `Base.__init__(self, ...)` / `super().__init__(...)` up-calls with
keyword binding, defaults and `**kwargs` forwarding, over objects represented as attribute dictionaries.  Everything that is not a
compile-time constant becomes TOP (unknown) and is reported as such by the rules.
"""
import ast

from .consteval import Evaluator, Unfoldable, TOP, _Return, _Break, _Continue
from .index import dotted, src, AnalysisError


class Obj(dict):
    def __init__(self, cls):
        super().__init__()
        self.cls = cls

    def __repr__(self):
        return f'<{self.cls} {dict(self)}>'


class Opaque:
    def __init__(self, name):
        self.name = name

    def __repr__(self):
        return f'<{self.name}>'


class ObjInterpreter:
    def __init__(self, ix, budget=400000):
        self.ix = ix
        self.budget = budget
        self.classes = ix.class_table()
        self.unfolded = []

    # ---- class lookup (by name; last definition in a module wins, like Python)
    def class_def(self, name, prefer=None):
        defs = self.classes.get(name, [])
        if not defs:
            return None
        if prefer:
            p = [d for d in defs if d[0] == prefer]
            if p:
                return p[-1]
        return defs[-1]

    def mro(self, name, prefer=None, _seen=None):
        _seen = _seen or set()
        if name in _seen:
            return []
        _seen.add(name)
        d = self.class_def(name, prefer)
        if d is None:
            return []
        out = [(name, d)]
        for b in self.ix.bases_of(d[1]):
            for x in self.mro(b, None, _seen):
                if x[0] not in [y[0] for y in out]:
                    out.append(x)
        return out

    def find_method(self, clsname, meth, prefer=None, after=None):
        chain = self.mro(clsname, prefer)
        started = after is None
        for name, (rel, cdef) in chain:
            if not started:
                if name == after:
                    started = True
                continue
            for m in cdef.body:
                if isinstance(m, ast.FunctionDef) and m.name == meth:
                    return name, rel, m
        return None

    # ---- evaluation
    def instantiate(self, clsname, kwargs, prefer=None):
        obj = Obj(clsname)
        found = self.find_method(clsname, '__init__', prefer)
        if found is None:
            return obj
        self.call_function(found[2], [obj], kwargs, owner=found[0])
        return obj

    def call_function(self, fdef, args, kwargs, owner=None):
        ev = Evaluator({}, budget=self.budget, call_hook=lambda e, call, env: self.hook(e, call, env, owner))
        ev.obj_attr = True
        scope = {}
        params = [a.arg for a in fdef.args.args]
        defaults = fdef.args.defaults
        for p, d in zip(params[len(params) - len(defaults):], defaults):
            try:
                scope[p] = ev.ev(d, scope)
            except Unfoldable:
                scope[p] = TOP
        for p, a in zip(params, args):
            scope[p] = a
        extra = {}
        for k, v in (kwargs or {}).items():
            if k in params:
                scope[k] = v
            else:
                extra[k] = v
        if fdef.args.kwarg is not None:
            scope[fdef.args.kwarg.arg] = extra
        for p in params:
            scope.setdefault(p, TOP)
        self._attr_patch(ev)
        try:
            self.block(fdef.body, ev, scope)
        except _Return as r:
            return r.v
        return None

    def _attr_patch(self, ev):
        orig = ev.ev
        interp = self

        def ev2(e, env=None):
            env = ev.env if env is None else env
            if isinstance(e, ast.Attribute):
                base = ev2(e.value, env)
                if isinstance(base, Obj):
                    if e.attr in base:
                        v = base[e.attr]
                        if v is TOP:
                            raise Unfoldable(f'{e.attr} unknown')
                        return v
                    raise Unfoldable(f'attribute {e.attr} not set')
                if isinstance(base, slice) and e.attr in ('start', 'stop', 'step'):
                    return getattr(base, e.attr)
                raise Unfoldable(f'attribute on {type(base).__name__}')
            return orig(e, env)
        ev.ev = ev2
        obind = ev.bind

        def bind2(target, value, env):
            if isinstance(target, ast.Attribute):
                try:
                    base = ev.ev(target.value, env)
                except Unfoldable:
                    return
                if isinstance(base, Obj):
                    base[target.attr] = value
                    return
                return
            return obind(target, value, env)
        ev.bind = bind2

    def block(self, stmts, ev, scope):
        for s in stmts:
            self.stmt(s, ev, scope)

    def stmt(self, s, ev, scope):
        ev.tick()
        if isinstance(s, ast.Assign):
            try:
                v = ev.ev(s.value, scope)
            except Unfoldable as ex:
                v = TOP
                self.unfolded.append((getattr(s, 'lineno', 0), src(s)[:80], str(ex)))
            for t in s.targets:
                try:
                    ev.bind(t, v, scope)
                except Unfoldable:
                    pass
        elif isinstance(s, ast.If):
            try:
                c = ev.ev(s.test, scope)
            except Unfoldable as ex:
                raise Unfoldable(f'branch on unknown value `{src(s.test)[:60]}`: {ex}')
            self.block(s.body if c else s.orelse, ev, scope)
        elif isinstance(s, ast.Expr):
            if isinstance(s.value, ast.Constant):
                return
            try:
                ev.ev(s.value, scope)
            except Unfoldable as ex:
                self.unfolded.append((getattr(s, 'lineno', 0), src(s)[:80], str(ex)))
        elif isinstance(s, ast.Raise):
            raise Unfoldable('constructor raises: ' + src(s)[:80])
        elif isinstance(s, ast.Return):
            raise _Return(ev.ev(s.value, scope) if s.value is not None else None)
        elif isinstance(s, ast.For):
            try:
                it = ev.ev(s.iter, scope)
            except Unfoldable as ex:
                self.unfolded.append((s.lineno, src(s.iter)[:60], str(ex)))
                return
            for item in it:
                ev.bind(s.target, item, scope)
                try:
                    self.block(s.body, ev, scope)
                except _Continue:
                    continue
                except _Break:
                    break
        elif isinstance(s, ast.Pass):
            pass
        elif isinstance(s, (ast.Try,)):
            self.block(s.body, ev, scope)
        elif isinstance(s, ast.AugAssign):
            try:
                cur = ev.ev(s.target, scope)
                val = ev.ev(s.value, scope)
                ev.bind(s.target, cur + val if isinstance(s.op, ast.Add) else cur - val, scope)
            except Unfoldable:
                pass
        else:
            self.unfolded.append((getattr(s, 'lineno', 0), type(s).__name__, 'statement not interpreted'))

    def hook(self, ev, call, env, owner):
        d = dotted(call.func) or ''
        # keyword evaluation incl. **kwargs
        def kwargs_of():
            out = {}
            for k in call.keywords:
                try:
                    v = ev.ev(k.value, env)
                except Unfoldable:
                    v = TOP
                if k.arg is None:
                    if isinstance(v, dict):
                        out.update(v)
                else:
                    out[k.arg] = v
            return out

        def args_of(skip_self=False):
            out = []
            for a in call.args:
                try:
                    out.append(ev.ev(a, env))
                except Unfoldable:
                    out.append(TOP)
            return out
        if d.endswith('.__init__') and call.args:
            base = d[:-len('.__init__')].split('.')[-1]
            if base.startswith('super()'):
                found = self.find_method(env.get('self').cls if isinstance(env.get('self'), Obj) else None, '__init__', after=owner)
            else:
                found = self.find_method(base, '__init__')
            if found is None:
                return None
            a = args_of()
            return self.call_function(found[2], a, kwargs_of(), owner=found[0])
        if d.startswith('super().__init__') or (isinstance(call.func, ast.Attribute) and call.func.attr == '__init__' and isinstance(call.func.value, ast.Call) and dotted(call.func.value.func) == 'super'):
            selfobj = env.get('self')
            found = self.find_method(selfobj.cls, '__init__', after=owner) if isinstance(selfobj, Obj) else None
            if found is None:
                return None
            return self.call_function(found[2], [selfobj] + args_of(), kwargs_of(), owner=found[0])
        name = d.split('.')[-1]
        if name in self.classes and d.split('.')[0] not in ('np', 'collections') and name[:1].isupper() or (name in self.classes and any('Demux' in b or 'Demultiplex' in b for b in [x for _, c in self.classes[name] for x in self.ix.bases_of(c)])):
            kw = kwargs_of()
            pos = args_of()
            found = self.find_method(name, '__init__')
            if found is not None:
                params = [a.arg for a in found[2].args.args][1:]
                for p, v in zip(params, pos):
                    kw.setdefault(p, v)
            return self.instantiate(name, kw)
        return NotImplemented
