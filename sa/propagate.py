"""N7 - forward substitution of *new* single-assignment temporaries (DESIGN section 9).

"Hoist a repeated sub-expression into a local" (and the temporaries the inliner N6 creates) hides the expression a rule looks for behind a
name that did not exist when the rule was written.  A local is substituted back into its uses when
  * it is not a local of the like-named function in the reference snapshot (after N5 renaming), and not a parameter;
  * it is assigned exactly once, by a plain `name = <expr>` statement, and every use follows that statement inside the same block
    (or blocks nested in it);
  * no name occurring in <expr> is re-bound between the assignment and the last use (textually);
  * <expr> contains no yield / await / walrus; an <expr> that creates an object (display, comprehension, non-builtin call) is substituted
    only when no use can mutate it (no attribute access / item store on the name, no plain alias).
The assignment is then dropped and every use replaced by <expr>.  This only undoes naming of intermediate values; the rules still
analyse the current computation.
"""
import ast
import copy

from . import alpha


def _own(fdef):
    yield from alpha._own_nodes(fdef)


def _blocks(node):
    for fld in ('body', 'orelse', 'finalbody'):
        sub = getattr(node, fld, None)
        if isinstance(sub, list) and sub and isinstance(sub[0], ast.stmt):
            yield sub
    if isinstance(node, ast.Try):
        for h in node.handlers:
            yield h.body


def _find_block(fdef, stmt):
    st = [fdef]
    while st:
        n = st.pop()
        for b in _blocks(n):
            for s in b:
                if s is stmt:
                    return b
                if not isinstance(s, (ast.FunctionDef, ast.AsyncFunctionDef, ast.ClassDef)):
                    st.append(s)
    return None


class _Sub(ast.NodeTransformer):
    def __init__(self, name, expr):
        self.name, self.expr, self.n = name, expr, 0

    def visit_Name(self, node):
        if node.id == self.name and isinstance(node.ctx, ast.Load):
            self.n += 1
            return ast.copy_location(copy.deepcopy(self.expr), node)
        return node


def _split_live_ranges(f, names):
    """A new temporary that is assigned in several places (the same helper line in two branches, `n = len(m)` ... `n = len(m)`) is split into one
    name per assignment when every read of it follows one of the assignments inside the same block before the next assignment: the
    copies are then independent single-assignment temporaries."""
    for v in sorted(names):
        stores = [n for n in _own(f) if isinstance(n, ast.Name) and n.id == v and isinstance(n.ctx, (ast.Store, ast.Del))]
        if len(stores) < 2:
            continue
        loads = [n for n in ast.walk(f) if isinstance(n, ast.Name) and n.id == v and isinstance(n.ctx, ast.Load)]
        defs = []
        ok = True
        for st in stores:
            d = None
            for n in _own(f):
                if isinstance(n, ast.Assign) and len(n.targets) == 1 and n.targets[0] is st:
                    d = n
            if d is None:
                ok = False
                break
            defs.append(d)
        if not ok:
            continue
        covered = set()
        ranges = []
        for d in defs:
            blk = _find_block(f, d)
            if blk is None:
                ok = False
                break
            i = next(k for k, s_ in enumerate(blk) if s_ is d)
            rng = []
            for s_ in blk[i + 1:]:
                if any(isinstance(n, ast.Name) and n.id == v and isinstance(n.ctx, (ast.Store, ast.Del)) for n in ast.walk(s_)):
                    break
                rng.append(s_)
            mine = [n for s_ in rng for n in ast.walk(s_) if isinstance(n, ast.Name) and n.id == v and isinstance(n.ctx, ast.Load)]
            if any(id(n) in covered for n in mine) or any(isinstance(n, ast.Name) and n.id == v for n in ast.walk(d.value)):
                ok = False
                break
            covered |= {id(n) for n in mine}
            ranges.append((d, mine))
        if not ok or covered != {id(n) for n in loads}:
            continue
        for k, (d, mine) in enumerate(ranges):
            new = f'{v}__d{k + 1}'
            d.targets[0].id = new
            for n in mine:
                n.id = new


def propagate_function(f, ref_names):
    done = []
    params = {a.arg for a in ast.walk(f.args) if isinstance(a, ast.arg)}
    if not (alpha.bound_names(f) - set(ref_names) - params):
        return done
    # `a, b, c = X` with new names and a plain source (name / attribute / subscript) is `a = X[0]; b = X[1]; c = X[2]`
    newnames = alpha.bound_names(f) - set(ref_names) - params

    def simple_src(e):
        return isinstance(e, ast.Name) or (isinstance(e, ast.Attribute) and simple_src(e.value)) or (isinstance(e, ast.Subscript) and simple_src(e.value) and (isinstance(e.slice, (ast.Constant, ast.Name)) or (isinstance(e.slice, ast.UnaryOp) and isinstance(e.slice.operand, ast.Constant))))
    st = [f]
    while st:
        n = st.pop()
        for b in _blocks(n):
            out = []
            for s_ in b:
                if isinstance(s_, ast.Assign) and len(s_.targets) == 1 and isinstance(s_.targets[0], ast.Tuple) and simple_src(s_.value) \
                        and all(isinstance(t, ast.Name) and t.id in newnames for t in s_.targets[0].elts) and not any(isinstance(t, ast.Starred) for t in s_.targets[0].elts):
                    for k, t in enumerate(s_.targets[0].elts):
                        out.append(ast.copy_location(ast.Assign(targets=[t], value=ast.copy_location(ast.Subscript(value=copy.deepcopy(s_.value), slice=ast.Constant(value=k), ctx=ast.Load()), s_)), s_))
                    done.append(('<unpack>', ast.unparse(s_.value)[:40], len(s_.targets[0].elts)))
                    continue
                out.append(s_)
                if not isinstance(s_, (ast.FunctionDef, ast.AsyncFunctionDef, ast.ClassDef)):
                    st.append(s_)
            b[:] = out
    _split_live_ranges(f, alpha.bound_names(f) - set(ref_names) - params)
    for _round in range(6):
        changed = False
        bound = alpha.bound_names(f)
        for v in sorted(bound - set(ref_names) - params):
            stores = [n for n in _own(f) if isinstance(n, ast.Name) and n.id == v and isinstance(n.ctx, (ast.Store, ast.Del))]
            handlers = [n for n in _own(f) if isinstance(n, ast.ExceptHandler) and n.name == v]
            if len(stores) != 1 or handlers:
                continue
            d = None
            for n in _own(f):
                if isinstance(n, ast.Assign) and len(n.targets) == 1 and n.targets[0] is stores[0]:
                    d = n
            if d is None:
                continue
            e = d.value
            if any(isinstance(x, (ast.Yield, ast.YieldFrom, ast.Await, ast.NamedExpr)) for x in ast.walk(e)):
                continue
            # an expression that builds a new object (display, comprehension, arbitrary call) has identity: it may only replace a single use,
            # and never a use that mutates it (receiver of a method call, target of an item / attribute store)
            PURE = {'len', 'min', 'max', 'abs', 'int', 'float', 'str', 'bool', 'tuple', 'sum', 'round', 'dict', 'zip', 'list', 'set', 'sorted', 'frozenset', 'range', 'enumerate',
                    'isinstance', 'repr', 'ord', 'chr', 'any', 'all', 'reversed', 'map', 'filter', 'slice'}
            # an expression that calls anything but a pure builtin may have effects (reading a file, advancing an iterator): it replaces a
            # single use only.  An expression that builds a new object (display, comprehension, constructor) has identity: it is never
            # substituted into a use that can mutate it (attribute access / item store on the name) and not when the name is aliased.
            impure = any(isinstance(x, ast.Call) and not (isinstance(x.func, ast.Name) and x.func.id in PURE) for x in ast.walk(e))
            SCALAR = {'len', 'min', 'max', 'abs', 'int', 'float', 'str', 'bool', 'sum', 'round', 'ord', 'chr', 'isinstance', 'any', 'all', 'repr'}
            builds = any(isinstance(x, (ast.List, ast.Dict, ast.Set, ast.ListComp, ast.SetComp, ast.DictComp, ast.GeneratorExp)) or
                         (isinstance(x, ast.Call) and not (isinstance(x.func, ast.Name) and x.func.id in SCALAR)) for x in ast.walk(e))
            loads = [n for n in ast.walk(f) if isinstance(n, ast.Name) and n.id == v and isinstance(n.ctx, ast.Load)]
            if impure and len(loads) != 1:
                continue
            if builds:
                READONLY = {'items', 'keys', 'values', 'get', 'copy', 'index', 'count', 'startswith', 'endswith', 'upper', 'lower', 'split', 'join', 'format', 'strip',
                            'rstrip', 'lstrip', 'find', 'union', 'intersection', 'difference', 'issubset', 'issuperset', 'most_common', 'shape', 'sum', 'mean', 'T', 'astype'}
                mutated = any((isinstance(n, ast.Attribute) and isinstance(n.value, ast.Name) and n.value.id == v and n.attr not in READONLY) or
                              (isinstance(n, ast.Subscript) and isinstance(n.value, ast.Name) and n.value.id == v and isinstance(n.ctx, (ast.Store, ast.Del)))
                              for n in ast.walk(f))
                aliased = any(isinstance(n, ast.Assign) and isinstance(n.value, ast.Name) and n.value.id == v for n in ast.walk(f))
                if mutated or (len(loads) != 1 and aliased):
                    continue
                # building the object once and reading it several times is not the same text as building it several times: a built
                # value with more than one use stays a local (only subscript reads of a constant index count as "the same element")
                if len(loads) != 1 and any(isinstance(x, ast.Call) and not (isinstance(x.func, ast.Name) and x.func.id in (SCALAR | {'slice'})) for x in ast.walk(e)):
                    continue
                # a generator expression is consumed by its first use
                if isinstance(e, ast.GeneratorExp) and len(loads) != 1:
                    continue
            blk = _find_block(f, d)
            if blk is None:
                continue
            i = next(k for k, s in enumerate(blk) if s is d)
            after = blk[i + 1:]
            uses_after = [n for s in after for n in ast.walk(s) if isinstance(n, ast.Name) and n.id == v and isinstance(n.ctx, ast.Load)]
            all_uses = [n for n in ast.walk(f) if isinstance(n, ast.Name) and n.id == v and isinstance(n.ctx, ast.Load)]
            if not uses_after or len(uses_after) != len(all_uses):
                continue
            last = max(getattr(n, 'lineno', 0) for n in uses_after)
            operands = {n.id for n in ast.walk(e) if isinstance(n, ast.Name)} - {n.id for n in ast.walk(e) if isinstance(n, ast.Name) and isinstance(n.ctx, ast.Store)}
            clobber = False
            for s in after:
                for n in ast.walk(s):
                    if isinstance(n, ast.Name) and isinstance(n.ctx, (ast.Store, ast.Del)) and n.id in operands and getattr(n, 'lineno', 0) <= last:
                        clobber = True
                    if isinstance(n, ast.ExceptHandler) and n.name in operands:
                        clobber = True
            if not clobber:
                # the objects read by <expr> must not be mutated between the assignment and the last use: explicit item / attribute stores and
                # deletions, augmented assignments and mutating method calls on a path that <expr> reads through
                paths = set()
                for n in ast.walk(e):
                    if isinstance(n, (ast.Name, ast.Attribute, ast.Subscript)):
                        try:
                            paths.add(ast.unparse(n.value) if isinstance(n, ast.Subscript) else ast.unparse(n))
                        except Exception:
                            pass
                paths = {p_ for p_ in paths if p_ not in ('self',)}
                MUTATORS = {'append', 'extend', 'pop', 'remove', 'insert', 'clear', 'update', 'add', 'discard', 'sort', 'reverse', 'popitem', 'setdefault', 'appendleft', 'popleft'}
                last_stmt = max((k for k, s in enumerate(after) if any(n in uses_after for n in ast.walk(s))), default=-1)
                for k_s, s in enumerate(after[:last_stmt + 1]):
                    own_targets = set()
                    if k_s == last_stmt and isinstance(s, ast.Assign) and all(any(u is n_ for n_ in ast.walk(s.value)) for u in uses_after if any(u is n_ for n_ in ast.walk(s))):
                        # the right-hand side is evaluated before the statement's own targets are stored
                        own_targets = {id(n_) for t_ in s.targets for n_ in ast.walk(t_)}
                    for n in ast.walk(s):
                        if id(n) in own_targets:
                            continue
                        tgt = None
                        if isinstance(n, (ast.Subscript, ast.Attribute)) and isinstance(n.ctx, (ast.Store, ast.Del)):
                            tgt = n.value if isinstance(n, ast.Subscript) else n
                        elif isinstance(n, ast.AugAssign):
                            tgt = n.target.value if isinstance(n.target, ast.Subscript) else n.target
                        elif isinstance(n, ast.Call) and isinstance(n.func, ast.Attribute) and n.func.attr in MUTATORS:
                            tgt = n.func.value
                        if tgt is not None:
                            try:
                                if ast.unparse(tgt) in paths:
                                    clobber = True
                            except Exception:
                                pass
            if clobber:
                continue
            sub = _Sub(v, e)
            for k in range(i + 1, len(blk)):
                blk[k] = sub.visit(blk[k])
            blk[i] = ast.copy_location(ast.Pass(), d)
            done.append((v, ast.unparse(e)[:80], sub.n))
            changed = True
        if not changed:
            break
    # drop the Pass statements left behind (keep blocks non-empty)
    st = [f]
    while st:
        n = st.pop()
        for b in _blocks(n):
            keep = [s for s in b if not isinstance(s, ast.Pass)]
            if keep and len(keep) != len(b):
                b[:] = keep
            for s in b:
                if not isinstance(s, (ast.FunctionDef, ast.AsyncFunctionDef, ast.ClassDef)):
                    st.append(s)
    return done


_GLOBALS = None


def ref_globals():
    global _GLOBALS
    if _GLOBALS is None:
        import json
        import os
        try:
            with open(os.path.join(os.path.dirname(alpha.REF_PATH), 'globals.json')) as h:
                _GLOBALS = {k: set(v) for k, v in json.load(h).items()}
        except Exception:
            _GLOBALS = {}
    return _GLOBALS


def _const_like(v):
    return isinstance(v, ast.Constant) or (isinstance(v, ast.Tuple) and all(_const_like(e) for e in v.elts)) or \
        (isinstance(v, ast.Dict) and all(k is not None and _const_like(k) for k in v.keys) and all(_const_like(x) for x in v.values))


def imported_constants(tree, relpath, loader):
    """new constants of other package modules that this module imports by name (`from .tagging import UNMAPPED_JOB`): name -> value"""
    import os
    out = {}
    if loader is None:
        return out
    for st in tree.body:
        if not isinstance(st, ast.ImportFrom):
            continue
        if st.level:
            base = os.path.dirname(relpath)
            for _ in range(st.level - 1):
                base = os.path.dirname(base)
            modpath = os.path.join(base, *(st.module.split('.') if st.module else []))
        elif st.module and st.module.startswith('singlecellmultiomics'):
            modpath = st.module.replace('.', '/')
        else:
            continue
        for rp in (modpath + '.py', modpath + '/__init__.py'):
            known = ref_globals().get(rp)
            if known is None:
                continue
            other = loader(rp)
            if other is None:
                continue
            for al in st.names:
                if al.name in known or al.name == '*':
                    continue
                defs = [d for d in other.body if isinstance(d, ast.Assign) and any(isinstance(t, ast.Name) and t.id == al.name for t in d.targets)]
                if len(defs) == 1 and len(defs[0].targets) == 1 and _const_like(defs[0].value):
                    out[al.asname or al.name] = defs[0].value
    return out


def propagate_module_constants(tree, relpath, loader=None):
    """new module-level names bound once to a constant / a dotted name (`_OFFSET = 33`, `_LETTERS = string.ascii_letters`) are substituted
    into the functions of the module (where they are not shadowed by a local binding)"""
    known = ref_globals().get(relpath)
    if known is None:
        return []
    cands = {}
    counts = {}
    for st in tree.body:
        for t in ast.walk(st) if isinstance(st, (ast.Assign, ast.AugAssign, ast.AnnAssign, ast.For, ast.With, ast.Import, ast.ImportFrom, ast.FunctionDef, ast.ClassDef)) else []:
            if isinstance(t, ast.Name) and isinstance(t.ctx, ast.Store):
                counts[t.id] = counts.get(t.id, 0) + 1
        if isinstance(st, ast.Assign) and len(st.targets) == 1 and isinstance(st.targets[0], ast.Name) and st.targets[0].id not in known:
            v = st.value
            simple = _const_like(v) or (isinstance(v, ast.Attribute) and all(isinstance(x, (ast.Attribute, ast.Name)) for x in ast.walk(v) if not isinstance(x, ast.expr_context)))
            if simple:
                cands[st.targets[0].id] = v
    cands = {k: v for k, v in cands.items() if counts.get(k, 0) == 1}
    # a module-level dictionary that the module writes to (a cache, a registry) is state, not a constant
    written = set()
    for n_ in ast.walk(tree):
        if isinstance(n_, ast.Subscript) and isinstance(n_.ctx, (ast.Store, ast.Del)) and isinstance(n_.value, ast.Name):
            written.add(n_.value.id)
        elif isinstance(n_, ast.Call) and isinstance(n_.func, ast.Attribute) and isinstance(n_.func.value, ast.Name) \
                and n_.func.attr in ('update', 'clear', 'pop', 'popitem', 'setdefault', '__setitem__', '__delitem__'):
            written.add(n_.func.value.id)
    cands = {k: v for k, v in cands.items() if not (isinstance(v, ast.Dict) and (k in written or not v.keys))}
    for k, v in imported_constants(tree, relpath, loader).items():
        if counts.get(k, 0) <= 1:
            cands[k] = v
    if not cands:
        return []
    done = []
    for q, f in alpha.functions(tree):
        bound = alpha.bound_names(f)
        use = {k: v for k, v in cands.items() if k not in bound}
        if not use:
            continue

        class S(ast.NodeTransformer):
            def visit_Name(self, node):
                if node.id in use and isinstance(node.ctx, ast.Load):
                    done.append((q, node.id))
                    return ast.copy_location(copy.deepcopy(use[node.id]), node)
                return node
        for ch in list(ast.iter_child_nodes(f)):
            S().visit(ch)
    return sorted(set(done))


def apply(tree, relpath, loader=None):
    ref = alpha.reference().get(relpath)
    out = {}
    mc = propagate_module_constants(tree, relpath, loader)
    if mc:
        out['<module constants>'] = mc
    if not ref:
        return out
    for q, f in alpha.functions(tree):
        rs = ref.get(q)
        if rs is None:
            continue
        d = propagate_function(f, rs.keys())
        if d:
            out[q] = d
    ast.fix_missing_locations(tree)
    return out
