"""Statement-level control-flow graph for a list of statements (a function body or a loop body).

Supports If / For / While (with else) / Try (except, else, finally) / With / Return / Raise / Break / Continue /
simple statements.  Exception edges: every node may raise the abstract tokens returned by `may_raise(node)`
(default: '<Other>' if it contains a call, the named class for an explicit `raise`).  A token is matched against
handlers by class name with the repository's class hierarchy (`is_subclass`); '<Other>' (an exception of a class not
named in the function) is only caught by `except Exception` / `except BaseException` / bare `except`.
`finally` bodies and `with` exits are duplicated per continuation (normal / raise token / return / break / continue).

Terminals: 'fall' (end of the statement list), 'return', 'raise', 'break', 'continue' (only when the jump leaves
the analysed statement list).
"""
import ast
from .index import AnalysisError, walk_no_nested, src

CATCH_ALL = ('Exception', 'BaseException', None)
OTHER = '<Other>'


class Node:
    __slots__ = ('id', 'kind', 'ast', 'info')

    def __init__(self, id, kind, node=None, info=None):
        self.id = id
        self.kind = kind      # stmt | test | for | with_enter | with_exit | except | term
        self.ast = node
        self.info = info      # terminal kind / with_exit mode / exception token

    @property
    def lineno(self):
        return getattr(self.ast, 'lineno', 0)

    def __repr__(self):
        if self.kind == 'term':
            return f'<{self.info}>'
        t = ''
        if self.ast is not None:
            if self.kind in ('test',):
                t = src(self.ast.test) if hasattr(self.ast, 'test') else src(self.ast)
            elif self.kind == 'for':
                t = 'for ' + src(self.ast.target) + ' in ' + src(self.ast.iter)
            elif self.kind == 'except':
                t = 'except ' + (src(self.ast.type) if self.ast.type is not None else '')
            elif self.kind.startswith('with'):
                t = self.kind + ' ' + ', '.join(src(i.context_expr) for i in self.ast.items)
            else:
                t = src(self.ast).split('\n')[0]
        return f'L{self.lineno}:{self.kind}:{t[:70]}'


class Frame:
    def __init__(self, type, node=None):
        self.type = type      # 'try' | 'finally' | 'with' | 'loop'
        self.node = node
        self.head = None
        self.break_frontier = []
        self.handler_entry = {}
        self.cache = {}


def default_may_raise(node_kind, a):
    """Abstract exception tokens a CFG node may raise."""
    if isinstance(a, ast.Raise):
        return set()  # handled explicitly
    target = a
    if node_kind == 'with_exit':
        return {OTHER}   # __exit__ runs arbitrary finalisation code
    if node_kind == 'test':
        target = a.test
    elif node_kind == 'for':
        target = a.iter
    elif node_kind == 'with_enter':
        target = ast.Tuple(elts=[i.context_expr for i in a.items], ctx=ast.Load())
    for n in walk_no_nested(target):
        if isinstance(n, (ast.Call, ast.Subscript)):
            return {OTHER}
    return set()


def raise_token(stmt):
    e = stmt.exc
    if e is None:
        return '<reraise>'
    if isinstance(e, ast.Call):
        e = e.func
    if isinstance(e, ast.Name):
        return e.id
    if isinstance(e, ast.Attribute):
        return e.attr
    return OTHER


class CFG:
    def __init__(self, stmts, may_raise=None, is_subclass=None, exceptions=True):
        self.nodes = []
        self.succ = {}
        self.pred = {}
        self.may_raise = may_raise or default_may_raise
        self.is_subclass = is_subclass or (lambda a, b: a == b)
        self.exceptions = exceptions
        self.terms = {}
        self.entry = self._new('term', None, 'entry')
        ent, ends = self._block(stmts, [])
        if ent is None:
            ent = self._term('fall')
        else:
            self._connect(ends, self._term('fall'))
        self._edge(self.entry, ent, '')
        self.stmt_nodes = {}
        for n in self.nodes:
            if n.ast is not None and n.kind in ('stmt', 'test', 'for', 'with_enter'):
                self.stmt_nodes.setdefault(id(n.ast), []).append(n.id)

    # ---- graph primitives ----
    def _new(self, kind, node=None, info=None):
        n = Node(len(self.nodes), kind, node, info)
        self.nodes.append(n)
        self.succ[n.id] = []
        self.pred[n.id] = []
        return n.id

    def _term(self, kind):
        if kind not in self.terms:
            self.terms[kind] = self._new('term', None, kind)
        return self.terms[kind]

    def _edge(self, a, b, label):
        if (b, label) not in self.succ[a]:
            self.succ[a].append((b, label))
            self.pred[b].append((a, label))

    def _connect(self, frontier, target):
        for a, label in frontier:
            self._edge(a, target, label)

    # ---- jumps through frames ----
    def _jump(self, kind, frontier, frames, token=None):
        if not frontier:
            return
        for i in range(len(frames) - 1, -1, -1):
            f = frames[i]
            key = (kind, token)
            if f.type in ('finally', 'with'):
                if key in f.cache:
                    self._connect(frontier, f.cache[key])
                    return
            if f.type == 'finally':
                ent, ends = self._block(f.node.finalbody, frames[:i])
                if ent is not None:
                    f.cache[key] = ent
                    self._connect(frontier, ent)
                    frontier = ends
                    if not frontier:
                        return
            elif f.type == 'with':
                n = self._new('with_exit', f.node, kind)
                f.cache[key] = n
                self._connect(frontier, n)
                frontier = [(n, '')]
            elif f.type == 'try' and kind == 'raise':
                caught = False
                for h in f.node.handlers:
                    m = self._match(token, h)
                    if m:
                        self._connect([(a, l or ('exc:' + str(token))) for a, l in frontier], f.handler_entry[id(h)])
                        if m == 'yes':
                            caught = True
                            break
                if caught:
                    return
            elif f.type == 'loop' and kind in ('break', 'continue'):
                if kind == 'break':
                    f.break_frontier.extend(frontier)
                else:
                    self._connect(frontier, f.head)
                return
        self._connect(frontier, self._term(kind))

    def _handler_names(self, h):
        if h.type is None:
            return [None]
        ts = h.type.elts if isinstance(h.type, ast.Tuple) else [h.type]
        out = []
        for t in ts:
            if isinstance(t, ast.Name):
                out.append(t.id)
            elif isinstance(t, ast.Attribute):
                out.append(t.attr)
            else:
                out.append('?')
        return out

    def _match(self, token, h):
        """'yes' (definitely caught), 'maybe', or '' (not caught)."""
        names = self._handler_names(h)
        if any(n in CATCH_ALL for n in names):
            return 'yes'
        if token in (OTHER, '<reraise>'):
            return ''
        for n in names:
            if n == '?':
                return 'maybe'
            if self.is_subclass(token, n):
                return 'yes'
        for n in names:
            if self.is_subclass(n, token):
                return 'maybe'
        return ''

    def _raises_from(self, nid, frames):
        if not self.exceptions:
            return
        n = self.nodes[nid]
        for tok in sorted(self.may_raise(n.kind, n.ast), key=str):
            self._jump('raise', [(nid, 'exc:' + str(tok))], frames, tok)

    # ---- builders: return (entry id or None, frontier) ----
    def _block(self, stmts, frames):
        entry = None
        frontier = None
        for s in stmts:
            ent, ends = self._stmt(s, frames)
            if ent is None:
                continue
            if entry is None:
                entry = ent
            else:
                self._connect(frontier, ent)
            frontier = ends
            if not frontier:
                # the rest is unreachable
                break
        return entry, (frontier or [])

    def _stmt(self, s, frames):
        if isinstance(s, (ast.FunctionDef, ast.AsyncFunctionDef, ast.ClassDef, ast.Import, ast.ImportFrom,
                          ast.Global, ast.Nonlocal)):
            n = self._new('stmt', s)
            return n, [(n, '')]
        if isinstance(s, (ast.Assign, ast.AugAssign, ast.AnnAssign, ast.Expr, ast.Pass, ast.Delete, ast.Assert)):
            n = self._new('stmt', s)
            self._raises_from(n, frames)
            if isinstance(s, ast.Assert) and self.exceptions:
                self._jump('raise', [(n, 'exc:AssertionError')], frames, 'AssertionError')
            return n, [(n, '')]
        if isinstance(s, ast.Return):
            n = self._new('stmt', s)
            self._raises_from(n, frames)
            self._jump('return', [(n, '')], frames)
            return n, []
        if isinstance(s, ast.Raise):
            n = self._new('stmt', s)
            tok = raise_token(s)
            if tok == '<reraise>':
                for f in reversed(frames):
                    if f.type == 'handler':
                        tok = f.token
                        break
            self._jump('raise', [(n, 'exc:' + str(tok))], frames, tok)
            return n, []
        if isinstance(s, ast.Break):
            n = self._new('stmt', s)
            self._jump('break', [(n, '')], frames)
            return n, []
        if isinstance(s, ast.Continue):
            n = self._new('stmt', s)
            self._jump('continue', [(n, '')], frames)
            return n, []
        if isinstance(s, ast.If):
            n = self._new('test', s)
            self._raises_from(n, frames)
            ent, ends = self._block(s.body, frames)
            out = []
            if ent is None:
                out.append((n, 'true'))
            else:
                self._edge(n, ent, 'true')
                out.extend(ends)
            ent2, ends2 = self._block(s.orelse, frames)
            if ent2 is None:
                out.append((n, 'false'))
            else:
                self._edge(n, ent2, 'false')
                out.extend(ends2)
            return n, out
        if isinstance(s, (ast.For, ast.AsyncFor, ast.While)):
            kind = 'test' if isinstance(s, ast.While) else 'for'
            n = self._new(kind, s)
            self._raises_from(n, frames)
            lf = Frame('loop', s)
            lf.head = n
            ent, ends = self._block(s.body, frames + [lf])
            if ent is None:
                self._edge(n, n, 'true')
            else:
                self._edge(n, ent, 'true')
                self._connect(ends, n)
            out = []
            ent2, ends2 = self._block(s.orelse, frames)
            if ent2 is None:
                out.append((n, 'false'))
            else:
                self._edge(n, ent2, 'false')
                out.extend(ends2)
            out.extend(lf.break_frontier)
            return n, out
        if isinstance(s, (ast.With, ast.AsyncWith)):
            n = self._new('with_enter', s)
            self._raises_from(n, frames)
            wf = Frame('with', s)
            ent, ends = self._block(s.body, frames + [wf])
            x = self._new('with_exit', s, 'normal')
            self._raises_from(x, frames)
            if ent is None:
                self._edge(n, x, '')
            else:
                self._edge(n, ent, '')
                self._connect(ends, x)
            return n, [(x, '')]
        if isinstance(s, ast.Try):
            outer = frames
            if s.finalbody:
                ff = Frame('finally', s)
                outer = frames + [ff]
            tf = Frame('try', s)
            for h in s.handlers:
                tf.handler_entry[id(h)] = self._new('except', h)
            ent, ends = self._block(s.body, outer + [tf])
            out = []
            if s.orelse:
                e2, ends2 = self._block(s.orelse, outer)
                if e2 is not None:
                    if ent is None:
                        ent = e2
                    else:
                        self._connect(ends, e2)
                    ends = ends2
            out.extend(ends)
            for h in s.handlers:
                hn = tf.handler_entry[id(h)]
                hf = Frame('handler', h)
                names = self._handler_names(h)
                hf.token = names[0] if names[0] not in CATCH_ALL else OTHER
                he, hends = self._block(h.body, outer + [hf])
                if he is None:
                    out.append((hn, ''))
                else:
                    self._edge(hn, he, '')
                    out.extend(hends)
            if ent is None:
                # empty try body cannot happen syntactically
                raise AnalysisError('empty try body')
            if s.finalbody:
                fe, fends = self._block(s.finalbody, frames)
                if fe is not None:
                    self._connect(out, fe)
                    out = fends
            return ent, out
        raise AnalysisError(f'unsupported statement {type(s).__name__} at line {getattr(s, "lineno", "?")}')

    # ---- queries ----
    def nodes_of(self, a):
        return self.stmt_nodes.get(id(a), [])

    def reachable(self, start=None):
        start = self.entry if start is None else start
        seen = {start}
        st = [start]
        while st:
            x = st.pop()
            for y, _ in self.succ[x]:
                if y not in seen:
                    seen.add(y)
                    st.append(y)
        return seen

    def dominators(self, reverse=False, roots=None):
        """Iterative dominator sets. reverse=True gives post-dominators w.r.t. `roots` (default: all terminals)."""
        succ = self.succ if not reverse else self.pred
        pred = self.pred if not reverse else self.succ
        if roots is None:
            roots = [self.entry] if not reverse else [t for t in self.terms.values()]
        allids = set(range(len(self.nodes)))
        # only nodes reachable from the roots take part (unreachable handler bodies must not weaken dominance)
        live = set(roots)
        st = list(roots)
        while st:
            x = st.pop()
            for y, _ in succ[x]:
                if y not in live:
                    live.add(y)
                    st.append(y)
        dom = {i: set(allids) for i in allids}
        for r in roots:
            dom[r] = {r}
        changed = True
        order = list(range(len(self.nodes)))
        while changed:
            changed = False
            for i in order:
                if i in roots:
                    continue
                if i not in live:
                    continue
                ps = [p for p, _ in pred[i] if p in live]
                if not ps:
                    new = {i}
                else:
                    new = set.intersection(*[dom[p] for p in ps]) | {i}
                if new != dom[i]:
                    dom[i] = new
                    changed = True
        return dom

    def paths(self, start=None, max_paths=50000, state0=None, step=None, loop_visits=2, max_visits=1):
        """Enumerate paths start -> terminal. Each node is visited at most once, loop heads at most `loop_visits`
        times (body executed 0 or 1 times).  `step(state, node, label_out) -> new state | None` lets a rule track
        facts along the path and prune infeasible edges (return None)."""
        start = self.entry if start is None else start
        out = []
        count = [0]

        def limit(nid):
            n = self.nodes[nid]
            return loop_visits if n.kind in ('for',) or (n.kind == 'test' and isinstance(n.ast, ast.While)) else max_visits

        def rec(nid, path, visits, state):
            n = self.nodes[nid]
            if n.kind == 'term' and nid != self.entry:
                out.append((path + [(nid, '')], state))
                count[0] += 1
                if count[0] > max_paths:
                    raise AnalysisError(f'path budget exceeded ({max_paths})')
                return
            v = visits.get(nid, 0)
            if v >= limit(nid):
                return
            visits = dict(visits)
            visits[nid] = v + 1
            for m, label in self.succ[nid]:
                st = state
                if step is not None:
                    st = step(state, n, label)
                    if st is None:
                        continue
                rec(m, path + [(nid, label)], visits, st)

        rec(start, [], {}, state0)
        return out

    def fmt_path(self, path):
        parts = []
        for nid, label in path:
            n = self.nodes[nid]
            if nid == self.entry:
                continue
            parts.append(repr(n) + (f' --{label}-->' if label else ''))
        return ' ; '.join(parts)


# ---- three-valued evaluation of guards -------------------------------------------------------

class Unknown:
    def __repr__(self):
        return '?'


UNK = Unknown()


class _BoolFlag:
    def __repr__(self):
        return 'BOOLFLAG'


BOOLFLAG = _BoolFlag()     # a local holding a boolean the analysis does not know yet: reads like UNK until a test on the flag itself was taken on the path


class _FrozenDict(dict):
    """a constant dictionary value of eval3 (hashable so that it can sit in sets of outcomes)"""
    def __hash__(self):
        return hash(tuple(sorted(map(repr, self.items()))))


def eval3(e, env, atoms=None):
    """Evaluate expression `e` to a Python constant or UNK.  `env`: name -> constant/UNK; `atoms`: callable
    (expr) -> constant | UNK for rule-specific facts (e.g. 'rejectHandle is not None' -> True)."""
    if atoms is not None:
        v = atoms(e)
        if v is not UNK:
            return v
    if isinstance(e, ast.Constant):
        return e.value
    if isinstance(e, ast.Name):
        v = env.get(e.id, UNK)
        return UNK if v is BOOLFLAG else v
    if isinstance(e, ast.UnaryOp) and isinstance(e.op, ast.Not):
        v = eval3(e.operand, env, atoms)
        return UNK if v is UNK else (not v)
    if isinstance(e, (ast.Tuple, ast.List, ast.Set)) and not any(isinstance(x, ast.Starred) for x in e.elts):
        vals = [eval3(x, env, atoms) for x in e.elts]
        if any(v is UNK for v in vals):
            return UNK
        try:
            return tuple(vals) if not isinstance(e, ast.Set) else frozenset(vals)
        except TypeError:
            return UNK
    if isinstance(e, ast.Dict) and all(k is not None for k in e.keys):
        ks = [eval3(k, env, atoms) for k in e.keys]
        vs = [eval3(v, env, atoms) for v in e.values]
        if any(x is UNK for x in ks + vs):
            return UNK
        try:
            return _FrozenDict(zip(ks, vs))
        except TypeError:
            return UNK
    if isinstance(e, ast.Subscript) and not isinstance(e.slice, ast.Slice):
        c_ = eval3(e.value, env, atoms)
        i_ = eval3(e.slice, env, atoms) if c_ is not UNK else UNK
        if c_ is not UNK and i_ is not UNK and isinstance(c_, (tuple, str, _FrozenDict)):
            try:
                return c_[i_]
            except Exception:
                return UNK
        return UNK
    if isinstance(e, ast.Call) and isinstance(e.func, ast.Attribute) and e.func.attr == 'get' and 1 <= len(e.args) <= 2 and not e.keywords:
        c_ = eval3(e.func.value, env, atoms)
        if isinstance(c_, _FrozenDict):
            k_ = eval3(e.args[0], env, atoms)
            d_ = eval3(e.args[1], env, atoms) if len(e.args) == 2 else None
            if k_ is not UNK and (len(e.args) == 1 or d_ is not UNK):
                try:
                    return c_.get(k_, d_)
                except TypeError:
                    return UNK
        return UNK
    if isinstance(e, ast.Call) and isinstance(e.func, ast.Name) and e.func.id == 'bool' and len(e.args) == 1 and not e.keywords:
        v = eval3(e.args[0], env, atoms)
        try:
            return UNK if v is UNK else bool(v)
        except Exception:
            return UNK
    if isinstance(e, ast.BoolOp):
        vals = [eval3(v, env, atoms) for v in e.values]
        if isinstance(e.op, ast.And):
            if any(v is not UNK and not v for v in vals):
                return False
            if all(v is not UNK for v in vals):
                return vals[-1]
            return UNK
        else:
            if any(v is not UNK and v for v in vals):
                return True
            if all(v is not UNK for v in vals):
                return vals[-1]
            return UNK
    if isinstance(e, ast.Compare) and len(e.ops) == 1:
        l = eval3(e.left, env, atoms)
        r = eval3(e.comparators[0], env, atoms)
        if l is UNK or r is UNK:
            return UNK
        op = e.ops[0]
        try:
            if isinstance(op, ast.Is):
                return l is r
            if isinstance(op, ast.IsNot):
                return l is not r
            if isinstance(op, ast.Eq):
                return l == r
            if isinstance(op, ast.NotEq):
                return l != r
            if isinstance(op, ast.Lt):
                return l < r
            if isinstance(op, ast.LtE):
                return l <= r
            if isinstance(op, ast.Gt):
                return l > r
            if isinstance(op, ast.GtE):
                return l >= r
            if isinstance(op, ast.In) and isinstance(r, (tuple, frozenset, str)):
                return l in r
            if isinstance(op, ast.NotIn) and isinstance(r, (tuple, frozenset, str)):
                return l not in r
        except Exception:
            return UNK
    return UNK


def const_env_step(env, node):
    """Update a name -> constant environment over one CFG node (assignments of literals are tracked,
    everything else assigned becomes unknown)."""
    a = node.ast
    if a is None:
        return env
    targets = []
    val = None
    if node.kind == 'stmt':
        if isinstance(a, ast.Assign):
            targets = a.targets
            val = a.value
        elif isinstance(a, ast.AugAssign):
            targets = [a.target]
        elif isinstance(a, ast.AnnAssign) and a.value is not None:
            targets = [a.target]
            val = a.value
    elif node.kind == 'for':
        targets = [a.target]
    elif node.kind == 'with_enter':
        targets = [i.optional_vars for i in a.items if i.optional_vars is not None]
    elif node.kind == 'except' and a.name:
        env = dict(env)
        env[a.name] = UNK
        return env
    if not targets:
        return env
    env = dict(env)
    for t in targets:
        for n in ast.walk(t):
            if isinstance(n, ast.Name):
                if isinstance(t, ast.Name) and val is not None and isinstance(val, ast.Constant):
                    env[n.id] = val.value
                else:
                    env[n.id] = UNK
    return env
