"""Helpers shared by rule modules."""
import ast
from .index import walk_no_nested, dotted, src, dump
from .cfg import CFG


def own_expr(n):
    """The part of the AST a CFG node evaluates itself (not its nested blocks)."""
    a = n.ast
    if a is None:
        return None
    if n.kind == 'test':
        return a.test
    if n.kind == 'for':
        return a.iter
    if n.kind == 'with_enter':
        return ast.Tuple(elts=[i.context_expr for i in a.items], ctx=ast.Load())
    if n.kind in ('with_exit', 'except'):
        return None
    return a


def node_calls(n):
    e = own_expr(n)
    if e is None:
        return []
    return [c for c in walk_no_nested(e) if isinstance(c, ast.Call)]


def node_call_names(n):
    return [dotted(c.func) for c in node_calls(n)]


def last_name(d):
    return d.split('.')[-1] if d else d


def calls_named(tree, name):
    """All Call nodes under `tree` (nested defs excluded) whose callee's last dotted component is `name`."""
    out = []
    for c in walk_no_nested(tree):
        if isinstance(c, ast.Call):
            d = dotted(c.func)
            if d and last_name(d) == name:
                out.append(c)
    return out


def reach_from(cfg, starts):
    seen = set(starts)
    st = list(starts)
    while st:
        x = st.pop()
        for y, _ in cfg.succ[x]:
            if y not in seen:
                seen.add(y)
                st.append(y)
    return seen


def literal_prefix(e):
    """Leading literal text of a string expression (Constant / JoinedStr / 'a' + x), or None if it has none."""
    if isinstance(e, ast.Constant) and isinstance(e.value, str):
        return e.value
    if isinstance(e, ast.JoinedStr):
        out = ''
        for v in e.values:
            if isinstance(v, ast.Constant) and isinstance(v.value, str):
                out += v.value
            else:
                break
        return out
    if isinstance(e, ast.BinOp) and isinstance(e.op, ast.Add):
        return literal_prefix(e.left)
    return None


def arg(call, pos, name):
    """Positional-or-keyword argument of a call, or None."""
    if pos is not None and len(call.args) > pos and not any(isinstance(a, ast.Starred) for a in call.args[:pos + 1]):
        return call.args[pos]
    for k in call.keywords:
        if k.arg == name:
            return k.value
    return None


def stmt_of(mod, node):
    """Innermost statement containing `node`."""
    p = node
    while p is not None and not isinstance(p, ast.stmt):
        p = mod.parent.get(p)
    return p


def ancestors(mod, node):
    p = mod.parent.get(node)
    while p is not None:
        yield p
        p = mod.parent.get(p)


def func_cfg(ix, fdef, **kw):
    kw.setdefault('is_subclass', ix.is_subclass_name)
    return CFG(fdef.body, **kw)


def cfg_nodes_containing(cfg, node):
    """CFG node ids whose own expression contains AST node `node` (all finally/with copies)."""
    out = []
    for n in cfg.nodes:
        e = own_expr(n)
        if e is None:
            continue
        for x in walk_no_nested(e):
            if x is node:
                out.append(n.id)
                break
    return out


def literal_nonempty_iter(loop, fdef):
    """True when the loop provably iterates at least once: a non-empty literal, or a local bound once to one."""
    it = loop.iter
    while isinstance(it, ast.Call) and dotted(it.func) in ('enumerate', 'reversed', 'sorted', 'list', 'tuple') and it.args:
        it = it.args[0]
    if isinstance(it, (ast.List, ast.Tuple, ast.Set)):
        return len(it.elts) > 0 and not any(isinstance(e, ast.Starred) for e in it.elts)
    if isinstance(it, ast.Name):
        vals = []
        for n in walk_no_nested(fdef):
            if isinstance(n, ast.Assign) and any(isinstance(t, ast.Name) and t.id == it.id for t in n.targets):
                vals.append(n.value)
            elif isinstance(n, (ast.AugAssign, ast.AnnAssign)) and isinstance(n.target, ast.Name) and n.target.id == it.id:
                return False
        if len(vals) == 1 and isinstance(vals[0], (ast.List, ast.Tuple)):
            # no mutation through method calls
            for n in walk_no_nested(fdef):
                if isinstance(n, ast.Call) and isinstance(n.func, ast.Attribute) and isinstance(n.func.value, ast.Name) \
                        and n.func.value.id == it.id and n.func.attr in ('pop', 'remove', 'clear', 'append', 'extend', 'insert'):
                    return False
            return len(vals[0].elts) > 0
    return False


def skip_zero_iterations(fdef):
    """Path-enumeration step function that prunes the 'zero iterations' edge of provably non-empty loops."""
    cache = {}

    def step(state, node, label):
        state = state or frozenset()
        if node.kind == 'for':
            if id(node.ast) not in cache:
                cache[id(node.ast)] = literal_nonempty_iter(node.ast, fdef)
            if label == 'true':
                return state | {node.id}
            if label == 'false' and node.id not in state and cache[id(node.ast)]:
                return None
        return state
    return step
