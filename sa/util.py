"""Helpers shared by rule modules."""
import ast
from .index import walk_no_nested, dotted, src, dump, names_in
from .cfg import CFG


def own_expr(n):
    """The part of the AST a CFG node evaluates itself (not its nested blocks)."""
    a = n.ast
    if a is None:
        return None
    if n.kind == 'test':
        return a.test
    if n.kind == 'for':
        return a.iter
    if n.kind == 'with_enter':
        return ast.Tuple(elts=[i.context_expr for i in a.items], ctx=ast.Load())
    if n.kind in ('with_exit', 'except'):
        return None
    return a


def node_calls(n):
    e = own_expr(n)
    if e is None:
        return []
    return [c for c in walk_no_nested(e) if isinstance(c, ast.Call)]


def node_call_names(n):
    return [dotted(c.func) for c in node_calls(n)]


def last_name(d):
    return d.split('.')[-1] if d else d


def calls_named(tree, name):
    """All Call nodes under `tree` (nested defs excluded) whose callee's last dotted component is `name`."""
    out = []
    for c in walk_no_nested(tree):
        if isinstance(c, ast.Call):
            d = dotted(c.func)
            if d and last_name(d) == name:
                out.append(c)
    return out


def reach_from(cfg, starts):
    seen = set(starts)
    st = list(starts)
    while st:
        x = st.pop()
        for y, _ in cfg.succ[x]:
            if y not in seen:
                seen.add(y)
                st.append(y)
    return seen


def literal_prefix(e):
    """Leading literal text of a string expression (Constant / JoinedStr / 'a' + x), or None if it has none."""
    if isinstance(e, ast.Constant) and isinstance(e.value, str):
        return e.value
    if isinstance(e, ast.JoinedStr):
        out = ''
        for v in e.values:
            if isinstance(v, ast.Constant) and isinstance(v.value, str):
                out += v.value
            else:
                break
        return out
    if isinstance(e, ast.BinOp) and isinstance(e.op, ast.Add):
        return literal_prefix(e.left)
    return None


def arg(call, pos, name):
    """Positional-or-keyword argument of a call, or None."""
    if pos is not None and len(call.args) > pos and not any(isinstance(a, ast.Starred) for a in call.args[:pos + 1]):
        return call.args[pos]
    for k in call.keywords:
        if k.arg == name:
            return k.value
    return None


def stmt_of(mod, node):
    """Innermost statement containing `node`."""
    p = node
    while p is not None and not isinstance(p, ast.stmt):
        p = mod.parent.get(p)
    return p


def ancestors(mod, node):
    p = mod.parent.get(node)
    while p is not None:
        yield p
        p = mod.parent.get(p)


def func_cfg(ix, fdef, **kw):
    kw.setdefault('is_subclass', ix.is_subclass_name)
    return CFG(fdef.body, **kw)


def cfg_nodes_containing(cfg, node):
    """CFG node ids whose own expression contains AST node `node` (all finally/with copies)."""
    out = []
    for n in cfg.nodes:
        e = own_expr(n)
        if e is None:
            continue
        for x in walk_no_nested(e):
            if x is node:
                out.append(n.id)
                break
    return out


def literal_nonempty_iter(loop, fdef):
    """True when the loop provably iterates at least once: a non-empty literal, or a local bound once to one."""
    it = loop.iter
    while isinstance(it, ast.Call) and dotted(it.func) in ('enumerate', 'reversed', 'sorted', 'list', 'tuple') and it.args:
        it = it.args[0]
    if isinstance(it, (ast.List, ast.Tuple, ast.Set)):
        return len(it.elts) > 0 and not any(isinstance(e, ast.Starred) for e in it.elts)
    if isinstance(it, ast.Name):
        vals = []
        for n in walk_no_nested(fdef):
            if isinstance(n, ast.Assign) and any(isinstance(t, ast.Name) and t.id == it.id for t in n.targets):
                vals.append(n.value)
            elif isinstance(n, (ast.AugAssign, ast.AnnAssign)) and isinstance(n.target, ast.Name) and n.target.id == it.id:
                return False
        if len(vals) == 1 and isinstance(vals[0], (ast.List, ast.Tuple)):
            # no mutation through method calls
            for n in walk_no_nested(fdef):
                if isinstance(n, ast.Call) and isinstance(n.func, ast.Attribute) and isinstance(n.func.value, ast.Name) \
                        and n.func.value.id == it.id and n.func.attr in ('pop', 'remove', 'clear', 'append', 'extend', 'insert'):
                    return False
            return len(vals[0].elts) > 0
    return False


def skip_zero_iterations(fdef):
    """Path-enumeration step function that prunes the 'zero iterations' edge of provably non-empty loops."""
    cache = {}

    def step(state, node, label):
        state = state or frozenset()
        if node.kind == 'for':
            if id(node.ast) not in cache:
                cache[id(node.ast)] = literal_nonempty_iter(node.ast, fdef)
            if label == 'true':
                return state | {node.id}
            if label == 'false' and node.id not in state and cache[id(node.ast)]:
                return None
        return state
    return step


# ---- role-based identification of local variables (rules never depend on the spelling of a local name)
def assigned_names(fdef, pred):
    """names `n` with a simple assignment `n = <value>` in fdef (nested defs excluded) whose value satisfies pred(value)"""
    out = []
    for s in walk_no_nested(fdef):
        if isinstance(s, ast.Assign) and len(s.targets) == 1 and isinstance(s.targets[0], ast.Name) and pred(s.value):
            if s.targets[0].id not in out:
                out.append(s.targets[0].id)
    return out


def returned_names(fdef):
    """list (per return statement, in source order) of the tuple of returned element sources"""
    out = []
    for r in sorted((r for r in walk_no_nested(fdef) if isinstance(r, ast.Return) and r.value is not None), key=lambda r: r.lineno):
        v = r.value
        out.append(tuple(src(e) for e in v.elts) if isinstance(v, ast.Tuple) else (src(v),))
    return out


def is_call_to(e, *names):
    """e is a call whose callee's last dotted component is one of names"""
    return isinstance(e, ast.Call) and (last_name(dotted(e.func)) in names)


def loop_targets(node):
    """names bound by a For / comprehension target"""
    return [n.id for n in ast.walk(node) if isinstance(n, ast.Name)]


def enclosing_loops(fdef, node):
    """For statements (outermost first) of fdef whose body contains `node`"""
    out = []

    def rec(stmts, chain):
        for s in stmts:
            if s is node or any(x is node for x in ast.walk(s)):
                if isinstance(s, ast.For):
                    chain = chain + [s]
                for fld in ('body', 'orelse', 'finalbody', 'handlers'):
                    sub = getattr(s, fld, None)
                    if sub:
                        r = rec([h for h in sub] if fld != 'handlers' else [x for h in sub for x in h.body], chain)
                        if r is not None:
                            return r
                return chain
        return None
    return rec(fdef.body, []) or out


def rename_names(node, mapping):
    """copy of an AST with Name ids substituted (to compare code modulo the spelling of locals)"""
    import copy
    new = copy.deepcopy(node)
    for n in ast.walk(new):
        if isinstance(n, ast.Name) and n.id in mapping:
            n.id = mapping[n.id]
    return new


def src_canon(node, mapping):
    return src(rename_names(node, mapping))


def pred_is(test, spec, names, bools=(), consts=()):
    """True iff the comparison predicate `test` equals spec(env) on every assignment of small integers / booleans.
    names: {source text of a sub-expression: symbol}; symbols whose spec value is boolean are listed in `bools`.
    Independent of how the predicate is spelled (operand order, negation placement, and/or nesting)."""
    from .domains import check_pred
    from .index import AnalysisError
    num_syms = sorted({v for v in names.values() if v not in bools})
    try:
        n, bad = check_pred(test, spec, symbols=num_syms, atom_name=lambda x: names.get(src(x)), extra_bools=list(bools), extra_consts=consts)
    except AnalysisError:
        return False
    except Exception:
        return False
    return not bad


def eval_local(fdef, name, env, methods=None, stop_at=None):
    """Constant value of local `name` of fdef under the attribute/parameter environment `env` ({'self.x': v, 'param': v}), interpreting the
    statements of the function in order (assignments, if/else with foldable tests, try bodies); a value coming from a call of a method
    `self.m(...)` is obtained by interpreting that method (`methods`: name -> FunctionDef).  Returns TOP when not a constant.
    Independent of whether the value is written as conditional expression, if/else chain or a private helper."""
    from .consteval import Evaluator, Unfoldable, TOP, run_function
    methods = methods or {}

    def hook(ev, call, scope):
        if isinstance(call.func, ast.Attribute) and isinstance(call.func.value, ast.Name) and call.func.value.id == 'self' and call.func.attr in methods:
            m = methods[call.func.attr]
            args = [ev.ev(a, scope) for a in call.args]
            kwargs = {k.arg: ev.ev(k.value, scope) for k in call.keywords if k.arg}
            static = any(isinstance(d, ast.Name) and d.id == 'staticmethod' for d in m.decorator_list)
            return run_function(m, args if static else [None] + args, kwargs, env={k: v for k, v in env.items() if '.' in k})
        return NotImplemented
    ev = Evaluator({}, call_hook=hook)
    scope = dict(env)
    done = [False]

    def block(stmts):
        for s in stmts:
            if done[0]:
                return
            if stop_at is not None and any(x is stop_at for x in ast.walk(s)) and not isinstance(s, (ast.If, ast.Try, ast.With, ast.For, ast.While)):
                done[0] = True
                return
            if isinstance(s, ast.Assign) and len(s.targets) == 1 and isinstance(s.targets[0], ast.Name):
                try:
                    scope[s.targets[0].id] = ev.ev(s.value, scope)
                except Unfoldable:
                    scope[s.targets[0].id] = TOP
            elif isinstance(s, ast.If):
                try:
                    c = ev.ev(s.test, scope)
                except Unfoldable:
                    c = TOP
                if c is TOP:
                    touched = {n.id for x in s.body + s.orelse for n in ast.walk(x) if isinstance(n, ast.Name) and isinstance(n.ctx, ast.Store)}
                    for t in touched:
                        scope[t] = TOP
                else:
                    block(s.body if c else s.orelse)
            elif isinstance(s, ast.Try):
                block(s.body)
            elif isinstance(s, ast.With):
                block(s.body)
    block(fdef.body)
    v = scope.get(name, TOP)
    return v


# ---- reach conditions: the condition under which a statement executes, independent of how the guards are nested / merged / inverted
def _always_jumps(stmts):
    if not stmts:
        return False
    last = stmts[-1]
    if isinstance(last, (ast.Continue, ast.Break, ast.Return, ast.Raise)):
        return True
    if isinstance(last, ast.If):
        return _always_jumps(last.body) and _always_jumps(last.orelse)
    return False


def _jump_condition(stmts):
    """condition (expression AST) under which a block of plain statements and side-effect free if-chains jumps away (continue / break / return /
    raise); True / False when it always / never does; None when the block is too complex to say (loops, try, assignments before a nested jump
    that the tests might read)"""
    assigned = set()
    for k, s in enumerate(stmts):
        if isinstance(s, (ast.Continue, ast.Break, ast.Return, ast.Raise)):
            return True
        if isinstance(s, ast.If):
            if names_in(s.test) & assigned:
                return None
            b, o = _jump_condition(s.body), _jump_condition(s.orelse)
            rest = _jump_condition(stmts[k + 1:])
            if b is None or o is None or rest is None:
                return None
            if b is False and o is False:
                continue
            if rest is not False:
                return None         # a later jump combined with a partial one: not expressed
            parts = []
            if b is True:
                parts.append(s.test)
            elif b is not False:
                parts.append(ast.BoolOp(op=ast.And(), values=[s.test, b]))
            nt = ast.UnaryOp(op=ast.Not(), operand=s.test)
            if o is True:
                parts.append(nt)
            elif o is not False:
                parts.append(ast.BoolOp(op=ast.And(), values=[nt, o]))
            e = parts[0] if len(parts) == 1 else ast.BoolOp(op=ast.Or(), values=parts)
            return ast.fix_missing_locations(ast.copy_location(e, s))
        if isinstance(s, (ast.For, ast.While, ast.Try, ast.With)):
            if any(isinstance(x, (ast.Continue, ast.Break, ast.Return, ast.Raise)) for x in ast.walk(s)):
                return None
            continue
        if isinstance(s, (ast.Assign, ast.AugAssign)):
            assigned |= {n.id for n in ast.walk(s) if isinstance(n, ast.Name) and isinstance(n.ctx, ast.Store)}
    return False


def _contains(s, target):
    return s is target or any(x is target for x in ast.walk(s))


def _passed_guards(before):
    """(test, polarity) facts that hold once the statements `before` have all completed normally"""
    conds = []
    for p in before:
        if isinstance(p, ast.If):
            if _always_jumps(p.body) and not _always_jumps(p.orelse):
                conds.append((p.test, False))
            elif p.orelse and _always_jumps(p.orelse) and not _always_jumps(p.body):
                conds.append((p.test, True))
            else:
                # a guard nested one or more levels down (`if a: if b: continue`): the target is reached when NOT (a and b)
                jc = _jump_condition([p])
                if jc is not None and jc is not False and jc is not True:
                    conds.append((jc, False))
        elif isinstance(p, ast.Try) and p.handlers and all(_always_jumps(h.body) for h in p.handlers) and not p.finalbody:
            # every handler leaves: what follows the try statement runs only after its body (and else block) ran to the end
            conds.extend(_passed_guards(list(p.body) + list(p.orelse)))
    return conds


def reach_conds(stmts, target):
    """list of (test expr, polarity) that all hold when `target` (a statement or expression below `stmts`) executes, counted from the start of
    `stmts`: enclosing if-tests with their polarity, and the negations of preceding sibling guards whose body always jumps away
    (`if c: continue` ... target  ==>  not c).  None when target is not below stmts."""
    for i, s in enumerate(stmts):
        if not _contains(s, target):
            continue
        conds = _passed_guards(stmts[:i])
        if s is target:
            return conds
        if isinstance(s, ast.If):
            if _contains(s.test, target):
                return conds
            inb = any(_contains(x, target) for x in s.body)
            sub = reach_conds(s.body if inb else s.orelse, target)
            return conds + [(s.test, inb)] + (sub or [])
        for fld in ('body', 'orelse', 'finalbody'):
            blk = getattr(s, fld, None)
            if isinstance(blk, list) and any(_contains(x, target) for x in blk if isinstance(x, ast.AST)):
                return conds + (reach_conds(blk, target) or [])
        if isinstance(s, ast.Try):
            for h in s.handlers:
                if any(_contains(x, target) for x in h.body):
                    return conds + (reach_conds(h.body, target) or [])
        return conds
    return None


def reach_expr(stmts, target, drop=None):
    """the reach condition as one boolean expression (an ast node), True constant when unconditional; None if target not found.
    drop(test) -> True removes a guard that is irrelevant for the rule (e.g. an output-format switch)"""
    cs = reach_conds(stmts, target)
    if cs is None:
        return None
    if drop is not None:
        cs = [(t, pol) for t, pol in cs if not drop(t)]
    vals = [t if pol else ast.UnaryOp(op=ast.Not(), operand=t) for t, pol in cs]
    if not vals:
        return ast.Constant(value=True)
    if len(vals) == 1:
        return ast.fix_missing_locations(ast.copy_location(vals[0], cs[0][0])) if isinstance(vals[0], ast.UnaryOp) else vals[0]
    e = ast.BoolOp(op=ast.And(), values=vals)
    return ast.fix_missing_locations(ast.copy_location(e, cs[0][0]))


def mk_atoms(facts):
    """3-valued atom valuation from {source text: bool}: also answers the negated spellings (`a not in b` from `a in b`, `x is not None` from
    `x is None`, `x != c` from `x == c`) so that a rule states each fact once."""
    from .cfg import UNK
    NEGOP = {ast.NotIn: ast.In, ast.IsNot: ast.Is, ast.NotEq: ast.Eq}
    POSOP = {v: k for k, v in NEGOP.items()}

    def atoms(e):
        t = src(e)
        if t in facts:
            return facts[t]
        if isinstance(e, ast.Compare) and len(e.ops) == 1:
            for table in (NEGOP, POSOP):
                if type(e.ops[0]) in table:
                    alt = ast.Compare(left=e.left, ops=[table[type(e.ops[0])]()], comparators=e.comparators)
                    ta = src(alt)
                    if ta in facts:
                        return not facts[ta]
        return UNK
    return atoms


NONNULL = type('NonNull', (), {'__repr__': lambda self: '<not None>'})()


def _known_lookups(node, atoms):
    """3-valued membership facts for the item reads `X[k]` of a CFG node: [value of the atom `k in X`] for those the valuation knows"""
    from .cfg import UNK
    target = node.ast
    if node.kind == 'test':
        target = node.ast.test
    elif node.kind == 'for':
        target = node.ast.iter
    elif node.kind in ('with_enter', 'with_exit') or target is None:
        return []
    out = []
    for n in walk_no_nested(target):
        if isinstance(n, ast.Subscript) and isinstance(n.ctx, ast.Load) and not isinstance(n.slice, (ast.Slice, ast.Tuple)):
            v = atoms(ast.Compare(left=n.slice, ops=[ast.In()], comparators=[n.value]))
            if v is not UNK and v is not None:
                out.append(bool(v))
    return out


from .cfg import BOOLFLAG


def _is_boolean_expr(e):
    if isinstance(e, ast.Compare):
        return True
    if isinstance(e, ast.UnaryOp) and isinstance(e.op, ast.Not):
        return True
    if isinstance(e, ast.BoolOp):
        return all(_is_boolean_expr(v) for v in e.values)
    if isinstance(e, ast.Call) and isinstance(e.func, ast.Name) and e.func.id in ('bool', 'isinstance', 'any', 'all', 'callable', 'hasattr'):
        return True
    return False


def explore(stmts, atoms, names=(), upto=None, max_paths=20000, exceptions=False, env0=None, may_raise=None, is_subclass=None, nonnull=(ast.Tuple, ast.List, ast.Dict, ast.Set, ast.JoinedStr), mark=None,
            key_lookups=False):
    """Feasible control-flow paths of `stmts` under the 3-valued atom valuation `atoms(expr)` (branches whose test evaluates to a constant are
    pruned; constants assigned to plain locals on the path are tracked, so `flag = True ... if flag:` is followed).  Returns one dict per
    path: kind ('return'/'raise'/'fall'/'continue'/'break' or 'upto'), stmt (the terminating Return/Raise statement or None),
    calls (source of every call evaluated, in order), stores ((target, value, kind) of every attribute / item assignment, in order), env (name -> last assigned value expression for `names`, or all plain locals when
    names is None), consts (name -> constant value known at the end of the path; `env0` gives initial constants, e.g. one concrete value per
    symbol of a small finite domain), path (for messages)."""
    from .cfg import CFG, eval3, UNK
    kw = {}
    if may_raise is not None:
        kw['may_raise'] = may_raise
    if is_subclass is not None:
        kw['is_subclass'] = is_subclass
    if key_lookups:
        # an item read `X[k]` whose membership atom `k in X` the valuation decides raises KeyError exactly when the atom is false: the only
        # exception edges of the graph, followed / pruned by that value (`try: return X[k] except KeyError: pass` reads like `if k in X: return X[k]`)
        class _N:
            def __init__(self, kind, a):
                self.kind, self.ast = kind, a
        kw['may_raise'] = lambda kind, a: {'KeyError'} if _known_lookups(_N(kind, a), atoms) else set()
        kw.setdefault('is_subclass', lambda a_, b_: a_ == b_ or (a_ == 'KeyError' and b_ in ('LookupError', 'Exception', 'BaseException')))
    cfg = CFG(stmts, exceptions=exceptions or may_raise is not None or key_lookups, **kw)
    stop_ids = set(cfg_nodes_containing(cfg, upto)) if upto is not None else set()
    res = []

    def step(state, node, label):
        cenv, env, calls, last, stores = state
        if key_lookups:
            kl = _known_lookups(node, atoms)
            if kl:
                if label == 'exc:KeyError' and all(kl):
                    return None         # every lookup of the statement is known to succeed
                if not label.startswith('exc:') and not all(kl):
                    return None         # a lookup of the statement is known to fail: the statement does not complete
        if label.startswith('exc:'):
            if node.kind == 'stmt' and isinstance(node.ast, ast.Raise):
                return (cenv, env, calls, node.ast, stores)         # an explicit raise is the terminating statement of the path
            return state
        if node.kind == 'test' and label in ('true', 'false') and isinstance(node.ast, (ast.If, ast.While)):
            v = eval3(node.ast.test, cenv, atoms)
            if v is not UNK and bool(v) != (label == 'true'):
                return None
            # a boolean flag (a local last assigned a comparison / negation / boolean constant on this path) that is tested by itself: the branch taken fixes its
            # value until it is re-assigned - `if not use_pysam: ..; if use_pysam: ..` has two feasible paths, not four
            t_ = node.ast.test
            neg = False
            while isinstance(t_, ast.UnaryOp) and isinstance(t_.op, ast.Not):
                t_, neg = t_.operand, not neg
            if v is UNK and isinstance(t_, ast.Name) and cenv.get(t_.id) is BOOLFLAG:
                cenv = dict(cenv)
                cenv[t_.id] = (label == 'true') != neg
        if node.id in stop_ids:
            res.append({'kind': 'upto', 'stmt': None, 'calls': calls, 'env': env, 'path': None, 'stores': stores, 'consts': cenv})
            return None
        cs = tuple(src(c) for c in sorted(node_calls(node), key=lambda c: (c.lineno, c.col_offset))) if label in ('', 'next', 'true', 'false', 'body', 'exit', 'loop', 'iter') or True else ()
        if node.kind == 'test' and label == 'false':
            pass
        calls = calls + cs
        if node.kind == 'stmt' and isinstance(node.ast, ast.Assign) and len(node.ast.targets) == 1 and isinstance(node.ast.targets[0], ast.Name):
            nm = node.ast.targets[0].id
            val = node.ast.value
            cenv = dict(cenv)
            cenv[nm] = val.value if isinstance(val, ast.Constant) else eval3(val, cenv, atoms)
            if cenv[nm] is UNK and _is_boolean_expr(val):
                cenv[nm] = BOOLFLAG
            if cenv[nm] is UNK and (isinstance(val, nonnull) or (isinstance(val, ast.Call) and isinstance(val.func, ast.Name) and val.func.id in
                                                               ('int', 'len', 'float', 'str', 'abs', 'min', 'max', 'sum', 'list', 'tuple', 'dict', 'set', 'sorted', 'bool', 'round'))):
                cenv[nm] = NONNULL        # a display / subscript of a table of tuples / result of a value-building builtin is not None
            if names is None or nm in names:
                env = dict(env)
                env[nm] = val
        elif node.kind == 'stmt' and isinstance(node.ast, (ast.AugAssign,)) and isinstance(node.ast.target, ast.Name):
            cenv = dict(cenv)
            cenv[node.ast.target.id] = UNK
        elif node.kind == 'stmt' and isinstance(node.ast, ast.Assign):
            cenv = dict(cenv)
            for t in node.ast.targets:
                for n in ast.walk(t):
                    if isinstance(n, ast.Name) and isinstance(n.ctx, ast.Store):
                        cenv[n.id] = UNK
        elif node.kind == 'for':
            cenv = dict(cenv)
            for n in ast.walk(node.ast.target):
                if isinstance(n, ast.Name):
                    cenv[n.id] = UNK
        if node.kind == 'stmt' and isinstance(node.ast, (ast.Assign, ast.AugAssign)):
            for t in (node.ast.targets if isinstance(node.ast, ast.Assign) else [node.ast.target]):
                if isinstance(t, (ast.Subscript, ast.Attribute)):
                    stores = stores + ((src(t), src(node.ast.value), type(node.ast).__name__),)
        if mark is not None and node.ast is not None:
            lab_ = mark(node)
            if lab_ is not None:
                stores = stores + (('<mark>', str(lab_), 'Mark'),)
        if node.kind == 'stmt' and isinstance(node.ast, ast.Expr) and isinstance(node.ast.value, (ast.Yield, ast.YieldFrom)):
            stores = stores + (('<yield>', src(node.ast.value.value) if node.ast.value.value is not None else 'None', type(node.ast.value).__name__),)
        if node.kind == 'stmt' and isinstance(node.ast, (ast.Return, ast.Raise)):
            last = node.ast
        return (cenv, env, calls, last, stores)
    for p, (cenv, env, calls, last, stores) in cfg.paths(state0=(dict(env0 or {}), {}, (), None, ()), step=step, max_paths=max_paths):
        kind = cfg.nodes[p[-1][0]].info
        if upto is None:
            rv = UNK
            if kind == 'return' and isinstance(last, ast.Return) and last.value is not None:
                rv = eval3(last.value, {k_: v_ for k_, v_ in cenv.items() if v_ is not NONNULL}, atoms)
            res.append({'kind': kind, 'stmt': last if kind in ('return', 'raise') else None, 'calls': calls, 'env': env, 'path': cfg.fmt_path(p), 'stores': stores, 'consts': cenv,
                        'retval': rv})
    return res


def final_assignments(stmts, atoms, names, upto=None, max_paths=5000):
    """(terminal kind, {name: last assigned value expression}) per feasible path - see explore()"""
    return [(r['kind'], r['env']) for r in explore(stmts, atoms, names=names, upto=upto, max_paths=max_paths)]


def _subst_names(e, sub):
    import copy

    class T(ast.NodeTransformer):
        def visit_Name(self, n):
            if n.id in sub and isinstance(n.ctx, ast.Load):
                return copy.deepcopy(sub[n.id])
            return n
    return T().visit(copy.deepcopy(e))


def outcomes_by_case(stmts, cases, atom, facts=None, on_node=None, truthy=None):
    """Abstract interpretation of a small decision procedure: for every abstract case (dict of symbol -> int/bool) the feasible paths of
    `stmts` are followed with each test evaluated on the case (comparison predicates over the named atoms, via domains.eval_pred) or,
    failing that, on `facts` ({source: bool}) / constants assigned on the path.  Yields (case, outcomes) where outcomes is a set of
    ('return', value) / ('raise', None) / (terminal kind, None); value is the boolean / constant the return expression evaluates to on the case,
    or its source text when it is not a predicate over the atoms.  on_node(node) -> label lets a rule record that a statement was passed:
    the labels are added as ('passed', label) outcomes of the path."""
    from .cfg import CFG, eval3, UNK
    from .domains import eval_pred
    cfg = CFG(stmts, exceptions=False)
    base = mk_atoms(facts or {})
    for case in cases:
        def ev(e, cenv):
            consts = {k: v_ for k, v_ in cenv.items() if not isinstance(v_, ast.AST)}
            sub = {k: v_ for k, v_ in cenv.items() if isinstance(v_, ast.AST)}
            # locals assigned a non-constant expression on this path are replaced by that expression (a verdict computed into a temporary
            # and tested later is followed)
            e2 = e
            for _ in range(4):
                if not sub or not (names_in(e2) & set(sub)):
                    break
                e2 = _subst_names(e2, sub)

            def rec(x):
                """3-valued: facts / constants first, then the comparison predicates over the abstract case; and / or / not combine"""
                v = eval3(x, consts, base)
                if v is not UNK:
                    return v
                if isinstance(x, ast.BoolOp):
                    vals = [rec(v_) for v_ in x.values]
                    if isinstance(x.op, ast.And):
                        if any(v_ is not UNK and not v_ for v_ in vals):
                            return False
                        return UNK if any(v_ is UNK for v_ in vals) else vals[-1]
                    if any(v_ is not UNK and v_ for v_ in vals):
                        return True
                    return UNK if any(v_ is UNK for v_ in vals) else vals[-1]
                if isinstance(x, ast.UnaryOp) and isinstance(x.op, ast.Not):
                    v = rec(x.operand)
                    return UNK if v is UNK else (not v)
                if truthy is not None and not isinstance(x, (ast.Compare, ast.BoolOp)):
                    # a value in a truthiness position (`if not ranked:`): the rule says what its truth value is on the case
                    tv = truthy(x, case)
                    if tv is not UNK and tv is not None:
                        return bool(tv)
                try:
                    return eval_pred(x, case, atom)
                except Exception:
                    return UNK
            return rec(e2)

        def step(state, node, label, case=case):
            cenv, last, passed = state
            if node.kind == 'test' and label in ('true', 'false') and isinstance(node.ast, (ast.If, ast.While)):
                v = ev(node.ast.test, cenv)
                if v is not UNK and bool(v) != (label == 'true'):
                    return None
            if on_node is not None:
                lab = on_node(node)
                if lab is not None:
                    passed = passed | {lab}
            if node.kind == 'stmt' and isinstance(node.ast, ast.Assign):
                cenv = dict(cenv)
                for t in node.ast.targets:
                    if isinstance(t, ast.Name):
                        val = node.ast.value
                        cenv[t.id] = val.value if isinstance(val, ast.Constant) else (val if t.id not in names_in(val) else UNK)
                    else:
                        for n in ast.walk(t):
                            if isinstance(n, ast.Name) and isinstance(n.ctx, ast.Store):
                                cenv[n.id] = UNK
            if node.kind == 'stmt' and isinstance(node.ast, (ast.Return, ast.Raise)):
                last = (node.ast, cenv)
            return (cenv, last, passed)
        outs = set()
        for p, (cenv, last, passed) in cfg.paths(state0=({}, None, frozenset()), step=step):
            kind = cfg.nodes[p[-1][0]].info
            if kind == 'return' and last is not None and isinstance(last[0], ast.Return):
                rv = last[0].value
                if rv is None:
                    val = None
                else:
                    val = ev(rv, last[1])
                    if val is UNK or isinstance(val, (tuple, frozenset)):
                        val = src(rv)          # displays are reported by their source text
                outs.add(('return', val))
            else:
                outs.add((kind, None))
            for lab in passed:
                outs.add(('passed', lab))
        yield case, outs


def truthiness_uses(fdef, is_value_source):
    """Places where a value obtained from `is_value_source(call)` (directly, or through a local assigned from such a call) is used as a truth
    value: the test of an if / while / conditional expression, an operand of and / or / not.  A tag value of 0 or '' is falsy, so such a test
    silently treats legitimate values as missing.  Returns [(node, description)]."""
    valnames = set()
    for s in walk_no_nested(fdef):
        if isinstance(s, ast.Assign) and len(s.targets) == 1 and isinstance(s.targets[0], ast.Name) and isinstance(s.value, ast.Call) and is_value_source(s.value):
            valnames.add(s.targets[0].id)

    def is_val(e):
        return (isinstance(e, ast.Name) and e.id in valnames) or (isinstance(e, ast.Call) and is_value_source(e))
    out = []

    def boolctx(e, where):
        if is_val(e):
            out.append((e, f'`{src(e)[:50]}` is used as a truth value in {where}'))
        elif isinstance(e, ast.UnaryOp) and isinstance(e.op, ast.Not):
            boolctx(e.operand, where)
        elif isinstance(e, ast.BoolOp):
            for v in e.values:
                boolctx(v, where)
    for n in walk_no_nested(fdef):
        if isinstance(n, (ast.If, ast.While)):
            boolctx(n.test, 'an if / while test')
        elif isinstance(n, ast.IfExp):
            boolctx(n.test, 'a conditional expression')
        elif isinstance(n, ast.BoolOp):
            # `value or default`
            for v in n.values[:-1]:
                if is_val(v):
                    out.append((v, f'`{src(n)[:60]}` falls back when the value is falsy'))
        elif isinstance(n, ast.comprehension):
            for t in n.ifs:
                boolctx(t, 'a comprehension filter')
    seen = set()
    res = []
    for n, d in out:
        if id(n) not in seen:
            seen.add(id(n))
            res.append((n, d))
    return res


def interval_of_name_at(stmts, var, target, value_bounds):
    """Path-sensitive interval analysis (integers, constants only): the set of (lo, hi) intervals the local `var` can have when the AST node
    `target` (inside `stmts`) is evaluated; lo / hi are ints or None (unbounded).  Assignments `var = E` take value_bounds(E) -> (lo, hi);
    comparisons of `var` with an expression whose value_bounds are a single constant refine the interval on the branch taken
    (x < c, c < x, x <= c, c <= x, ==).  Everything else leaves the interval unchanged.  Returns a sorted list of distinct intervals
    (one per feasible path class)."""
    from .cfg import CFG
    import inspect
    two_args = len(inspect.signature(value_bounds).parameters) >= 2
    cfg = CFG(stmts, exceptions=False)
    stop = set(cfg_nodes_containing(cfg, target))
    found = set()
    INF = None

    def refine(iv, test, taken):
        lo, hi = iv
        if isinstance(test, ast.BoolOp) and isinstance(test.op, ast.And) and taken:
            for v in test.values:
                lo, hi = refine((lo, hi), v, True)
            return (lo, hi)
        if isinstance(test, ast.BoolOp) and isinstance(test.op, ast.Or) and not taken:
            for v in test.values:
                lo, hi = refine((lo, hi), v, False)
            return (lo, hi)
        if isinstance(test, ast.UnaryOp) and isinstance(test.op, ast.Not):
            return refine(iv, test.operand, not taken)
        if not (isinstance(test, ast.Compare) and len(test.ops) == 1):
            return iv
        l, r, op = test.left, test.comparators[0], test.ops[0]
        if isinstance(l, ast.Name) and l.id == var:
            c = value_bounds(r)
            side = 'left'
        elif isinstance(r, ast.Name) and r.id == var:
            c = value_bounds(l)
            side = 'right'
        else:
            return iv
        if c[0] is None or c[0] != c[1]:
            return iv
        c = c[0]
        # normalise to  var OP c
        kind = type(op)
        if side == 'right':
            kind = {ast.Lt: ast.Gt, ast.LtE: ast.GtE, ast.Gt: ast.Lt, ast.GtE: ast.LtE}.get(kind, kind)
        if not taken:
            kind = {ast.Lt: ast.GtE, ast.LtE: ast.Gt, ast.Gt: ast.LtE, ast.GtE: ast.Lt, ast.Eq: ast.NotEq, ast.NotEq: ast.Eq}.get(kind, kind)
        mx = lambda a, b: b if a is None else a if b is None else max(a, b)
        mn = lambda a, b: b if a is None else a if b is None else min(a, b)
        if kind is ast.Lt:
            hi = mn(hi, c - 1)
        elif kind is ast.LtE:
            hi = mn(hi, c)
        elif kind is ast.Gt:
            lo = mx(lo, c + 1)
        elif kind is ast.GtE:
            lo = mx(lo, c)
        elif kind is ast.Eq:
            lo, hi = mx(lo, c), mn(hi, c)
        elif kind is ast.NotEq:
            # excluding a boundary value of an integer interval moves the boundary
            if lo is not None and lo == c:
                lo = c + 1
            if hi is not None and hi == c:
                hi = c - 1
        return (lo, hi)

    def step(state, node, label):
        iv = state
        if node.id in stop:
            found.add(iv)
            return None
        if node.kind == 'test' and label in ('true', 'false') and isinstance(node.ast, (ast.If, ast.While)):
            iv = refine(iv, node.ast.test, label == 'true')
            if iv[0] is not None and iv[1] is not None and iv[0] > iv[1]:
                return None        # infeasible branch
        if node.kind == 'stmt' and isinstance(node.ast, ast.Assign) and any(isinstance(t, ast.Name) and t.id == var for t in node.ast.targets):
            # value_bounds may take the interval the variable has before the assignment (`x = max(x, 1)`)
            iv = tuple(value_bounds(node.ast.value, iv)) if two_args else tuple(value_bounds(node.ast.value))
        elif node.kind == 'stmt' and isinstance(node.ast, ast.AugAssign) and isinstance(node.ast.target, ast.Name) and node.ast.target.id == var:
            iv = (INF, INF)
        return iv
    cfg.paths(state0=(INF, INF), step=step, max_paths=20000)
    return sorted(found, key=str)


def dict_emission(fdef):
    """The per-item emission of a function that builds one dictionary from one iteration, written either as a dict comprehension or as
    `d = {}; for T in IT: <guards>; d[K] = V`.  Returns dict(key, value, conds (list of condition expressions that all hold when the item
    is emitted), iter, target, node) or None."""
    def conjuncts(t):
        if isinstance(t, ast.BoolOp) and isinstance(t.op, ast.And):
            return [x for v in t.values for x in conjuncts(v)]
        return [t]
    comps = [c for c in walk_no_nested(fdef) if isinstance(c, ast.DictComp)]
    if len(comps) == 1 and len(comps[0].generators) == 1:
        c = comps[0]
        conds = []
        for t in c.generators[0].ifs:
            conds.extend(conjuncts(t))
        return {'key': c.key, 'value': c.value, 'conds': conds, 'iter': c.generators[0].iter, 'target': c.generators[0].target, 'node': c}
    for l in walk_no_nested(fdef):
        if not isinstance(l, ast.For):
            continue
        stores = [s for s in walk_no_nested(l) if isinstance(s, ast.Assign) and len(s.targets) == 1 and isinstance(s.targets[0], ast.Subscript) and isinstance(s.targets[0].value, ast.Name)]
        if len(stores) != 1:
            continue
        s = stores[0]
        conds = []
        for t, pol in (reach_conds(l.body, s) or []):
            e = t if pol else ast.fix_missing_locations(ast.copy_location(ast.UnaryOp(op=ast.Not(), operand=t), t))
            if not pol:
                from .normalize import push_not
                e = ast.fix_missing_locations(ast.copy_location(push_not(t), t))
            conds.extend(conjuncts(e))
        return {'key': s.targets[0].slice, 'value': s.value, 'conds': conds, 'iter': l.iter, 'target': l.target, 'node': s}
    return None


def resolve_global(ix, relpath, name, _depth=0):
    """(relpath, node) of the module-level definition (function / class / assignment) that `name` refers to in module `relpath`,
    following `from <package module> import name [as alias]` chains inside the repository; None when not found."""
    import os
    if _depth > 4:
        return None
    try:
        m = ix.module(relpath)
    except Exception:
        return None
    for st in m.tree.body:
        if isinstance(st, (ast.FunctionDef, ast.AsyncFunctionDef, ast.ClassDef)) and st.name == name:
            return relpath, st
        if isinstance(st, ast.Assign) and any(isinstance(t, ast.Name) and t.id == name for t in st.targets):
            return relpath, st
    for st in m.tree.body:
        if isinstance(st, ast.ImportFrom):
            for al in st.names:
                if (al.asname or al.name) != name:
                    continue
                if st.level:
                    base = os.path.dirname(relpath)
                    for _ in range(st.level - 1):
                        base = os.path.dirname(base)
                    modpath = os.path.join(base, *(st.module.split('.') if st.module else []))
                else:
                    modpath = (st.module or '').replace('.', '/')
                for rp in (modpath + '.py', modpath + '/__init__.py'):
                    if ix.exists(rp):
                        r = resolve_global(ix, rp, al.name, _depth + 1)
                        if r:
                            return r
    return None


def string_transform_chain(ix, relpath, fdef, expr, _depth=0):
    """Decomposes a string-valued expression into (source expression, [operations applied to it, innermost first]) where operations are
    'upper', 'lower', 'reverse' (`[::-1]`) and ('translate', folded table or None).  Local single-assignment names and repository
    helper functions whose body is `return <chain over their first parameter>` are looked through."""
    from .consteval import fold, TOP
    ops = []
    e = expr
    for _ in range(20):
        if isinstance(e, ast.Call) and isinstance(e.func, ast.Attribute) and e.func.attr in ('upper', 'lower') and not e.args:
            ops.append(e.func.attr)
            e = e.func.value
        elif isinstance(e, ast.Call) and isinstance(e.func, ast.Attribute) and e.func.attr == 'translate' and len(e.args) == 1:
            tab = None
            t = e.args[0]
            if isinstance(t, ast.Name):
                r = resolve_global(ix, relpath, t.id)
                if r and isinstance(r[1], ast.Assign):
                    v = fold(r[1].value)
                    tab = v if isinstance(v, dict) else None
            ops.append(('translate', tab))
            e = e.func.value
        elif isinstance(e, ast.Subscript) and isinstance(e.slice, ast.Slice) and e.slice.lower is None and e.slice.upper is None and src(e.slice.step) == '-1':
            ops.append('reverse')
            e = e.value
        elif isinstance(e, ast.Name) and fdef is not None:
            ds = [s for s in walk_no_nested(fdef) if isinstance(s, ast.Assign) and len(s.targets) == 1 and isinstance(s.targets[0], ast.Name) and s.targets[0].id == e.id and s.lineno < getattr(e, 'lineno', 10**9)]
            if len(ds) != 1:
                break
            e = ds[0].value
        elif isinstance(e, ast.Call) and isinstance(e.func, ast.Name) and len(e.args) == 1 and not e.keywords and _depth < 3:
            r = resolve_global(ix, relpath, e.func.id)
            if not r or not isinstance(r[1], ast.FunctionDef) or len(r[1].args.args) != 1:
                break
            body = [s for s in r[1].body]
            if len(body) != 1 or not isinstance(body[0], ast.Return) or body[0].value is None:
                break
            inner_src, inner_ops = string_transform_chain(ix, r[0], None, body[0].value, _depth + 1)
            if not (isinstance(inner_src, ast.Name) and inner_src.id == r[1].args.args[0].arg):
                break
            # ops are outermost first while descending; the helper's ops apply after the argument's
            ops.extend(inner_ops_outer_first(inner_ops))
            e = e.args[0]
        else:
            break
    return e, list(reversed(ops))


def inner_ops_outer_first(inner_first):
    return list(reversed(inner_first))


def unevaluated_returns(outs):
    """outcomes of a decision procedure whose returned value could not be evaluated on the abstract case (it is reported by its source text):
    the procedure is then not decided - never "differs from the specification" """
    return [v for k, v in outs if k == 'return' and isinstance(v, str)]


ONE_SHOT_BUILTINS = {'zip', 'map', 'filter', 'iter', 'reversed', 'enumerate'}
CONSUMERS = {'list', 'tuple', 'set', 'frozenset', 'dict', 'sorted', 'sum', 'min', 'max', 'any', 'all', 'Counter', 'join', 'fromiter', 'array', 'extend', 'update',
             'zip', 'map', 'filter', 'enumerate', 'chain', 'from_iterable'}


def one_shot_reuse(fdef, generator_functions=()):
    """Single-pass iterators consumed more than once.  A local bound exactly once to a generator expression, to zip / map / filter / iter /
    reversed / enumerate / an itertools call, or to a call of a known generator function is exhausted by its first full consumption; a second
    consumption (another loop, ''.join, list, sorted, ...) that can follow the first in the same activation, or a single consumption inside a
    loop that does not contain the binding, silently sees nothing.  Locals that are advanced by hand (`next(x)`) or handed to unknown
    functions are left alone.  Returns [(name, binding statement, first site, second site or enclosing loop, text)]."""
    params = {a.arg for a in fdef.args.args + fdef.args.kwonlyargs + fdef.args.posonlyargs} | {x.arg for x in (fdef.args.vararg, fdef.args.kwarg) if x}
    parent = {}
    for p_ in ast.walk(fdef):
        for c_ in ast.iter_child_nodes(p_):
            parent[c_] = p_
    binds = {}
    for a in walk_no_nested(fdef):
        if isinstance(a, (ast.Assign, ast.AugAssign, ast.AnnAssign, ast.For, ast.With, ast.NamedExpr)) or isinstance(a, ast.comprehension):
            tgts = a.targets if isinstance(a, ast.Assign) else [a.target] if hasattr(a, 'target') else [i.optional_vars for i in a.items if i.optional_vars is not None] if isinstance(a, ast.With) else []
            for t in tgts:
                for n in ast.walk(t):
                    if isinstance(n, ast.Name):
                        binds.setdefault(n.id, []).append(a)

    def one_shot(v):
        if isinstance(v, ast.GeneratorExp):
            return 'a generator expression'
        if isinstance(v, ast.Call):
            d = dotted(v.func) or ''
            ln = d.split('.')[-1]
            if d in ONE_SHOT_BUILTINS:
                return f'{d}(..)'
            if d.startswith('itertools.') and ln not in ('tee',):
                return f'{d}(..)'
            if ln in generator_functions and (d == ln or d == 'self.' + ln):
                return f'the generator {ln}(..)'
        return None
    out = []
    # a local that is re-bound on one arm to a single-pass iterator (`xs = f(..)` ... `if c: xs = (x for x in xs if ..)`) and then consumed inside a later loop that
    # contains none of its bindings: on that arm every iteration after the first sees nothing
    for name, bs in binds.items():
        if len(bs) < 2 or name in params or not all(isinstance(b, ast.Assign) and len(b.targets) == 1 and isinstance(b.targets[0], ast.Name) for b in bs):
            continue
        for b in bs:
            kind = one_shot(b.value)
            if kind is None:
                continue

            def loops_of(n):
                ls = []
                while n in parent:
                    par = parent[n]
                    if isinstance(par, (ast.For, ast.While)) and not (isinstance(par, ast.For) and par.iter is n):
                        ls.append(par)
                    n = par
                return ls
            if loops_of(b):
                continue
            uses = [n for n in walk_no_nested(fdef) if isinstance(n, ast.Name) and n.id == name and isinstance(n.ctx, ast.Load) and n.lineno > b.lineno and not any(n is y for y in ast.walk(b))]
            later_binds = [x for x in bs if x is not b and x.lineno > b.lineno]
            for u in uses:
                p_ = parent.get(u)
                consuming = (isinstance(p_, ast.For) and p_.iter is u) or (isinstance(p_, ast.comprehension) and p_.iter is u) or isinstance(p_, ast.YieldFrom)
                if not consuming:
                    continue
                encl = loops_of(p_) if isinstance(p_, ast.For) else loops_of(u)
                encl = [l for l in encl if l is not p_]
                if encl and not any(any(x is lb for x in ast.walk(l)) for l in encl for lb in bs) and not any(lb.lineno < u.lineno for lb in later_binds):
                    out.append((name, b, p_, encl[-1], f'`{name}` is re-bound to {kind} at line {int(b.lineno)} and consumed inside the loop at line {int(encl[-1].lineno)}, which does not '
                                f're-create it: from the second iteration on it is exhausted and yields nothing'))
                    break
    for name, bs in binds.items():
        if len(bs) != 1 or name in params or not isinstance(bs[0], ast.Assign) or len(bs[0].targets) != 1 or not isinstance(bs[0].targets[0], ast.Name):
            continue
        kind = one_shot(bs[0].value)
        if kind is None:
            continue
        uses = [n for n in walk_no_nested(fdef) if isinstance(n, ast.Name) and n.id == name and isinstance(n.ctx, ast.Load)]
        sites, skip = [], False
        for u in uses:
            p_ = parent.get(u)
            if isinstance(p_, ast.Starred):
                p_ = parent.get(p_)
            if isinstance(p_, ast.For) and p_.iter is u:
                sites.append((u, p_))
            elif isinstance(p_, ast.comprehension) and p_.iter is u:
                sites.append((u, p_))
            elif isinstance(p_, ast.YieldFrom):
                sites.append((u, p_))
            elif isinstance(p_, ast.Call):
                ln = (dotted(p_.func) or '').split('.')[-1] if not (isinstance(p_.func, ast.Attribute) and p_.func.attr == 'join') else 'join'
                if ln == 'next':
                    skip = True
                elif ln in CONSUMERS and u is not p_.func:
                    sites.append((u, p_))
                else:
                    skip = True         # escapes into code not analysed here
            elif isinstance(p_, (ast.Return, ast.Yield)):
                skip = True             # handed to the caller: consumed there
            else:
                skip = True
        if skip or not sites:
            continue

        def chain(n):
            c = []
            while n in parent:
                par = parent[n]
                if isinstance(par, ast.If):
                    c.append((id(par), 'body' if any(n is x for x in par.body) else 'orelse' if any(n is x for x in par.orelse) else 'test'))
                elif isinstance(par, ast.Try):
                    c.append((id(par), 'handler' if isinstance(n, ast.ExceptHandler) else 'body'))
                n = par
            return c

        def loops_around(n):
            ls = []
            while n in parent:
                par = parent[n]
                if isinstance(par, (ast.For, ast.While)) and not (isinstance(par, ast.For) and par.iter is n) and not any(n is x for x in par.orelse):
                    ls.append(par)
                n = par
            return ls
        bind_loops = {id(l) for l in loops_around(bs[0])}
        done = False
        for u, s in sites:
            extra = [l for l in loops_around(u) if id(l) not in bind_loops]
            if extra:
                out.append((name, bs[0], s, extra[-1], f'`{name}` is {kind} created once (line {int(bs[0].lineno)}) but consumed inside the loop at line {int(extra[-1].lineno)}: '
                            f'from the second iteration on it is exhausted and yields nothing'))
                done = True
                break
        if done:
            continue
        for i in range(len(sites)):
            for j in range(i + 1, len(sites)):
                ci, cj = dict(chain(sites[i][0])), dict(chain(sites[j][0]))
                if any(k in cj and cj[k] != v and 'test' not in (v, cj[k]) for k, v in ci.items()):
                    continue        # different arms of one if / try

                def leaves_before(a, b):
                    # a sits in an if-arm that does not contain b and that ends in return / raise: b cannot run after a in the same activation
                    n_ = a
                    while n_ in parent:
                        par = parent[n_]
                        if isinstance(par, ast.If):
                            for arm in (par.body, par.orelse):
                                if any(n_ is x for x in arm) and not any(b is y for x in arm for y in ast.walk(x)) and arm and isinstance(arm[-1], (ast.Return, ast.Raise)):
                                    return True
                        n_ = par
                    return False
                first, second = (sites[i][0], sites[j][0]) if (sites[i][0].lineno, sites[i][0].col_offset) <= (sites[j][0].lineno, sites[j][0].col_offset) else (sites[j][0], sites[i][0])
                if leaves_before(first, second):
                    continue
                out.append((name, bs[0], sites[i][1], sites[j][1], f'`{name}` is {kind}: it is consumed at line {int(sites[i][0].lineno)} and again at line {int(sites[j][0].lineno)} - '
                            f'the second consumer sees an exhausted iterator (nothing)'))
                done = True
                break
            if done:
                break
    return out


def call_kwargs(fdef, call):
    """keyword arguments of a call as {name: value expression}, looking through `**local` where the local is bound once to a dictionary display /
    dict(...) call with literal keys (a call whose options were collected in a dict first)"""
    out = {}
    for k in call.keywords:
        if k.arg is not None:
            out[k.arg] = k.value
            continue
        v = k.value
        if isinstance(v, ast.Name):
            dd = [a.value for a in walk_no_nested(fdef) if isinstance(a, ast.Assign) and len(a.targets) == 1 and src(a.targets[0]) == v.id]
            if len(dd) == 1:
                v = dd[0]
        if isinstance(v, ast.Dict):
            for kk, vv in zip(v.keys, v.values):
                if isinstance(kk, ast.Constant) and isinstance(kk.value, str):
                    out[kk.value] = vv
        elif isinstance(v, ast.Call) and dotted(v.func) == 'dict' and not v.args:
            for kk in v.keywords:
                if kk.arg is not None:
                    out[kk.arg] = kk.value
    return out
