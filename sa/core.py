"""Obligations, rule registry, evidence writer, known-findings protocol and exit codes."""
import ast
import hashlib
import json
import os
import time

from .index import RepoIndex, AnalysisError, AnchorVanished

VERIF = os.path.dirname(os.path.dirname(os.path.abspath(__file__)))

DISCHARGED, VIOLATED, UNDECIDED, INFO = 'discharged', 'violated', 'undecided', 'info'


class Obligation:
    def __init__(self, rule, status, site, construct, detail, witness=None, nontrivial=True, what=None):
        self.rule = rule
        self.status = status
        self.site = site              # 'file:line qualname' (for humans; never used as a key)
        self.construct = construct    # line-independent key
        self.detail = detail
        self.witness = witness
        self.nontrivial = nontrivial
        self.what = what or detail    # short text used in KNOWN-FINDING lines

    def as_dict(self):
        d = {'rule': self.rule, 'status': self.status, 'site': self.site, 'construct': self.construct,
             'detail': self.detail}
        if self.witness is not None:
            d['witness'] = self.witness
        return d


class _Counters(dict):
    def __missing__(self, k):
        return 0


class Ctx:
    """What a rule sees: the index, the tier, and helpers to emit obligations."""

    def __init__(self, ix, prop, tier='quick'):
        self.ix = ix
        self.prop = prop
        self.tier = tier
        self.obligations = []
        self.counters = _Counters({'functions_analysed': set(), 'paths_enumerated': 0, 'abstract_cases': 0,
                                   'calls_resolved': 0, 'calls_unresolved': 0})
        self.exhaustive = {}
        self.notes = []
        self.rule_errors = []      # (rule id, message) of rules that could not be evaluated

    def fn(self, relpath, qualname):
        self.counters['functions_analysed'].add(f'{relpath}:{qualname}')
        return self.ix.func(relpath, qualname)

    def emit(self, rule, ok, relpath, node, detail, witness=None, nontrivial=True, what=None, key=None,
             undecided=False):
        status = UNDECIDED if undecided else (DISCHARGED if ok else VIOLATED)
        site = self.ix.site(relpath, node) if node is not None else relpath
        if key is not None:
            q = self.ix.module(relpath).enclosing_qualname(node) if node is not None else ''
            construct = f'{relpath}:{q}:{rule}:{key}'
        else:
            construct = self.ix.construct(relpath, node, rule) if node is not None else f'{relpath}::{rule}'
        o = Obligation(rule, status, site, construct, detail, witness, nontrivial, what)
        self.obligations.append(o)
        return o

    def ok(self, rule, relpath, node, detail, **kw):
        return self.emit(rule, True, relpath, node, detail, **kw)

    def bad(self, rule, relpath, node, detail, **kw):
        return self.emit(rule, False, relpath, node, detail, **kw)

    def info(self, text):
        self.notes.append(text)

    def need(self, rule, n_found, floor, what):
        """Instance floor: a rule that matches fewer instances than were confirmed by hand is broken, not passing."""
        if n_found < floor:
            raise AnalysisError(f'{rule}: found {n_found} instance(s) of "{what}", expected at least {floor} '
                                f'(anchor moved or idiom not recognised)')


# ---- registry --------------------------------------------------------------------------------

RULES = {}     # prop -> list of (rule id, fn, text, tier)


def rule(prop, rid, text, tier='quick'):
    def deco(fn):
        RULES.setdefault(prop, []).append((rid, fn, text, tier))
        return fn
    return deco


def run_rules(prop, ix, tier='quick', only=None):
    ctx = Ctx(ix, prop, tier)
    for rid, fn, text, rtier in RULES.get(prop, []):
        if rtier == 'thorough' and tier != 'thorough':
            continue
        if only and rid not in only:
            continue
        before = len(ctx.obligations)
        try:
            fn(ctx)
        except AnalysisError as e:
            # a rule that cannot be evaluated (anchor moved, idiom not recognised) does not hide what the other rules decide: the error is
            # kept and turns the run into exit 2 only when no rule reports a new violation (see run.check)
            ctx.rule_errors.append((rid, str(e)))
            continue
        if len(ctx.obligations) == before:
            ctx.rule_errors.append((rid, f'{rid} produced no obligation (vacuous rule)'))
    return ctx


# ---- known findings -------------------------------------------------------------------------

def load_known():
    p = os.path.join(VERIF, 'known_findings.json')
    if not os.path.exists(p):
        return []
    with open(p) as h:
        return json.load(h)


def match_known(known, prop, o):
    for k in known:
        if k.get('status') == 'open' and k.get('property') == prop and k.get('rule') == o.rule \
                and k.get('construct') == o.construct:
            return k
    return None


# ---- evidence -------------------------------------------------------------------------------

def write_evidence(prop, tier, seed, ctx, wall, violations, known_hits, extra=None, error=None):
    os.makedirs(os.path.join(VERIF, 'evidence'), exist_ok=True)
    obs = ctx.obligations if ctx else []
    rules = [(rid, text) for rid, fn, text, rt in RULES.get(prop, []) if rt != 'thorough' or tier == 'thorough']
    distinct = len({o.construct for o in obs if o.nontrivial and o.status in (DISCHARGED, VIOLATED)})
    samples = []
    seen_rules = set()
    for o in obs:
        if o.rule not in seen_rules:
            seen_rules.add(o.rule)
            samples.append(o.as_dict())
    for o in obs:
        if o.status != DISCHARGED and o.as_dict() not in samples:
            samples.append(o.as_dict())
    cov = {
        'explanation': (f'Static analysis (ast + CFG/def-use + small abstract domains) of /repo\'s working tree; '
                        f'{len(obs)} obligations generated by {len(rules)} rules for {prop}. '
                        'Decides the structural clauses named in MANIFEST level_claimed.text, not the runtime behaviour.'),
        'rule': ('one obligation per rule instance (call site, path, abstract case, table row) found in the current '
                 'sources; an obligation is non-trivial when it required evaluating an abstract domain / path set '
                 '(not a mere presence test); distinct = distinct construct keys'),
        'evaluations': max(len(obs), 1),
        'distinct_nontrivial': distinct,
        'obligations': len(obs),
        'discharged': sum(1 for o in obs if o.status == DISCHARGED),
        'violated': sum(1 for o in obs if o.status == VIOLATED),
        'undecided': sum(1 for o in obs if o.status == UNDECIDED),
        'known_findings': known_hits,
        'rules': [{'id': r, 'text': t} for r, t in rules],
        'per_rule': {},
        'files': [{'path': p, 'sha256': h} for p, h in sorted((ctx.ix.consulted if ctx else {}).items())],
        'functions_analysed': sorted(ctx.counters['functions_analysed']) if ctx else [],
        'paths_enumerated': ctx.counters['paths_enumerated'] if ctx else 0,
        'abstract_cases_enumerated': ctx.counters['abstract_cases'] if ctx else 0,
        'call_sites': {'resolved': ctx.counters['calls_resolved'] if ctx else 0,
                       'unresolved': ctx.counters['calls_unresolved'] if ctx else 0},
        'exhaustive_per_rule': ctx.exhaustive if ctx else {},
        'exhaustive': False,
        'notes': (ctx.notes + [f'rule {r_} could not be evaluated: {m_}' for r_, m_ in ctx.rule_errors]) if ctx else [],
        'samples': samples[:40],
        'checker_cmd': f'/venv/bin/python -m sa.run {prop} --tier {tier}',
        'trusted_base': ['CPython ast parser', 'sa/ engine (CFG builder, abstract domains)',
                         'slot tables in sa/rules (sinks, sentinels, success messages) confirmed by reading'],
    }
    for o in obs:
        d = cov['per_rule'].setdefault(o.rule, {'obligations': 0, 'discharged': 0, 'violated': 0, 'undecided': 0})
        d['obligations'] += 1
        d[o.status] = d.get(o.status, 0) + 1
    if extra:
        cov.update(extra)
    if error:
        cov['analysis_error'] = error
    ev = {
        'property_id': prop, 'tier': tier, 'seed': seed, 'level': 'other', 'coverage': cov,
        'assumptions': [
            'the analysed sources are the ones that run (no monkey patching, no generated code)',
            'unresolved calls are treated conservatively (may raise, may not be relied on for an effect)',
            'third-party libraries (pysam, numpy, pandas, gzip) behave as documented',
        ],
        'wall_s': round(wall, 3), 'violations': violations,
    }
    path = os.path.join(VERIF, 'evidence', f'{prop}.json')
    tmp = path + '.tmp'
    with open(tmp, 'w') as h:
        json.dump(ev, h, indent=1, default=str)
    os.replace(tmp, path)
    return path


def include(ctx, module, fns, to_rule):
    """run rules of another property inside this one (shared necessary conditions): obligations are re-labelled `to_rule`, keeping the
    original rule id in the construct key and the detail text"""
    sub = Ctx(ctx.ix, module.__name__.split('.')[-1], ctx.tier)
    errors = []
    for fn in fns:
        try:
            fn(sub)
        except AnalysisError as e_:      # what the other shared rules decide is still included
            errors.append(e_)
    for o in sub.obligations:
        if not o.rule.startswith(to_rule.split('-')[0]):
            o.construct = o.construct.replace(o.rule, to_rule + ':' + o.rule)
            o.detail = f'[{o.rule}] ' + o.detail
            o.rule = to_rule
        ctx.obligations.append(o)
    for k, v in sub.counters.items():
        if isinstance(v, set):
            ctx.counters[k] = ctx.counters.get(k, set()) | v
        else:
            ctx.counters[k] = ctx.counters.get(k, 0) + v
    ctx.notes.extend(getattr(sub, 'notes', []))
    if errors:
        raise errors[0]
    return sub
