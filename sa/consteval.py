"""D5 CONST - constant propagation / partial evaluation over the AST.

Folds expressions and straight-line constructor bodies whose operands are compile-time constants (ints, strings, None,
bools, tuples / lists / dicts / sets, slices) using a whitelisted set of pure builtins and string methods.  Anything else is
`TOP` (unknown) - the instance is then reported as undecided by the rule, never guessed.

This is used to resolve *tables and layout constants* written in the source (strategy constructor arguments, the TAPS
context table, codec tables); it is not used to run repository functions on input data.
"""
import ast
import os
import sys
import collections
import itertools
import re
import string as _string

from .index import src, dotted


class Top:
    def __repr__(self):
        return 'TOP'


TOP = Top()


class Unfoldable(Exception):
    def __init__(self, *a):
        super().__init__(*a)
        if os.environ.get('SA_DEBUG'):
            print('Unfoldable:', *a, file=sys.stderr)


STD_CONSTS = {
    'string.ascii_letters': _string.ascii_letters, 'string.ascii_lowercase': _string.ascii_lowercase,
    'string.ascii_uppercase': _string.ascii_uppercase, 'string.digits': _string.digits,
    'errno.EMFILE': 24, 'errno.ENFILE': 23, 'errno.ENOENT': 2, 'errno.EACCES': 13,
    'math.inf': float('inf'), 'math.pi': 3.141592653589793, 're.UNICODE': re.UNICODE, 're.IGNORECASE': re.IGNORECASE, 're.I': re.I, 're.U': re.U,
}
PURE_FUNCS = {
    'len': len, 'min': min, 'max': max, 'ord': ord, 'chr': chr, 'str': str, 'int': int, 'abs': abs, 'sum': sum, 'any': any, 'all': all,
    'range': range, 'enumerate': enumerate, 'zip': zip, 'sorted': sorted, 'list': list, 'tuple': tuple, 'dict': dict, 'set': set,
    'reversed': reversed, 'slice': slice, 'bool': bool, 'float': float, 'frozenset': frozenset, 'iter': iter, 'object': object,
    'itertools.product': itertools.product, 'product': itertools.product, 'str.maketrans': str.maketrans,
    'itertools.combinations': itertools.combinations, 'combinations': itertools.combinations, 'itertools.permutations': itertools.permutations,
    'itertools.chain': itertools.chain, 'chain': itertools.chain, 'itertools.count': itertools.count, 'count': itertools.count, 'itertools.combinations_with_replacement': itertools.combinations_with_replacement,
    'divmod': divmod, 'round': round, 'isinstance': None, 'next': None,
    're.compile': re.compile, 're.split': re.split, 're.sub': re.sub, 're.escape': re.escape,
    'collections.defaultdict': collections.defaultdict, 'defaultdict': collections.defaultdict, 'collections.Counter': collections.Counter, 'Counter': collections.Counter,
}
def _searchsorted(a, v, side='left', sorter=None):
    import bisect
    try:
        import numpy
        if isinstance(a, numpy.ndarray) or isinstance(v, numpy.ndarray):
            return numpy.searchsorted(a, v, side=side)
    except ImportError:
        pass
    a = list(a)
    one = (lambda x: bisect.bisect_left(a, x)) if side == 'left' else (lambda x: bisect.bisect_right(a, x))
    if isinstance(v, (list, tuple)):
        return [one(x) for x in v]          # array of insertion points for an array of values
    return one(v)


def _windowed(seq, n, fillvalue=None, step=1):
    seq = list(seq)
    if len(seq) < n:
        return [tuple(seq + [fillvalue] * (n - len(seq)))] if seq else []
    return [tuple(seq[i:i + n]) for i in range(0, len(seq) - n + 1, step)]


def _consecutive_groups(iterable, ordering=None):
    out = []
    for v in iterable:
        k = v if ordering is None else ordering(v)
        if out and k == out[-1][1] + 1:
            out[-1][0].append(v)
            out[-1][1] = k
        else:
            out.append([[v], k])
    return [g for g, _ in out]


PURE_FUNCS.update({'consecutive_groups': _consecutive_groups, 'more_itertools.consecutive_groups': _consecutive_groups})


def _groupby(iterable, key=None):
    return [(k, list(g)) for k, g in itertools.groupby(list(iterable), key)]      # runs of CONSECUTIVE equal keys, groups materialised


import math as _math
PURE_FUNCS.update({'np.floor': _math.floor, 'numpy.floor': _math.floor, 'math.floor': _math.floor, 'np.ceil': _math.ceil, 'numpy.ceil': _math.ceil, 'math.ceil': _math.ceil})
try:
    import numpy as _np
    PURE_FUNCS.update({f'{m_}.{n_}': getattr(_np, n_) for m_ in ('np', 'numpy') for n_ in ('zeros', 'ones', 'empty', 'vstack', 'hstack', 'argmax', 'argmin', 'arange', 'array', 'asarray', 'sort', 'argsort',
                                                                                            'flatnonzero', 'nonzero', 'where', 'sum', 'max', 'min', 'fromiter', 'clip', 'searchsorted', 'resize', 'tile', 'repeat', 'full', 'zeros_like', 'ones_like', 'isin', 'diff', 'abs', 'prod', 'power', 'log10', 'rint', 'any', 'all', 'amax', 'amin', 'cumsum', 'unique', 'stack', 'concatenate',
                                                                                            'count_nonzero', 'take_along_axis', 'expand_dims', 'partition', 'equal', 'logical_and', 'logical_not', 'logical_or')})
    STD_CONSTS.update({'np.uint8': _np.uint8, 'np.uint16': _np.uint16, 'np.uint32': _np.uint32, 'np.int8': _np.int8, 'np.int16': _np.int16, 'np.float32': _np.float32, 'np.float16': _np.float16, 'np.uint64': _np.uint64, 'np.int32': _np.int32, 'np.newaxis': None, 'numpy.newaxis': None, 'np.int64': _np.int64, 'np.float64': _np.float64, 'np.nan': float('nan'), 'np.inf': float('inf')})
    NDARRAY = _np.ndarray
except Exception:          # pragma: no cover
    _np = None
    NDARRAY = ()
import functools as _functools
PURE_FUNCS.update({'functools.reduce': _functools.reduce, 'reduce': _functools.reduce, 'collections.namedtuple': collections.namedtuple, 'namedtuple': collections.namedtuple})
import operator as _operator
import heapq as _heapq
PURE_FUNCS.update({'heapq.heappush': _heapq.heappush, 'heapq.heappop': _heapq.heappop, 'heapq.heapify': _heapq.heapify, 'heappush': _heapq.heappush, 'heappop': _heapq.heappop,
                   'heapq.heappushpop': _heapq.heappushpop, 'heapq.heapreplace': _heapq.heapreplace})      # on lists the interpreter owns
PURE_FUNCS.update({'heapq.nsmallest': _heapq.nsmallest, 'heapq.nlargest': _heapq.nlargest, 'nsmallest': _heapq.nsmallest, 'nlargest': _heapq.nlargest})
PURE_FUNCS.update({'itertools.groupby': _groupby, 'groupby': _groupby, 'operator.itemgetter': _operator.itemgetter, 'itemgetter': _operator.itemgetter})
PURE_FUNCS.update({'windowed': _windowed, 'more_itertools.windowed': _windowed, 'np.searchsorted': _searchsorted, 'numpy.searchsorted': _searchsorted})
PURE_FUNCS = {k: v for k, v in PURE_FUNCS.items() if v is not None}


class Raised(Unfoldable):
    """an exception the interpreted code raises (by a raise statement, a failing unpacking / conversion / lookup): caught by the interpreted
    try statements; for constant folding it is just another reason why an expression has no value"""
    def __init__(self, name, msg='', errno=24):
        super().__init__(f'{name}: {msg}')
        self.name = name
        self.errno = errno


EXC_BASES = {'KeyError': ('LookupError',), 'IndexError': ('LookupError',), 'ValueError': (), 'TypeError': (), 'AssertionError': (), 'AttributeError': (), 'ZeroDivisionError': ('ArithmeticError',),
             'StopIteration': (), 'UnicodeDecodeError': ('ValueError',)}


def _exc_matches(name, handler_type, is_subclass=None):
    if handler_type is None:
        return True
    names = [dotted(t) or '?' for t in (handler_type.elts if isinstance(handler_type, ast.Tuple) else [handler_type])]
    for h in names:
        h = h.split('.')[-1]
        if h in ('BaseException', 'Exception') or h == name or h in EXC_BASES.get(name, ()):
            return True
        if is_subclass is not None and is_subclass(name, h):
            return True
    return False


class Closure(ast.Lambda):
    """a lambda together with the scope it was written in"""
    _fields = ast.Lambda._fields


class ExternalRef:
    """a function of the outside world held in a variable (`opener = gzip.open`): calls go to the rule's call hook under that name"""
    def __init__(self, name):
        self.name = name


class LocalClass:
    """a class of the analysed code whose instances the interpreter builds itself (small value objects / helper classes): `scope` is what its methods see as
    globals, `bases` the LocalClass objects of its base classes"""
    def __init__(self, cdef, scope, bases=()):
        self.cdef, self.scope, self.bases = cdef, scope, tuple(bases)
        self.consts = {}
        self.memo = {}          # method name -> {key: value} for methods under functools.lru_cache / cache (one cache per function, shared by all instances)

    def method(self, name):
        for st in self.cdef.body:
            if isinstance(st, ast.FunctionDef) and st.name == name:
                return st, self
        for b in self.bases:
            r = b.method(name)
            if r is not None:
                return r
        return None

    def class_attr(self, name, ev):
        for st in self.cdef.body:
            if isinstance(st, ast.Assign) and any(isinstance(t, ast.Name) and t.id == name for t in st.targets):
                return True, ev.ev(st.value, dict(self.scope))
        for b in self.bases:
            ok, v = b.class_attr(name, ev)
            if ok:
                return ok, v
        return False, None


class _NoClass:
    cdef = ast.ClassDef(name='record', bases=[], keywords=[], body=[], decorator_list=[])
    scope, bases = {}, ()

    def method(self, name):
        return None

    def class_attr(self, name, ev):
        return False, None


class Instance:
    def __init__(self, cls=None, attrs=None):
        self.cls, self.attrs = cls or _NoClass(), dict(attrs or {})

    def __repr__(self):
        return f'<{self.cls.cdef.name} {self.attrs}>'


class LocalFn:
    """a function defined inside an interpreted function (closure over the defining scope)"""
    def __init__(self, fdef, scope, bound=None):
        self.fdef, self.scope, self.bound = fdef, scope, bound

    def __call__(self, *args, **kwargs):
        # as a default factory / key function handed to a real container
        return run_function(self.fdef, ([self.bound] if self.bound is not None else []) + list(args), kwargs, env=self.scope, budget=20000)
PURE_METHODS = {
    str: {'join', 'upper', 'lower', 'index', 'find', 'rfind', 'rindex', 'count', 'startswith', 'endswith', 'replace', 'strip', 'rstrip', 'lstrip', 'split', 'rsplit', 'partition', 'rpartition', 'splitlines',
          'translate', 'format', 'zfill', 'isdigit', 'isalpha', 'isalnum', 'isupper', 'islower', 'title', 'capitalize', 'removeprefix', 'removesuffix', 'encode', 'ljust', 'rjust', 'center', 'swapcase', 'casefold'},
    collections.Counter: {'most_common', 'elements', 'total'},
    bytes: {'strip', 'split', 'decode', 'startswith', 'endswith', 'rstrip', 'lstrip', 'replace'},
    dict: {'get', 'keys', 'values', 'items', 'copy'},
    list: {'index', 'count', 'copy'},
    tuple: {'index', 'count'},
    set: {'union', 'intersection', 'difference', 'copy'},
    frozenset: {'union', 'intersection', 'difference'},
    re.Pattern: {'split', 'sub', 'findall', 'match', 'search', 'fullmatch'},
}


class Evaluator:
    def __init__(self, env=None, budget=200000, call_hook=None):
        self.env = env if env is not None else {}
        self.budget = budget
        self.call_hook = call_hook     # callable(evaluator, call node) -> value | NotImplemented

    def tick(self):
        self.budget -= 1
        if self.budget < 0:
            raise Unfoldable('budget')

    def ev(self, e, env=None):
        env = self.env if env is None else env
        self.tick()
        if isinstance(e, ast.Constant):
            return e.value
        if isinstance(e, ast.Name):
            if e.id in env:
                v = env[e.id]
                if v is TOP:
                    raise Unfoldable(f'{e.id} unknown')
                return v
            if e.id in ('None', 'True', 'False'):
                return {'None': None, 'True': True, 'False': False}[e.id]
            if e.id in ('list', 'dict', 'set', 'int', 'str', 'tuple', 'float', 'object', 'bool', 'bytes', 'frozenset', 'type'):
                return {'list': list, 'dict': dict, 'set': set, 'int': int, 'str': str, 'tuple': tuple, 'float': float, 'object': object, 'bool': bool, 'bytes': bytes, 'frozenset': frozenset, 'type': type}[e.id]
            raise Unfoldable(f'name {e.id}')
        if isinstance(e, ast.Attribute):
            d = dotted(e)
            if d in STD_CONSTS:
                return STD_CONSTS[d]
            if d and d.startswith('pysam.') and d not in env and d.split('.')[0] not in env:
                return ExternalRef(d)          # a class of the alignment library, only ever compared with (type(x) == pysam...)
            if isinstance(e.value, ast.Name) and isinstance(env.get(e.value.id), Instance):
                inst = env[e.value.id]
                if e.attr in inst.attrs:
                    return inst.attrs[e.attr]
                m = inst.cls.method(e.attr)
                if m is not None:
                    return LocalFn(m[0], dict(m[1].scope), bound=inst)
                ok, v = inst.cls.class_attr(e.attr, self)
                if ok:
                    return v
                raise Raised('AttributeError', e.attr)
            if d and d in env:
                v = env[d]
                if v is TOP:
                    raise Unfoldable(d)
                return v
            # unbound read-only string methods used as values (`str.startswith` in a dispatch table)
            if d in ('str.startswith', 'str.endswith', 'str.upper', 'str.lower', 'str.strip', 'str.isdigit', 'str.__contains__', 'str.__eq__'):
                return getattr(str, e.attr)
            # attributes of values the interpreter holds: bound read-only methods of containers (as key functions), fields of a caught exception
            try:
                base = self.ev(e.value, env)
            except Unfoldable:
                raise Unfoldable(f'attribute {src(e)}')
            if isinstance(base, Instance):
                if e.attr in base.attrs:
                    return base.attrs[e.attr]
                m = base.cls.method(e.attr)
                if m is not None:
                    return LocalFn(m[0], dict(m[1].scope), bound=base)
                ok, v = base.cls.class_attr(e.attr, self)
                if ok:
                    return v
                raise Raised('AttributeError', e.attr)
            if isinstance(base, dict) and e.attr in ('get', '__getitem__', 'keys', 'values', 'items'):
                return getattr(base, e.attr)
            if isinstance(base, dict) and e.attr in base and all(isinstance(k_, str) and k_.isidentifier() for k_ in base):
                return base[e.attr]            # a record the canonicalisation (N39) turned into a dictionary, read through a parameter of unknown type
            if NDARRAY and isinstance(base, NDARRAY) and e.attr in ('shape', 'size', 'ndim', 'T', 'dtype'):
                return getattr(base, e.attr)
            if isinstance(base, tuple) and hasattr(base, '_fields') and (e.attr in base._fields or e.attr in ('_replace', '_asdict', '_fields')):
                return getattr(base, e.attr)
            if isinstance(base, Raised):
                return {'errno': base.errno, 'args': (), 'strerror': 'modelled failure'}.get(e.attr, None)
            raise Unfoldable(f'attribute {src(e)}')
        if isinstance(e, ast.Tuple):
            return tuple(self.ev(x, env) for x in e.elts)
        if isinstance(e, ast.List):
            return [self.ev(x, env) for x in e.elts]
        if isinstance(e, ast.Set):
            return {self.ev(x, env) for x in e.elts}
        if isinstance(e, ast.Dict):
            out = {}
            for k, v in zip(e.keys, e.values):
                if k is None:
                    out.update(self.ev(v, env))
                else:
                    out[self.ev(k, env)] = self.ev(v, env)
            return out
        if isinstance(e, ast.UnaryOp):
            v = self.ev(e.operand, env)
            if isinstance(e.op, ast.Not):
                return not v
            if isinstance(e.op, ast.USub):
                return -v
            if isinstance(e.op, ast.UAdd):
                return +v
        if isinstance(e, ast.BinOp):
            l, r = self.ev(e.left, env), self.ev(e.right, env)
            ops = {ast.Add: lambda a, b: a + b, ast.Sub: lambda a, b: a - b, ast.Mult: lambda a, b: a * b, ast.FloorDiv: lambda a, b: a // b,
                   ast.Mod: lambda a, b: a % b, ast.Div: lambda a, b: a / b, ast.BitOr: lambda a, b: a | b, ast.BitAnd: lambda a, b: a & b}
            if type(e.op) in ops:
                try:
                    return ops[type(e.op)](l, r)
                except Exception as ex:
                    raise Raised(type(ex).__name__, str(ex))
        if isinstance(e, ast.BoolOp):
            if isinstance(e.op, ast.And):
                v = True
                for x in e.values:
                    v = self.ev(x, env)
                    if not v:
                        return v
                return v
            v = False
            for x in e.values:
                v = self.ev(x, env)
                if v:
                    return v
            return v
        if isinstance(e, ast.Compare):
            l = self.ev(e.left, env)
            for op, c in zip(e.ops, e.comparators):
                r = self.ev(c, env)
                try:
                    ok = {ast.Eq: lambda: l == r, ast.NotEq: lambda: l != r, ast.Lt: lambda: l < r, ast.LtE: lambda: l <= r, ast.Gt: lambda: l > r,
                          ast.GtE: lambda: l >= r, ast.Is: lambda: l is r, ast.IsNot: lambda: l is not r, ast.In: lambda: l in r, ast.NotIn: lambda: l not in r}[type(op)]()
                except Exception as ex:
                    raise Unfoldable(str(ex))
                if NDARRAY and isinstance(ok, NDARRAY):
                    if len(e.ops) == 1:
                        return ok               # elementwise comparison of arrays
                    raise Unfoldable('chained comparison of arrays')
                if not ok:
                    return False
                l = r
            return True
        if isinstance(e, ast.IfExp):
            return self.ev(e.body, env) if self.ev(e.test, env) else self.ev(e.orelse, env)
        if isinstance(e, ast.Subscript):
            v = self.ev(e.value, env)
            if isinstance(e.slice, ast.Slice):
                s = slice(*(None if x is None else self.ev(x, env) for x in (e.slice.lower, e.slice.upper, e.slice.step)))
                return v[s]
            try:
                return v[self.ev(e.slice, env)]
            except Exception as ex:
                raise Raised(type(ex).__name__, f'subscript: {ex}')
        if isinstance(e, ast.Slice):
            return slice(*(None if x is None else self.ev(x, env) for x in (e.lower, e.upper, e.step)))
        if isinstance(e, ast.JoinedStr):
            out = ''
            for v in e.values:
                if isinstance(v, ast.Constant):
                    out += v.value
                else:
                    out += format(self.ev(v.value, env))
            return out
        if isinstance(e, (ast.ListComp, ast.SetComp, ast.GeneratorExp, ast.DictComp)):
            return self._comp(e, env)
        if isinstance(e, ast.Call):
            return self._call(e, env)
        if isinstance(e, ast.Lambda):
            if isinstance(e, Closure):
                return e
            c = Closure(args=e.args, body=e.body)
            ast.copy_location(c, e)
            c.closure_env = env           # the defining scope, by reference: a lambda stored in a table and applied elsewhere still sees its free variables
            return c
        if isinstance(e, ast.Starred):
            raise Unfoldable('starred')
        raise Unfoldable(type(e).__name__)

    def _comp(self, e, env):
        out = [] if not isinstance(e, ast.DictComp) else {}

        def rec(i, env):
            if i == len(e.generators):
                if isinstance(e, ast.DictComp):
                    out[self.ev(e.key, env)] = self.ev(e.value, env)
                else:
                    out.append(self.ev(e.elt, env))
                return
            g = e.generators[i]
            for item in self.ev(g.iter, env):
                self.tick()
                env2 = dict(env)
                self.bind(g.target, item, env2)
                if all(self.ev(c, env2) for c in g.ifs):
                    rec(i + 1, env2)
        rec(0, dict(env))
        if isinstance(e, ast.SetComp):
            return set(out)
        return out

    def bind(self, target, value, env):
        if isinstance(target, ast.Name):
            env[target.id] = value
        elif isinstance(target, (ast.Tuple, ast.List)):
            vals = list(value)
            star = [i for i, t in enumerate(target.elts) if isinstance(t, ast.Starred)]
            if star:
                i = star[0]
                tail = len(target.elts) - i - 1
                if len(star) > 1 or len(vals) < len(target.elts) - 1:
                    raise Raised('ValueError', 'unpack')
                for t, v in zip(target.elts[:i], vals[:i]):
                    self.bind(t, v, env)
                self.bind(target.elts[i].value, vals[i:len(vals) - tail], env)
                for t, v in zip(target.elts[i + 1:], vals[len(vals) - tail:]):
                    self.bind(t, v, env)
                return
            if len(vals) != len(target.elts):
                raise Raised('ValueError', 'unpack')
            for t, v in zip(target.elts, vals):
                self.bind(t, v, env)
        elif isinstance(target, ast.Attribute) and isinstance(target.value, ast.Name) and isinstance(env.get(target.value.id), Instance):
            env[target.value.id].attrs[target.attr] = value
        elif isinstance(target, ast.Attribute) and dotted(target):
            env[dotted(target)] = value
        elif isinstance(target, ast.Subscript):
            container = self.ev(target.value, env)
            if not isinstance(container, (dict, list)) and not (NDARRAY and isinstance(container, NDARRAY)):
                raise Unfoldable('subscript store on non container')
            if isinstance(target.slice, ast.Slice):
                container[slice(*(None if x is None else self.ev(x, env) for x in (target.slice.lower, target.slice.upper, target.slice.step)))] = value
            else:
                container[self.ev(target.slice, env)] = value
        else:
            raise Unfoldable('bind target')

    def _call(self, e, env):
        if self.call_hook is not None:
            r = self.call_hook(self, e, env)
            if r is not NotImplemented:
                return r
        d = dotted(e.func)
        args = []
        for a in e.args:
            if isinstance(a, ast.Starred):
                args.extend(list(self.ev(a.value, env)))
            else:
                args.append(self.ev(a, env))
        kwargs = {k.arg: self.ev(k.value, env) for k in e.keywords if k.arg}
        for k in e.keywords:
            if k.arg is None:
                extra = self.ev(k.value, env)
                if not isinstance(extra, dict):
                    raise Unfoldable('**kwargs')
                kwargs.update(extra)
        if isinstance(e.func, ast.Name) and isinstance(env.get(e.func.id), ExternalRef) and self.call_hook is not None:
            ref = env[e.func.id]
            synth = ast.copy_location(ast.Call(func=ast.parse(ref.name, mode='eval').body, args=e.args, keywords=e.keywords), e)
            r = self.call_hook(self, synth, env)
            if r is not NotImplemented:
                return r
            raise Unfoldable(f'call {ref.name}')
        if isinstance(e.func, ast.Name) and isinstance(env.get(e.func.id), type) and issubclass(env[e.func.id], tuple) and hasattr(env[e.func.id], '_fields'):
            return env[e.func.id](*args, **kwargs)              # a namedtuple type of the analysed module
        if isinstance(e.func, ast.Name) and isinstance(env.get(e.func.id), LocalClass):
            cls = env[e.func.id]
            inst = Instance(cls)
            init = cls.method('__init__')
            self.budget -= 5
            if init is not None:
                sc = dict(init[1].scope)
                sc['__class__'] = init[1]
                run_function(init[0], [inst] + args, kwargs, env=sc, budget=max(0, self.budget), call_hook=self.call_hook)
            return inst
        if isinstance(e.func, ast.Attribute) and isinstance(e.func.value, ast.Call) and dotted(e.func.value.func) == 'super' and isinstance(env.get('__class__'), LocalClass) \
                and isinstance(env.get('self'), Instance):
            for b in env['__class__'].bases:
                m = b.method(e.func.attr)
                if m is not None:
                    sc = dict(m[1].scope)
                    sc['__class__'] = m[1]
                    return run_function(m[0], [env['self']] + args, kwargs, env=sc, budget=max(0, self.budget), call_hook=self.call_hook)
            if e.func.attr == '__init__':
                return None
            raise Unfoldable(f'super().{e.func.attr}')
        if isinstance(e.func, ast.Attribute) and e.func.attr == 'cache_clear' and isinstance(e.func.value, ast.Attribute) and isinstance(e.func.value.value, ast.Name) \
                and isinstance(env.get(e.func.value.value.id), Instance):
            inst = env[e.func.value.value.id]
            m = inst.cls.method(e.func.value.attr)
            if m is not None:
                m[1].memo.pop(e.func.value.attr, None)
                return None
        if isinstance(e.func, ast.Attribute) and isinstance(e.func.value, ast.Name) and isinstance(env.get(e.func.value.id), Instance):
            inst = env[e.func.value.id]
            m = inst.cls.method(e.func.attr)
            if m is not None:
                self.budget -= 5
                static = any((dotted(x) or '') == 'staticmethod' for x in m[0].decorator_list)
                sc = dict(m[1].scope)
                sc['__class__'] = m[1]
                memoised = any((dotted(x.func if isinstance(x, ast.Call) else x) or '').split('.')[-1] in ('lru_cache', 'cache') for x in m[0].decorator_list)
                if memoised:
                    try:
                        key = (id(inst), tuple(args), tuple(sorted(kwargs.items())))
                        hash(key)
                    except TypeError:
                        key = None
                    if key is not None:
                        table = m[1].memo.setdefault(e.func.attr, {})
                        if key in table:
                            return table[key]
                        r = run_function(m[0], ([] if static else [inst]) + args, kwargs, env=sc, budget=max(0, self.budget), call_hook=self.call_hook)
                        table[key] = r
                        return r
                return run_function(m[0], ([] if static else [inst]) + args, kwargs, env=sc, budget=max(0, self.budget), call_hook=self.call_hook)
            if e.func.attr in inst.attrs and isinstance(inst.attrs[e.func.attr], LocalFn):
                lf = inst.attrs[e.func.attr]
                return run_function(lf.fdef, ([lf.bound] if lf.bound is not None else []) + args, kwargs, env=lf.scope, budget=max(0, self.budget), call_hook=self.call_hook)
        if isinstance(e.func, ast.Attribute) and d and isinstance(env.get(d), LocalFn):
            # a method given as a bound local function under its dotted name (`self.get_span`): read-only use
            lf = env[d]
            self.budget -= 5
            return run_function(lf.fdef, ([lf.bound] if lf.bound is not None else []) + args, kwargs, env=lf.scope, budget=max(0, self.budget), call_hook=self.call_hook)
        if isinstance(e.func, ast.Name) and type(env.get(e.func.id)).__name__ in ('method_descriptor', 'wrapper_descriptor') and getattr(env[e.func.id], '__objclass__', None) is str:
            return env[e.func.id](*args, **kwargs)          # a string method picked from a table and called on its operand
        if isinstance(e.func, ast.Name) and isinstance(env.get(e.func.id), LocalFn):
            lf = env[e.func.id]
            self.budget -= 5
            return run_function(lf.fdef, ([lf.bound] if lf.bound is not None else []) + args, kwargs, env=lf.scope, budget=max(0, self.budget), call_hook=self.call_hook)
        if d in ('itertools.takewhile', 'takewhile', 'itertools.dropwhile', 'dropwhile', 'filter', 'map') and len(e.args) == 2 and (
                isinstance(e.args[0], ast.Lambda) or (isinstance(e.args[0], ast.Name) and isinstance(env.get(e.args[0].id), (ast.Lambda, LocalFn)))):
            fn_ = e.args[0] if isinstance(e.args[0], ast.Lambda) else env[e.args[0].id]

            def apply(x):
                if isinstance(fn_, ast.Lambda):
                    env2 = dict(getattr(fn_, 'closure_env', None) or env)
                    env2[fn_.args.args[0].arg] = x
                    return self.ev(fn_.body, env2)
                return run_function(fn_.fdef, [x], env=fn_.scope, budget=max(0, self.budget))
            seq = list(args[1])
            kind = d.split('.')[-1]
            if kind == 'map':
                return [apply(x) for x in seq]
            if kind == 'filter':
                return [x for x in seq if apply(x)]
            out, taking = [], True
            for x in seq:
                self.tick()
                if kind == 'takewhile':
                    if not apply(x):
                        break
                    out.append(x)
                else:
                    if taking and apply(x):
                        continue
                    taking = False
                    out.append(x)
            return out
        if isinstance(e.func, ast.Lambda) or (isinstance(e.func, ast.Name) and isinstance(env.get(e.func.id), ast.Lambda)):
            lam = e.func if isinstance(e.func, ast.Lambda) else env[e.func.id]
            env2 = dict(getattr(lam, 'closure_env', None) or env)
            for a_, v_ in zip(lam.args.args, args):
                env2[a_.arg] = v_
            return self.ev(lam.body, env2)
        # key functions written as lambdas / local functions / bound dict.get
        if d in ('sorted', 'min', 'max') and 'key' in kwargs and isinstance(kwargs['key'], (ast.Lambda, LocalFn)):
            kf = kwargs['key']

            def keyfn(x, kf=kf):
                if isinstance(kf, ast.Lambda):
                    env2 = dict(getattr(kf, 'closure_env', None) or env)
                    env2[kf.args.args[0].arg] = x
                    return self.ev(kf.body, env2)
                return run_function(kf.fdef, ([kf.bound] if kf.bound is not None else []) + [x], env=kf.scope, budget=max(0, self.budget), call_hook=self.call_hook)
            kwargs = dict(kwargs, key=keyfn)
        if isinstance(e.func, ast.Name) and env.get(e.func.id) in (str, int, float, bool, list, tuple, dict, set) and e.func.id not in ('str', 'int', 'float', 'bool', 'list', 'tuple', 'dict', 'set'):
            # a builtin type held in a variable (`cast_type=str ... cast_type(value)`)
            try:
                return env[e.func.id](*args, **kwargs)
            except Exception as ex:
                raise Raised(type(ex).__name__, f'{e.func.id}: {ex}')
        if d == 'next' and len(args) in (1, 2) and not kwargs:
            it = args[0]
            if hasattr(it, '__next__'):
                # a real iterator object (iter(..) of a container the interpreter owns): advancing it is its state
                try:
                    return next(it)
                except StopIteration:
                    if len(args) == 2:
                        return args[1]
                    raise Raised('StopIteration', 'next')
            if isinstance(it, (list, tuple)) and isinstance(e.args[0], (ast.Call, ast.GeneratorExp)):
                # a generator made in the argument itself (materialised by the interpreter): its first item, nothing else can see it afterwards
                if it:
                    return it[0]
                if len(args) == 2:
                    return args[1]
                raise Raised('StopIteration', 'next')
            raise Unfoldable('next on a shared iterator')
        if d == 'type' and len(args) == 1 and not kwargs:
            return args[0].cls if isinstance(args[0], Instance) else type(args[0])
        if d == 'isinstance' and len(args) == 2:
            kinds = args[1] if isinstance(args[1], tuple) else (args[1],)
            for k_ in kinds:
                if isinstance(k_, LocalClass):
                    c_ = args[0].cls if isinstance(args[0], Instance) else None
                    seen_ = []
                    todo_ = [c_] if isinstance(c_, LocalClass) else []
                    while todo_:
                        x_ = todo_.pop()
                        if x_ is k_:
                            return True
                        if x_ not in seen_:
                            seen_.append(x_)
                            todo_.extend(x_.bases)
                elif isinstance(k_, type):
                    if not isinstance(args[0], Instance) and isinstance(args[0], k_):
                        return True
                else:
                    raise Unfoldable('isinstance against an unknown class')
            return False
        if d in PURE_FUNCS:
            if any(isinstance(a, ast.Lambda) for a in list(args) + list(kwargs.values())):
                def mk(lam):
                    def call(*xs):
                        env2 = dict(getattr(lam, 'closure_env', None) or env)
                        for p_, x_ in zip(lam.args.args, xs):
                            env2[p_.arg] = x_
                        return self.ev(lam.body, env2)
                    return call
                args = [mk(a) if isinstance(a, ast.Lambda) else a for a in args]
                kwargs = {k_: (mk(v_) if isinstance(v_, ast.Lambda) else v_) for k_, v_ in kwargs.items()}
            try:
                r = PURE_FUNCS[d](*args, **kwargs)
                if isinstance(r, (range, zip, enumerate, reversed, itertools.product, itertools.combinations, itertools.permutations, itertools.chain, itertools.combinations_with_replacement)):
                    r = list(r)
                return r
            except Exception as ex:
                raise Raised(type(ex).__name__, f'{d}: {ex}')
        if isinstance(e.func, ast.Attribute):
            recv = self.ev(e.func.value, env)
            # containers built inside the interpreted function may be filled in place (the interpreter owns them; callers pass copies of inputs)
            for typ, names in MUTATORS.items():
                if (type(recv) is typ or (typ is dict and isinstance(recv, dict))) and e.func.attr in names:
                    try:
                        return getattr(recv, e.func.attr)(*args, **kwargs)
                    except Exception as ex:
                        raise Raised(type(ex).__name__, f'{e.func.attr}: {ex}')
            if isinstance(recv, dict) and e.func.attr == '_replace' and not args and all(isinstance(k_, str) and k_.isidentifier() for k_ in recv):
                return dict(recv, **kwargs)
            if isinstance(recv, tuple) and hasattr(recv, '_fields') and e.func.attr in ('_replace', '_asdict'):
                return getattr(recv, e.func.attr)(*args, **kwargs)
            if NDARRAY and isinstance(recv, NDARRAY) and e.func.attr in ('sum', 'max', 'min', 'argmax', 'argmin', 'argsort', 'any', 'all', 'tolist', 'copy', 'astype', 'nonzero', 'cumsum', 'flatten', 'reshape', 'item'):
                try:
                    return getattr(recv, e.func.attr)(*args, **kwargs)
                except Exception as ex:
                    raise Raised(type(ex).__name__, f'{e.func.attr}: {ex}')
            for typ, names in PURE_METHODS.items():
                if isinstance(recv, typ) and e.func.attr in names:
                    try:
                        r = getattr(recv, e.func.attr)(*args, **kwargs)
                        if not isinstance(r, (str, bytes, int, float, bool, tuple, list, dict, set, frozenset, type(None))):
                            r = list(r)
                        return r
                    except Exception as ex:
                        raise Raised(type(ex).__name__, f'{e.func.attr}: {ex}')
        raise Unfoldable(f'call {src(e.func)}')


def fold(e, env=None):
    """value of e or TOP"""
    try:
        return Evaluator(env or {}).ev(e)
    except Unfoldable:
        return TOP
    except RecursionError:
        return TOP


# ---------------------------------------------------------------------------------------------------------------
# Small-step interpreter for *pure* helper functions over a finite abstract domain (used to enumerate abstract cases such as
# "(q1 < q2, q1 == q2, q1 > q2) x (same base / different base)"; never used on input data).
MUTATORS = {list: {'append', 'extend', 'pop', 'insert', 'clear', 'sort', 'reverse'}, dict: {'update', 'setdefault', 'pop', 'clear'}, set: {'add', 'discard', 'update', 'remove', 'pop', 'clear'}}


class _Return(Exception):
    def __init__(self, v):
        self.v = v


class _Break(Exception):
    pass


class _Continue(Exception):
    pass


def run_function(fdef, args, kwargs=None, env=None, budget=20000, call_hook=None, is_subclass=None, active=None, out_scope=None):
    """Interpret a pure function body (Assign / AugAssign / If / For / While-free / Return / Continue / Break / Expr / Pass)."""
    ev = Evaluator({}, budget=budget, call_hook=call_hook)
    scope = dict(env or {})
    params = [a.arg for a in fdef.args.args]
    defaults = fdef.args.defaults
    for p, d in zip(params[len(params) - len(defaults):], defaults):
        scope[p] = ev.ev(d, scope)
    if fdef.args.vararg is not None:
        scope[fdef.args.vararg.arg] = tuple(args[len(params):])
        args = args[:len(params)]
    for p, a in zip(params, args):
        scope[p] = a
    for p, d in zip([a.arg for a in fdef.args.kwonlyargs], fdef.args.kw_defaults):
        if d is not None:
            scope[p] = ev.ev(d, scope)
    if fdef.args.kwarg is not None:
        named = set(params) | {a.arg for a in fdef.args.kwonlyargs}
        scope[fdef.args.kwarg.arg] = {k: v for k, v in (kwargs or {}).items() if k not in named}
        kwargs = {k: v for k, v in (kwargs or {}).items() if k in named}
    for k, v in (kwargs or {}).items():
        scope[k] = v

    active = active if active is not None else []          # exceptions being handled (for a bare `raise`, also inside a function called from a handler)
    yields = []
    is_gen = any(isinstance(n, (ast.Yield, ast.YieldFrom)) for st_ in fdef.body if not isinstance(st_, (ast.FunctionDef, ast.AsyncFunctionDef, ast.ClassDef)) for n in _walk_own(st_))

    declared_global = set()

    def block(stmts):
        for s in stmts:
            stmt(s)

    def stmt(s):
        ev.tick()
        if isinstance(s, ast.Expr) and isinstance(s.value, ast.Yield):
            yields.append(ev.ev(s.value.value, scope) if s.value.value is not None else None)
        elif isinstance(s, ast.Expr) and isinstance(s.value, ast.YieldFrom):
            yields.extend(list(ev.ev(s.value.value, scope)))
        elif isinstance(s, (ast.FunctionDef,)):
            scope[s.name] = LocalFn(s, scope)
        elif isinstance(s, ast.Try):
            try:
                block(s.body)
            except Raised as r_:
                for h in s.handlers:
                    if _exc_matches(r_.name, h.type, is_subclass):
                        if h.name:
                            scope[h.name] = r_
                        try:
                            active.append(r_)
                            block(h.body)
                        finally:
                            active.pop()
                            block(s.finalbody)
                        break
                else:
                    block(s.finalbody)
                    raise
            else:
                block(s.orelse)
                block(s.finalbody)
        elif isinstance(s, ast.Raise):
            if s.exc is None:
                if active:
                    raise active[-1]
                raise Raised('RuntimeError', 'no active exception')
            if isinstance(s.exc, ast.Name) and isinstance(scope.get(s.exc.id), Raised):
                raise scope[s.exc.id]           # `raise e` of a caught exception
            e_ = s.exc.func if isinstance(s.exc, ast.Call) else s.exc
            raise Raised((dotted(e_) or '?').split('.')[-1], src(s.exc)[:60])
        elif isinstance(s, ast.Delete):
            for t in s.targets:
                if isinstance(t, ast.Subscript):
                    cont = ev.ev(t.value, scope)
                    try:
                        del cont[ev.ev(t.slice, scope)]
                    except Exception as ex:
                        raise Raised(type(ex).__name__, str(ex))
                elif isinstance(t, ast.Name):
                    scope.pop(t.id, None)
                else:
                    raise Unfoldable('del target')
        elif isinstance(s, ast.Assert):
            if not ev.ev(s.test, scope):
                raise Raised('AssertionError', src(s.test)[:60])
        elif isinstance(s, ast.While):
            while ev.ev(s.test, scope):
                ev.tick()
                try:
                    block(s.body)
                except _Continue:
                    continue
                except _Break:
                    break
            else:
                block(s.orelse)
        elif isinstance(s, ast.Assign):
            v = ev.ev(s.value, scope)
            for t in s.targets:
                if isinstance(t, ast.Name) and t.id in declared_global:
                    raise Unfoldable(f'assignment to global {t.id}')
                ev.bind(t, v, scope)
        elif isinstance(s, ast.AugAssign) and (isinstance(s.target, ast.Name) or (isinstance(s.target, ast.Attribute) and dotted(s.target)) or isinstance(s.target, ast.Subscript)):
            cur = ev.ev(ast.copy_location(type(s.target)(**{**{f_: getattr(s.target, f_) for f_ in s.target._fields}, 'ctx': ast.Load()}), s.target), scope)
            if _np is not None and isinstance(cur, _np.generic) and isinstance(s.op, (ast.Add, ast.Sub, ast.Mult)):
                # arithmetic of the element type (a uint8 counter wraps at 256, as it does in the analysed code)
                import warnings as _w
                rhs = ev.ev(s.value, scope)
                with _w.catch_warnings():
                    _w.simplefilter('ignore')
                    v = cur + cur.dtype.type(rhs) if isinstance(s.op, ast.Add) and isinstance(rhs, int) and _np.issubdtype(cur.dtype, _np.integer) else \
                        {ast.Add: lambda: cur + rhs, ast.Sub: lambda: cur - rhs, ast.Mult: lambda: cur * rhs}[type(s.op)]()
                ev.bind(s.target, v, scope)
                return
            if _np is not None and isinstance(cur, _np.generic):
                cur = cur.item()
            if isinstance(cur, (int, float, str)):
                v = ev.ev(ast.BinOp(left=ast.Constant(cur), op=s.op, right=s.value), scope)
            elif isinstance(cur, list) and isinstance(s.op, ast.Add):
                cur.extend(list(ev.ev(s.value, scope)))
                v = cur
            else:
                raise Unfoldable('augassign')
            ev.bind(s.target, v, scope)
        elif isinstance(s, ast.If):
            block(s.body if ev.ev(s.test, scope) else s.orelse)
        elif isinstance(s, ast.For):
            for item in ev.ev(s.iter, scope):
                ev.bind(s.target, item, scope)
                try:
                    block(s.body)
                except _Continue:
                    continue
                except _Break:
                    break
            else:
                block(s.orelse)
        elif isinstance(s, ast.Return):
            raise _Return(ev.ev(s.value, scope) if s.value is not None else None)
        elif isinstance(s, ast.Continue):
            raise _Continue()
        elif isinstance(s, ast.Break):
            raise _Break()
        elif isinstance(s, ast.Pass):
            pass
        elif isinstance(s, ast.Expr):
            if isinstance(s.value, ast.Constant):
                return
            ev.ev(s.value, scope)
        elif isinstance(s, ast.With):
            # the context object is whatever the (modelled) constructor returns; leaving the block closes a modelled handle
            opened = []
            for it in s.items:
                v = ev.ev(it.context_expr, scope)
                opened.append(v)
                if it.optional_vars is not None:
                    ev.bind(it.optional_vars, v, scope)
            try:
                block(s.body)
            finally:
                for v in opened:
                    if isinstance(v, dict) and 'open' in v and 'mode' in v:
                        v['open'] = False
        elif isinstance(s, (ast.Global, ast.Nonlocal)):
            # reads of module-level names resolve through the scope anyway; a function that re-binds one is refused where it does so
            declared_global.update(s.names)
        else:
            raise Unfoldable(f'statement {type(s).__name__}')
    try:
        block(fdef.body)
    except _Return as r:
        if out_scope is not None:
            out_scope.update(scope)
        return yields if is_gen else r.v
    except (_Continue, _Break):
        pass            # a body lifted out of its loop: leaving the iteration ends it
    finally:
        if out_scope is not None:
            out_scope.update(scope)
    return yields if is_gen else None


def _walk_own(node):
    """nodes of a statement without descending into nested function / class definitions and lambdas"""
    stack = [node]
    while stack:
        n = stack.pop()
        yield n
        for ch in ast.iter_child_nodes(n):
            if not isinstance(ch, (ast.FunctionDef, ast.AsyncFunctionDef, ast.ClassDef, ast.Lambda)):
                stack.append(ch)


def module_scope(ix, relpath, _depth=0, _seen=None):
    """what the functions of a module see as globals, for the interpreter: its constants, its functions (LocalFn), its classes (LocalClass, bases resolved inside the
    package) and the like-named objects it imports from other modules of the package"""
    _seen = _seen if _seen is not None else {}
    depths = _seen.setdefault('//depths', {})
    if relpath in _seen and depths.get(relpath, 0) <= _depth:
        return _seen[relpath]          # (a scope computed deeper in the import chain followed fewer imports: it is computed again when asked for from higher up)
    env = {}
    _seen[relpath] = env
    depths[relpath] = _depth
    mod = ix.module(relpath)
    ev = Evaluator(env)
    retry = []
    for s in mod.tree.body:
        if isinstance(s, ast.ImportFrom) and s.module and _depth < 3:
            base = s.module.replace('.', '/')
            if s.level:
                parts = relpath.split('/')[:-s.level]
                base = '/'.join(parts + ([s.module.replace('.', '/')] if s.module else []))
            rel = base + '.py'
            if not ix.exists(rel):
                rel = base + '/__init__.py'
                if not ix.exists(rel):
                    continue
            try:
                other = module_scope(ix, rel, _depth + 1, _seen)
            except Exception:
                continue
            for a in s.names:
                if a.name == '*':
                    env.update({k: v for k, v in other.items() if not k.startswith('_')})
                elif a.name in other:
                    env[a.asname or a.name] = other[a.name]
        elif isinstance(s, ast.Assign) and len(s.targets) == 1 and isinstance(s.targets[0], ast.Name):
            try:
                env[s.targets[0].id] = ev.ev(s.value)
            except Exception:
                retry.append(s)
        elif isinstance(s, ast.FunctionDef):
            env[s.name] = LocalFn(s, env)
        elif isinstance(s, ast.ClassDef):
            bases = [env[b.id] for b in s.bases if isinstance(b, ast.Name) and isinstance(env.get(b.id), LocalClass)]
            env[s.name] = LocalClass(s, env, bases)
        elif isinstance(s, (ast.For, ast.AugAssign, ast.Assign)) or (isinstance(s, ast.If) and not (isinstance(s.test, ast.Compare) and '__name__' in src(s.test))):
            # tables filled by module-level statements (the canonical form of a module-level comprehension is a loop)
            fn = ast.FunctionDef(name='_module_statement', args=ast.arguments(posonlyargs=[], args=[], kwonlyargs=[], kw_defaults=[], defaults=[]), decorator_list=[], type_params=[], body=[s])
            out = {}
            try:
                run_function(fn, [], env=env, budget=20000, out_scope=out)
            except Exception:
                continue
            for k_, v_ in out.items():
                if k_ not in env or env[k_] is not v_:
                    env[k_] = v_
    # constants that read a name bound further down (the canonical module orders its constants by name): evaluate again once everything else is there
    for _ in range(3):
        left = []
        for s in retry:
            try:
                env[s.targets[0].id] = ev.ev(s.value)
            except Exception:
                left.append(s)
        if len(left) == len(retry):
            break
        retry = left
    return env
