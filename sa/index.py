"""RepoIndex: parsed view of /repo's *working tree* (optionally with an in-memory overlay).

Nothing of the repository is imported or executed; files are read as text and parsed with `ast`.
Every file consulted is recorded (path + sha256) for the evidence.
"""
import ast
import hashlib
import os
import warnings

PKG = 'singlecellmultiomics'


class AnalysisError(Exception):
    """The analysis cannot interpret the code (unknown idiom / vanished anchor) -> exit 2, never a verdict."""


class AnchorVanished(AnalysisError):
    pass


def _repair_line_order(tree):
    """Statements that were inlined from a helper keep the helper's line numbers; rules (and readers) order statements by line.  Every
    statement of a function whose line lies outside the function's own line range is moved to just after the statement before it (a
    fraction of a line, so that the reported line is still the call site's), with everything inside it shifted by the same amount."""
    for f in [n for n in ast.walk(tree) if isinstance(n, (ast.FunctionDef, ast.AsyncFunctionDef))]:
        lo, hi = getattr(f, 'lineno', None), getattr(f, 'end_lineno', None)
        if lo is None or hi is None:
            continue
        prev = [float(lo)]

        def rec(stmts):
            for s_ in stmts:
                if isinstance(s_, (ast.FunctionDef, ast.AsyncFunctionDef, ast.ClassDef)):
                    continue
                ln = getattr(s_, 'lineno', None)
                if ln is None:
                    continue
                if not (lo <= ln <= hi) or ln < prev[0] - 0.5:
                    new = prev[0] + 0.001
                    delta = new - ln
                    for n_ in ast.walk(s_):
                        if hasattr(n_, 'lineno') and n_.lineno is not None:
                            n_.lineno = n_.lineno + delta
                        if getattr(n_, 'end_lineno', None) is not None:
                            n_.end_lineno = n_.end_lineno + delta
                    prev[0] = max(prev[0], max((getattr(n_, 'lineno', 0) or 0) for n_ in ast.walk(s_)))
                    continue
                prev[0] = max(prev[0], float(ln))
                for fld in ('body', 'orelse', 'finalbody'):
                    b_ = getattr(s_, fld, None)
                    if isinstance(b_, list) and b_ and isinstance(b_[0], ast.stmt):
                        rec(b_)
                if isinstance(s_, ast.Try):
                    for h in s_.handlers:
                        rec(h.body)
                prev[0] = max(prev[0], float(getattr(s_, 'end_lineno', ln) or ln)) if lo <= (getattr(s_, 'end_lineno', ln) or ln) <= hi else prev[0]
        rec(f.body)


def repo_root():
    return os.environ.get('SCMO_REPO', '/repo')


class Module:
    def __init__(self, relpath, source, loader=None):
        self.relpath = relpath
        self.source = source
        with warnings.catch_warnings():
            warnings.simplefilter('ignore')
            self.tree = ast.parse(source, filename=relpath)
        self.norm_counts = {}
        self.grafted = []
        self.renamed = {}
        self.propagated = {}
        self.inlined, self.not_inlined = [], []
        if os.environ.get('SCMO_NO_NORMALIZE') != '1':
            from .normalize import normalize, records_to_dicts
            from . import propagate as _prop
            nrec = records_to_dicts(self.tree, _prop.ref_globals().get(relpath))
            self.tree, self.norm_counts = normalize(self.tree)
            self.norm_counts['records_to_dicts'] = nrec
            from . import alpha, inline
            self.grafted = self._graft_moved_functions(relpath, loader)
            self.inlined, self.not_inlined = inline.apply(self.tree, relpath, loader)
            if self.inlined:
                # inlined bodies can expose new canonicalisable forms (a literal flag substituted for a parameter ...)
                self.tree, c2 = normalize(self.tree)
                for k_, v_ in c2.items():
                    self.norm_counts[k_] = self.norm_counts.get(k_, 0) + v_
            if self.inlined:
                from .normalize import value_objects_to_locals
                self.norm_counts['value_objects'] = value_objects_to_locals(self.tree)
            from .normalize import split_tuple_assignments, fold_constant_conditions
            self.norm_counts['folded'] = fold_constant_conditions(self.tree)
            self.norm_counts['tuple_split'] = split_tuple_assignments(self.tree)
            from .normalize import counting_while_to_for
            late_for = counting_while_to_for(self.tree)      # a counter initialised through a tuple unpacking only shows after the split
            self.norm_counts['counting_while'] = self.norm_counts.get('counting_while', 0) + late_for
            if self.inlined:
                self.norm_counts['coalesced'] = inline.coalesce_inlined_results(self.tree)
            self.renamed = alpha.apply(self.tree, relpath)
            from . import propagate
            self.propagated = propagate.apply(self.tree, relpath, loader)
            if self.propagated or late_for:
                # substituted temporaries can complete a loop -> comprehension pattern, which in turn can free another temporary
                from .normalize import loops_to_comprehensions
                if loops_to_comprehensions(self.tree):
                    for q_, d_ in propagate.apply(self.tree, relpath).items():
                        self.propagated.setdefault(q_, []).extend(d_)
            if self.propagated:
                # a retry loop whose body only bound forwarded temporaries is a tail call once they are substituted (N36 after N7)
                from .normalize import tail_iteration_to_recursion
                self.norm_counts['tail_iteration'] = self.norm_counts.get('tail_iteration', 0) + tail_iteration_to_recursion(self.tree)
            from .normalize import unroll_literal_loops, fuse_nested_comprehensions, immediate_partials_to_calls
            self.norm_counts['immediate_partials'] = immediate_partials_to_calls(self.tree)
            from .normalize import class_constant_tables, constant_getattr
            self.norm_counts['class_tables'] = class_constant_tables(self.tree)
            self.norm_counts['unrolled'] = unroll_literal_loops(self.tree)
            self.norm_counts['constant_getattr'] = constant_getattr(self.tree)
            self.norm_counts['fused'] = fuse_nested_comprehensions(self.tree)
            from .normalize import flatten_starred_displays, slice_objects_to_slices
            self.norm_counts['slice_objects'] = slice_objects_to_slices(self.tree)
            self.norm_counts['starred_flattened'] = flatten_starred_displays(self.tree)
            ast.fix_missing_locations(self.tree)
            if self.inlined or self.grafted:
                _repair_line_order(self.tree)
        self.lines = source.splitlines()
        self._defs = None
        # parent links and qualnames
        self.parent = {}
        self.qualname = {}
        self._annotate(self.tree, None, '')

    def _graft_moved_functions(self, relpath, loader):
        """A module-level function of the reference snapshot that now lives in another package module and is imported back by name
        (`from .hamming import hamming_circle`) is grafted into this module's tree, so that rules anchored on relpath:name still analyse it."""
        from . import inline
        import copy
        ref = inline.ref_functions().get(relpath)
        if not ref or loader is None:
            return []
        have = {n.name for n in self.tree.body if isinstance(n, (ast.FunctionDef, ast.AsyncFunctionDef, ast.ClassDef))}
        missing = {q for q in ref if '.' not in q and '#' not in q and q not in have}
        out = []
        if not missing:
            return out
        pkg_dir = os.path.dirname(relpath)
        for st in list(self.tree.body):
            if not isinstance(st, ast.ImportFrom):
                continue
            for al in st.names:
                name = al.asname or al.name
                if name not in missing:
                    continue
                if st.level:
                    base = pkg_dir
                    for _ in range(st.level - 1):
                        base = os.path.dirname(base)
                    modpath = os.path.join(base, *(st.module.split('.') if st.module else []))
                else:
                    modpath = (st.module or '').replace('.', '/')
                for rp in (modpath + '.py', modpath + '/__init__.py'):
                    other = loader(rp)
                    if other is None:
                        continue
                    for ch in other.body:
                        if isinstance(ch, ast.FunctionDef) and ch.name == al.name:
                            g = copy.deepcopy(ch)
                            g.name = name
                            self.tree.body.append(g)
                            # private helpers of the moved function come along (they are inlined / analysed in place)
                            used = {n.id for n in ast.walk(g) if isinstance(n, ast.Name)}
                            for ch2 in other.body:
                                if isinstance(ch2, ast.FunctionDef) and ch2.name in used and ch2.name not in have and ch2.name != al.name:
                                    self.tree.body.append(copy.deepcopy(ch2))
                                    have.add(ch2.name)
                            # ... and so do the module-level names it reads in its new home (tables, constants), unless this module
                            # binds the name itself
                            bound_here = {t.id for n in self.tree.body if isinstance(n, ast.Assign) for t in n.targets if isinstance(t, ast.Name)} | have | \
                                {(a_.asname or a_.name).split('.')[0] for n in self.tree.body if isinstance(n, (ast.Import, ast.ImportFrom)) for a_ in n.names}
                            for ch2 in other.body:
                                if isinstance(ch2, ast.Assign) and len(ch2.targets) == 1 and isinstance(ch2.targets[0], ast.Name) and ch2.targets[0].id in used \
                                        and ch2.targets[0].id not in bound_here:
                                    # placed in front of the functions so that module-constant propagation sees a plain module constant
                                    self.tree.body.insert(0, copy.deepcopy(ch2))
                                    bound_here.add(ch2.targets[0].id)
                            out.append((name, rp))
                            missing.discard(name)
                            break
        return out

    def _annotate(self, node, parent, prefix):
        for child in ast.iter_child_nodes(node):
            self.parent[child] = node
            if isinstance(child, (ast.FunctionDef, ast.AsyncFunctionDef, ast.ClassDef)):
                q = prefix + child.name
                self.qualname[child] = q
                self._annotate(child, node, q + '.')
            else:
                self._annotate(child, node, prefix)

    @property
    def defs(self):
        """qualname -> list of def nodes in source order (later definitions shadow earlier ones)."""
        if self._defs is None:
            d = {}
            for n, q in self.qualname.items():
                d.setdefault(q, []).append(n)
            for q in d:
                d[q].sort(key=lambda n: n.lineno)
            self._defs = d
        return self._defs

    def enclosing_def(self, node):
        p = self.parent.get(node)
        while p is not None and not isinstance(p, (ast.FunctionDef, ast.AsyncFunctionDef, ast.ClassDef)):
            p = self.parent.get(p)
        return p

    def enclosing_qualname(self, node):
        if node in self.qualname:
            return self.qualname[node]
        d = self.enclosing_def(node)
        return self.qualname.get(d, '<module>') if d is not None else '<module>'

    def seg(self, node):
        try:
            return ast.get_source_segment(self.source, node) or ast.unparse(node)
        except Exception:
            return ast.unparse(node)


_MODULE_MEMO = {}


class RepoIndex:
    def __init__(self, root=None, overlay=None):
        self.root = root or repo_root()
        self.overlay = dict(overlay or {})
        self._modules = {}
        self._raw = {}
        self.consulted = {}   # relpath -> sha256
        self._pyfiles = None

    # ---- files -------------------------------------------------------------------------
    def read(self, relpath, binary=False):
        if relpath in self.overlay and not binary:
            text = self.overlay[relpath]
            self.consulted[relpath] = hashlib.sha256(text.encode()).hexdigest()
            return text
        p = os.path.join(self.root, relpath)
        if not os.path.isfile(p):
            raise AnchorVanished(f'file {relpath} does not exist in {self.root}')
        with open(p, 'rb') as h:
            data = h.read()
        self.consulted[relpath] = hashlib.sha256(data).hexdigest()
        if binary:
            return data
        return data.decode('utf-8', errors='replace').replace('\r\n', '\n')

    def exists(self, relpath):
        return relpath in self.overlay or os.path.isfile(os.path.join(self.root, relpath))

    def pyfiles(self):
        if self._pyfiles is None:
            out = []
            base = os.path.join(self.root, PKG)
            for dp, dn, fn in os.walk(base):
                dn[:] = [d for d in dn if d != '__pycache__']
                for f in fn:
                    if f.endswith('.py'):
                        out.append(os.path.relpath(os.path.join(dp, f), self.root))
            for p in self.overlay:
                if p.endswith('.py') and p not in out:
                    out.append(p)
            self._pyfiles = sorted(out)
        return self._pyfiles

    def listdir(self, relpath):
        p = os.path.join(self.root, relpath)
        return sorted(os.listdir(p)) if os.path.isdir(p) else []

    # ---- modules -----------------------------------------------------------------------
    def module(self, relpath):
        if relpath not in self._modules:
            src = self.read(relpath)
            # parsed + canonicalised modules are shared between the indexes of one process (calibration builds one index per overlay) when
            # the content of the file and of every other file its inliner consulted is unchanged
            key = (relpath, hashlib.sha256(src.encode()).hexdigest(), self.root)
            for deps, mod in _MODULE_MEMO.get(key, []):
                if all(self._content_hash(d) == h for d, h in deps.items()):
                    self._modules[relpath] = mod
                    for d in deps:
                        self.read(d) if self.exists(d) else None
                    return mod
            try:
                consulted = {}

                def loader(rp, consulted=consulted):
                    t = self._raw_tree(rp)
                    consulted[rp] = self._content_hash(rp)
                    return t
                self._modules[relpath] = Module(relpath, src, loader=loader)
                _MODULE_MEMO.setdefault(key, []).append((dict(consulted), self._modules[relpath]))
            except SyntaxError as e:
                raise AnalysisError(f'{relpath} does not parse: {e}')
        return self._modules[relpath]

    def _content_hash(self, relpath):
        if relpath in self.overlay:
            return hashlib.sha256(self.overlay[relpath].encode()).hexdigest()
        p = os.path.join(self.root, relpath)
        if not os.path.isfile(p):
            return None
        with open(p, 'rb') as h:
            return hashlib.sha256(h.read()).hexdigest()

    def _raw_tree(self, relpath):
        """parsed + N1-N4 normalised tree of a package file (used to inline helpers imported from another module); None if absent"""
        if not self.exists(relpath):
            return None
        if relpath not in self._raw:
            from .normalize import normalize
            try:
                with warnings.catch_warnings():
                    warnings.simplefilter('ignore')
                    t = ast.parse(self.read(relpath))
                self._raw[relpath] = normalize(t)[0]
            except SyntaxError:
                self._raw[relpath] = None
        return self._raw[relpath]

    def all_modules(self):
        for p in self.pyfiles():
            try:
                yield self.module(p)
            except AnalysisError:
                continue

    def func(self, relpath, qualname, all_defs=False):
        m = self.module(relpath)
        ds = [d for d in m.defs.get(qualname, []) if isinstance(d, (ast.FunctionDef, ast.AsyncFunctionDef))]
        if not ds and qualname.count('.') == 1:
            # a method the class inherits from a base class of the same module (the class was split into a base and a subclass)
            cname, mname = qualname.split('.')
            seen, todo = set(), [cname]
            while todo and not ds:
                c = todo.pop(0)
                if c in seen:
                    continue
                seen.add(c)
                for cd in [d for d in m.defs.get(c, []) if isinstance(d, ast.ClassDef)]:
                    for b in cd.bases:
                        if isinstance(b, ast.Name):
                            ds = [d for d in m.defs.get(f'{b.id}.{mname}', []) if isinstance(d, (ast.FunctionDef, ast.AsyncFunctionDef))]
                            if ds:
                                break
                            todo.append(b.id)
                    if ds:
                        break
        if not ds:
            raise AnchorVanished(f'function {relpath}:{qualname} not found')
        return ds if all_defs else ds[-1]

    def has_func(self, relpath, qualname):
        try:
            self.func(relpath, qualname)
            return True
        except AnchorVanished:
            return False

    def cls(self, relpath, name, all_defs=False):
        m = self.module(relpath)
        ds = [d for d in m.defs.get(name, []) if isinstance(d, ast.ClassDef)]
        if not ds:
            raise AnchorVanished(f'class {relpath}:{name} not found')
        return ds if all_defs else ds[-1]

    def site(self, relpath, node):
        m = self.module(relpath)
        return f'{relpath}:{int(getattr(node, "lineno", 0) or 0)} {m.enclosing_qualname(node)}'

    def construct(self, relpath, node, rule):
        """Line-independent key of a construct: module:function:rule:normalised statement digest."""
        m = self.module(relpath)
        h = hashlib.sha1(ast.dump(node).encode()).hexdigest()[:12]
        return f'{relpath}:{m.enclosing_qualname(node)}:{rule}:{h}'

    def digest(self):
        h = hashlib.sha256()
        for p in sorted(self.consulted):
            h.update(p.encode()); h.update(self.consulted[p].encode())
        return h.hexdigest()

    # ---- class hierarchy (by name; the package has few name clashes and they are listed by C02-R6) ----
    def class_table(self):
        if getattr(self, '_ctab', None) is None:
            t = {}
            for m in self.all_modules():
                for q, ds in m.defs.items():
                    for d in ds:
                        if isinstance(d, ast.ClassDef):
                            t.setdefault(d.name, []).append((m.relpath, d))
            self._ctab = t
        return self._ctab

    def bases_of(self, cdef):
        out = []
        for b in cdef.bases:
            if isinstance(b, ast.Name):
                out.append(b.id)
            elif isinstance(b, ast.Attribute):
                out.append(b.attr)
        return out

    def is_subclass_name(self, a, b, _seen=None):
        """True if a class named `a` (any definition) transitively derives from a class named `b`."""
        if a == b:
            return True
        _seen = _seen or set()
        if a in _seen:
            return False
        _seen.add(a)
        for _, cdef in self.class_table().get(a, []):
            for base in self.bases_of(cdef):
                if self.is_subclass_name(base, b, _seen):
                    return True
        return False


# ---- small AST helpers used by all rules --------------------------------------------------

def dump(node):
    return ast.dump(node) if isinstance(node, ast.AST) else repr(node)


def src(node):
    try:
        return ast.unparse(node)
    except Exception:
        return '<?>'


def same(a, b):
    return dump(a) == dump(b)


def walk_no_nested(node, include_self=True):
    """ast.walk that does not descend into nested function / class / lambda bodies."""
    stack = [node] if include_self else list(ast.iter_child_nodes(node))
    first = True
    while stack:
        n = stack.pop()
        yield n
        for c in ast.iter_child_nodes(n):
            if isinstance(c, (ast.FunctionDef, ast.AsyncFunctionDef, ast.ClassDef, ast.Lambda)):
                continue
            stack.append(c)


def calls_in(node):
    return [n for n in walk_no_nested(node) if isinstance(n, ast.Call)]


def call_name(call):
    """'f' for f(...), 'a.b.c' for a.b.c(...), None otherwise."""
    return dotted(call.func)


def dotted(e):
    parts = []
    while isinstance(e, ast.Attribute):
        parts.append(e.attr)
        e = e.value
    if isinstance(e, ast.Name):
        parts.append(e.id)
        return '.'.join(reversed(parts))
    if isinstance(e, ast.Call):
        inner = dotted(e.func)
        if inner is not None:
            parts.append(inner + '()')
            return '.'.join(reversed(parts))
    if isinstance(e, ast.Subscript):
        inner = dotted(e.value)
        if inner is not None:
            parts.append(inner + '[]')
            return '.'.join(reversed(parts))
    return None


def names_in(node):
    return {n.id for n in ast.walk(node) if isinstance(n, ast.Name)}


def const(node, default=None):
    if isinstance(node, ast.Constant):
        return node.value
    if isinstance(node, ast.UnaryOp) and isinstance(node.op, ast.USub) and isinstance(node.operand, ast.Constant):
        return -node.operand.value
    return default


def find_stmts(node, typ):
    return [n for n in walk_no_nested(node) if isinstance(n, typ)]
