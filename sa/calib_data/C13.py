from ..rules.slots import MOLECULE, SEQUTILS

MASK = "        proper = (v == v[np.arange(v.shape[0]), majority_base_indices][:, np.newaxis]).sum(1) == 1\n"
OVERLAYS = [
    {'name': 'consensus returned unmasked', 'kind': 'break', 'rules': ['C13-R1'],
     'edits': [(MOLECULE, "            return  dict(zip(locations[proper], ['ACGTN'[idx] for idx in majority_base_indices[proper]]))", "            return  dict(zip(locations, ['ACGTN'[idx] for idx in majority_base_indices]))")]},
    {'name': 'tie mask >= 1 (always true)', 'kind': 'break', 'rules': ['C13-R1'],
     'edits': [(MOLECULE, MASK, MASK.replace(".sum(1) == 1", ".sum(1) >= 1"))]},
    {'name': 'absolute majority instead of unique plurality', 'kind': 'break', 'rules': ['C13-R1'],
     'edits': [(MOLECULE, MASK, "        proper = 2 * v[np.arange(v.shape[0]), majority_base_indices] > v.sum(1)\n")]},
    {'name': 'N continue deleted', 'kind': 'break', 'rules': ['C13-R2'],
     'edits': [(MOLECULE, "                    if q_base == 'N':\n                        continue\n                    #    consensii[position][4] += phred_score", "                    #    consensii[position][4] += phred_score")]},
    {'name': 'votes weighted by phred score', 'kind': 'break', 'rules': ['C13-R2'],
     'edits': [(MOLECULE, "                    consensii[position]['ACGTN'.index(q_base)] += 1\n            except ValueError as e:", "                    consensii[position]['ACGTN'.index(q_base)] += phred_score\n            except ValueError as e:")]},
    {'name': 'try moved around the whole fragment loop', 'kind': 'break', 'rules': ['C13-R2'],
     'edits': [(MOLECULE, "        for fragment in self:\n            if dove_safe and not fragment.has_R2() or not fragment.has_R1():\n                continue\n\n            try:\n", "        try:\n          for fragment in self:\n            if dove_safe and not fragment.has_R2() or not fragment.has_R1():\n                continue\n\n            if True:\n"),
               (MOLECULE, "                    consensii[position]['ACGTN'.index(q_base)] += 1\n            except ValueError as e:\n                # For example: ValueError('This method only works for inwards facing reads')\n                pass\n",
                "                    consensii[position]['ACGTN'.index(q_base)] += 1\n        except ValueError as e:\n            pass\n")]},
    {'name': 'arbitration >= (later mate wins ties)', 'kind': 'break', 'rules': ['C13-R4'],
     'edits': [(SEQUTILS, "        if call[1]>best_q:\n", "        if call[1]>=best_q:\n")]},
    {'name': 'initial best quality 0 (phred-0 calls lose their vote)', 'kind': 'break', 'rules': ['C13-R4'],
     'edits': [(SEQUTILS, "    best_base, best_q = None, -1\n", "    best_base, best_q = None, 0\n")]},
    {'name': 'tie detection ignores the base', 'kind': 'break', 'rules': ['C13-R4'],
     'edits': [(SEQUTILS, "        elif call[1]==best_q and call[0]!=best_base:\n", "        elif call[1]==best_q:\n")]},
    {'name': 'keep: row maximum via np.max', 'kind': 'keep',
     'edits': [(MOLECULE, MASK, "        proper = (v == np.max(v, axis=1)[:, np.newaxis]).sum(1) == 1\n")]},
    {'name': 'keep: mask bound to another name', 'kind': 'keep',
     'edits': [(MOLECULE, MASK, "        unique_maximum = (v == v[np.arange(v.shape[0]), majority_base_indices][:, np.newaxis]).sum(1) == 1\n        proper = unique_maximum\n")]},
]
