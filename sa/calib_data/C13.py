from ..rules.slots import MOLECULE, SEQUTILS

MASK = "        proper = (v == v[np.arange(v.shape[0]), majority_base_indices][:, np.newaxis]).sum(1) == 1\n"
OVERLAYS = [
    {'name': 'consensus returned unmasked', 'kind': 'break', 'rules': ['C13-R1'],
     'edits': [(MOLECULE, "            return  dict(zip(locations[proper], ['ACGTN'[idx] for idx in majority_base_indices[proper]]))", "            return  dict(zip(locations, ['ACGTN'[idx] for idx in majority_base_indices]))")]},
    {'name': 'tie mask >= 1 (always true)', 'kind': 'break', 'rules': ['C13-R1'],
     'edits': [(MOLECULE, MASK, MASK.replace(".sum(1) == 1", ".sum(1) >= 1"))]},
    {'name': 'absolute majority instead of unique plurality', 'kind': 'break', 'rules': ['C13-R1'],
     'edits': [(MOLECULE, MASK, "        proper = 2 * v[np.arange(v.shape[0]), majority_base_indices] > v.sum(1)\n")]},
    {'name': 'N continue deleted', 'kind': 'break', 'rules': ['C13-R2'],
     'edits': [(MOLECULE, "                    if q_base == 'N':\n                        continue\n                    #    consensii[position][4] += phred_score", "                    #    consensii[position][4] += phred_score")]},
    {'name': 'votes weighted by phred score', 'kind': 'break', 'rules': ['C13-R2'],
     'edits': [(MOLECULE, "                    consensii[position]['ACGTN'.index(q_base)] += 1\n            except ValueError as e:", "                    consensii[position]['ACGTN'.index(q_base)] += phred_score\n            except ValueError as e:")]},
    {'name': 'try moved around the whole fragment loop', 'kind': 'break', 'rules': ['C13-R2'],
     'edits': [(MOLECULE, "        for fragment in self:\n            if dove_safe and not fragment.has_R2() or not fragment.has_R1():\n                continue\n\n            try:\n", "        try:\n          for fragment in self:\n            if dove_safe and not fragment.has_R2() or not fragment.has_R1():\n                continue\n\n            if True:\n"),
               (MOLECULE, "                    consensii[position]['ACGTN'.index(q_base)] += 1\n            except ValueError as e:\n                # For example: ValueError('This method only works for inwards facing reads')\n                pass\n",
                "                    consensii[position]['ACGTN'.index(q_base)] += 1\n        except ValueError as e:\n            pass\n")]},
    {'name': 'arbitration >= (later mate wins ties)', 'kind': 'break', 'rules': ['C13-R4'],
     'edits': [(SEQUTILS, "        if call[1]>best_q:\n", "        if call[1]>=best_q:\n")]},
    {'name': 'initial best quality 0 (phred-0 calls lose their vote)', 'kind': 'break', 'rules': ['C13-R4'],
     'edits': [(SEQUTILS, "    best_base, best_q = None, -1\n", "    best_base, best_q = None, 0\n")]},
    {'name': 'tie detection ignores the base', 'kind': 'break', 'rules': ['C13-R4'],
     'edits': [(SEQUTILS, "        elif call[1]==best_q and call[0]!=best_base:\n", "        elif call[1]==best_q:\n")]},
    {'name': 'keep: row maximum via np.max', 'kind': 'keep',
     'edits': [(MOLECULE, MASK, "        proper = (v == np.max(v, axis=1)[:, np.newaxis]).sum(1) == 1\n")]},
    {'name': 'keep: mask bound to another name', 'kind': 'keep',
     'edits': [(MOLECULE, MASK, "        unique_maximum = (v == v[np.arange(v.shape[0]), majority_base_indices][:, np.newaxis]).sum(1) == 1\n        proper = unique_maximum\n")]},
]

# the majority step written as a per-position loop (the scalar twin of the vectorised block), with one knob per mutation
VEC = """        locations = np.empty(len(consensii), dtype=object)
        locations[:] = sorted(list(consensii.keys()))

        v = np.vstack([ consensii[location] for location in locations])
        majority_base_indices = np.argmax(v, axis=1)

        # Check if there is ties, this result in multiple hits for argmax (majority_base_indices),
        # such a situtation is of course terrible and should be dropped
        proper = (v == v[np.arange(v.shape[0]), majority_base_indices][:, np.newaxis]).sum(1) == 1

        if with_probs_and_obs:
            return (
                dict(zip(locations[proper], ['ACGTN'[idx] for idx in majority_base_indices[proper]])),
                phred_scores,
                consensii
            )
        else:
            return  dict(zip(locations[proper], ['ACGTN'[idx] for idx in majority_base_indices[proper]]))
"""


def scalar(tie="(votes == votes[winner]).sum() != 1", pick="int(np.argmax(votes))", keys="sorted(consensii)", extra=""):
    return f"""        consensus = dict()
        for location in {keys}:
            votes = consensii[location]
            winner = {pick}
            if {tie}:
                continue
            consensus[location] = 'ACGTN'[winner]
{extra}        if with_probs_and_obs:
            return consensus, phred_scores, consensii
        return consensus
"""


OVERLAYS += [
    {'name': 'keep: per-position loop form of the majority step', 'kind': 'keep', 'edits': [(MOLECULE, VEC, scalar())]},
    {'name': 'keep: per-position loop, tie test via count of the maximum', 'kind': 'keep', 'edits': [(MOLECULE, VEC, scalar(tie="sum(votes == max(votes)) > 1"))]},
    {'name': 'loop form: ties keep the first maximum', 'kind': 'break', 'rules': ['C13-R1'], 'edits': [(MOLECULE, VEC, scalar(tie="(votes == votes[winner]).sum() < 1"))]},
    {'name': 'loop form: absolute majority required', 'kind': 'break', 'rules': ['C13-R1'], 'edits': [(MOLECULE, VEC, scalar(tie="2 * votes[winner] <= votes.sum()"))]},
    {'name': 'loop form: least voted base called', 'kind': 'break', 'rules': ['C13-R1'], 'edits': [(MOLECULE, VEC, scalar(pick="int(np.argmin(votes))", tie="False"))]},
    {'name': 'loop form: consensus pre-filled without the tie test', 'kind': 'break', 'rules': ['C13-R1'],
     'edits': [(MOLECULE, VEC, scalar(extra="        consensus.update({k: 'ACGTN'[int(np.argmax(x))] for k, x in consensii.items()})\n"))]},
]


def zipped(mask="(v == v.max(axis=1, keepdims=True)).sum(axis=1) == 1", pick="np.argmax(v, axis=1)"):
    return f"""        sorted_locations = sorted(consensii)
        v = np.vstack([consensii[location] for location in sorted_locations])
        majority_base_indices = {pick}
        untied = {mask}
        consensus_calls = {{location: 'ACGTN'[idx] for location, idx, keep in zip(sorted_locations, majority_base_indices, untied) if keep}}
        if with_probs_and_obs:
            return consensus_calls, phred_scores, consensii
        return consensus_calls
"""


OVERLAYS += [
    {'name': 'keep: majority step as a dict comprehension over zip(locations, argmax, mask)', 'kind': 'keep', 'edits': [(MOLECULE, VEC, zipped())]},
    {'name': 'zip form: mask keeps ties (>= 1)', 'kind': 'break', 'rules': ['C13-R1'], 'edits': [(MOLECULE, VEC, zipped(mask="(v == v.max(axis=1, keepdims=True)).sum(axis=1) >= 1"))]},
    {'name': 'zip form: argmin picked', 'kind': 'break', 'rules': ['C13-R1'], 'edits': [(MOLECULE, VEC, zipped(pick="np.argmin(v, axis=1)"))]},
]
