from ..rules.slots import MOLECULE, SEQUTILS

MD_FIXED = """            reference_sequence = []
            reference_pointer = reference_start
            for cigar_operation in partial_CIGAR:
                amount = int(cigar_operation[:-1])
                if cigar_operation[-1] == 'M':
                    reference_sequence.append(self.reference.fetch(
                        self.chromosome, reference_pointer, reference_pointer + amount))
                reference_pointer += amount
"""
OVERLAYS = [
    {'name': 'pre-fix F13: np.product', 'kind': 'break', 'rules': ['C15-R1'],
     'edits': [(SEQUTILS, "np.prod(v)/np.power", "np.product(v)/np.power")]},
    {'name': 'removed numpy alias np.float in the confidence dictionary', 'kind': 'break', 'rules': ['C15-R1'],
     'edits': [(MOLECULE, "obs[(self.chromosome, rpos)][qbase].append(1 - np.power(10, -qqual / 10))", "obs[(self.chromosome, rpos)][qbase].append(1 - np.power(10, -np.float(qqual) / 10))")]},
    {'name': 'M length end - start', 'kind': 'break', 'rules': ['C15-R2'],
     'edits': [(MOLECULE, "CIGAR.append(('M', (end - start + 1)))", "CIGAR.append(('M', (end - start)))", 0)]},
    {'name': 'N length start - prev_end', 'kind': 'break', 'rules': ['C15-R2'],
     'edits': [(MOLECULE, "CIGAR.append(('N', start - prev_end - 1))", "CIGAR.append(('N', start - prev_end))", 0)]},
    {'name': 'reference position not advanced when the N is kept', 'kind': 'break', 'rules': ['C15-R2'],
     'edits': [(MOLECULE, "                    query_index_start += sum((len(s) for s in partial_sequence))\n\n                reference_position += amount\n", "                    query_index_start += sum((len(s) for s in partial_sequence))\n                    continue\n\n                reference_position += amount\n")]},
    {'name': 'qualities appended for the first M block only', 'kind': 'break', 'rules': ['C15-R2'],
     'edits': [(MOLECULE, "                partial_sequence.append(predicted_sequence)\n                partial_phred.append(phred_scores)\n", "                partial_sequence.append(predicted_sequence)\n                if not partial_phred:\n                    partial_phred.append(phred_scores)\n", 0)]},
    {'name': 'sequence cleared but qualities kept at a large gap', 'kind': 'break', 'rules': ['C15-R2'],
     'edits': [(MOLECULE, "                    partial_sequence = []\n                    partial_phred = []\n                else:", "                    partial_sequence = []\n                else:")]},
    {'name': 'stretch fetched one base short', 'kind': 'break', 'rules': ['C15-R2'],
     'edits': [(MOLECULE, "self.extract_stretch_from_dict(obs, start_fetch, reference_end)", "self.extract_stretch_from_dict(obs, start_fetch, reference_end - 1)")]},
    {'name': 'qualities range differs from bases range', 'kind': 'break', 'rules': ['C15-R2'],
     'edits': [(MOLECULE, "[base_call_dict.get((self.chromosome, pos), ('N', 0))[1] for pos in range(alignment_start, alignment_end)])", "[base_call_dict.get((self.chromosome, pos), ('N', 0))[1] for pos in range(alignment_start, alignment_end + 1)])")]},
    {'name': 'tie no longer gives N (strict comparison)', 'kind': 'break', 'rules': ['C15-R3'],
     'edits': [(SEQUTILS, "base_probs[0][1] == base_probs[1][1]):", "base_probs[0][1] < base_probs[1][1]):")]},
    {'name': 'tie test requires three candidates', 'kind': 'break', 'rules': ['C15-R3'],
     'edits': [(SEQUTILS, "(len(base_probs) >= 2 and", "(len(base_probs) > 2 and")]},
    {'name': 'default CIGAR one short', 'kind': 'break', 'rules': ['C15-R4'],
     'edits': [(MOLECULE, "cread.cigarstring = f'{len(sequence)}M'", "cread.cigarstring = f'{len(sequence) - 1}M'")]},
    {'name': 'SM tag only written when a UMI is present', 'kind': 'break', 'rules': ['C15-R4'],
     'edits': [(MOLECULE, "        for read in reads:\n            read.set_tag('SM', self.sample)\n            if hasattr(self, 'get_cut_site'):", "        for read in reads:\n            if self.umi is not None:\n                read.set_tag('SM', self.sample)\n            if hasattr(self, 'get_cut_site'):")]},
    {'name': 'pre-fix F21: MD from the contiguous span', 'kind': 'break', 'rules': ['C15-R4'],
     'edits': [(MOLECULE, "                    ''.join(reference_sequence),\n                    ''.join(partial_sequence)\n", "                    self.reference.fetch(self.chromosome, reference_start, reference_end),\n                    ''.join(partial_sequence)\n")]},
    {'name': 'MD reference fetched for N operations as well', 'kind': 'break', 'rules': ['C15-R4'],
     'edits': [(MOLECULE, "                if cigar_operation[-1] == 'M':\n                    reference_sequence.append(self.reference.fetch(\n                        self.chromosome, reference_pointer, reference_pointer + amount))\n", "                reference_sequence.append(self.reference.fetch(\n                    self.chromosome, reference_pointer, reference_pointer + amount))\n")]},
    {'name': 'pre-fix F23: get_cut_site()[1] unguarded', 'kind': 'break', 'rules': ['C15-R4'],
     'edits': [(MOLECULE, "                cut_site = self.get_cut_site()\n                if cut_site is not None:\n                    read.set_tag('DS', cut_site[1])\n", "                read.set_tag('DS', self.get_cut_site()[1])\n")]},
    {'name': 'consensus qualities taken from another list', 'kind': 'break', 'rules': ['C15-R4'],
     'edits': [(MOLECULE, "phred_scores= array('B', np.concatenate(partial_phred)),", "phred_scores= array('B', np.concatenate(partial_MD)),")]},
    {'name': 'likelihood normalised with the number of bases instead of the observations of the base', 'kind': 'break', 'rules': ['C15-R5'],
     'edits': [(SEQUTILS, "np.power(0.25, len(v)-1)", "np.power(0.25, len(probs)-1)")]},
    {'name': 'MD letters not upper-cased', 'kind': 'break', 'rules': ['C15-R5'],
     'edits': [(SEQUTILS, "zip(reference_seq.upper(), query_seq)", "zip(reference_seq, query_seq)")]},
    # keep
    {'name': 'keep: from numpy import prod', 'kind': 'keep',
     'edits': [(SEQUTILS, "np.prod(v)/np.power", "numpy_prod(v)/np.power"), (SEQUTILS, "def base_probabilities_to_likelihood(probs: dict):", "from numpy import prod as numpy_prod\n\n\ndef base_probabilities_to_likelihood(probs: dict):")]},
    {'name': 'keep: M length written as 1 + end - start', 'kind': 'keep',
     'edits': [(MOLECULE, "CIGAR.append(('M', (end - start + 1)))", "CIGAR.append(('M', 1 + end - start))", 0)]},
    {'name': 'keep: tie test reordered', 'kind': 'keep',
     'edits': [(SEQUTILS, "if len(base_probs) == 0 or (len(base_probs) >= 2 and base_probs[0][1] == base_probs[1][1]):", "if (len(base_probs) > 1 and base_probs[1][1] == base_probs[0][1]) or len(base_probs) < 1:")]},
]

AB_OLD = """        return find_ranges(
            sorted(list(set(
                (ref_pos
                 for read in self.iter_reads()
                 for q_pos, ref_pos in read.get_aligned_pairs(matches_only=True, with_seq=False)))))
        )
"""


def _ab_merge(new_end):
    return f"""        blocks = sorted(
            (start, end - 1)
            for read in self.iter_reads()
            for start, end in read.get_blocks())
        merged = []
        for start, end in blocks:
            if len(merged) and start <= merged[-1][1] + 1:
                merged[-1] = (merged[-1][0], {new_end})
            else:
                merged.append((start, end))
        return merged
"""


OVERLAYS += [
    {'name': 'keep: aligned blocks by merging the pysam blocks of the reads', 'kind': 'keep', 'edits': [(MOLECULE, AB_OLD, _ab_merge('max(merged[-1][1], end)'))]},
    {'name': 'block merge takes the end of the incoming block (nested block truncates)', 'kind': 'break', 'rules': ['C15-R6'], 'edits': [(MOLECULE, AB_OLD, _ab_merge('end'))]},
    {'name': 'block merge joins blocks only when they overlap (adjacent blocks stay split)', 'kind': 'break', 'rules': ['C15-R6'],
     'edits': [(MOLECULE, AB_OLD, _ab_merge('max(merged[-1][1], end)').replace('start <= merged[-1][1] + 1', 'start <= merged[-1][1] - 1'))]},
    {'name': 'deduplicate_majority reads the cached base_confidences', 'kind': 'break', 'rules': ['C15-R7'],
     'edits': [(MOLECULE, "        obs = self.get_base_confidence_dict()\n\n        reads = list(self.get_dedup_reads(", "        obs = self.base_confidences\n\n        reads = list(self.get_dedup_reads(")]},
]
