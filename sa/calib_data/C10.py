from ..rules.slots import COUNTTABLE, BINNING

FIRST = "    start_id = int(np.floor(((dp - bin_size) / sliding_increment))) + 1\n"
LAST = "    end_id = int(np.floor(dp / sliding_increment))\n"
OVERLAYS = [
    {'name': 'pre-fix F11 in bamToCountTable: ceil((p-b)/s)', 'kind': 'break', 'rules': ['C10-R1'],
     'edits': [(COUNTTABLE, FIRST, "    start_id = int(np.ceil(((dp - bin_size) / sliding_increment)))\n")]},
    {'name': 'pre-fix F11 in utils.binning only: siblings disagree', 'kind': 'break', 'rules': ['C10-R1', 'C10-R2'],
     'edits': [(BINNING, FIRST, "    start_id = int(np.ceil(((dp - bin_size) / sliding_increment)))\n")]},
    {'name': 'int() truncation instead of floor for the first index', 'kind': 'break', 'rules': ['C10-R1'],
     'edits': [(COUNTTABLE, FIRST, "    start_id = int((dp - bin_size) / sliding_increment) + 1\n")]},
    {'name': 'last index floor(p/s) + 1', 'kind': 'break', 'rules': ['C10-R1'],
     'edits': [(COUNTTABLE, LAST, "    end_id = int(np.floor(dp / sliding_increment)) + 1\n")]},
    {'name': 'last index uses ceil', 'kind': 'break', 'rules': ['C10-R1'],
     'edits': [(BINNING, LAST, "    end_id = int(np.ceil(dp / sliding_increment))\n")]},
    {'name': 'first index relative to p/s (bin size forgotten)', 'kind': 'break', 'rules': ['C10-R1'],
     'edits': [(COUNTTABLE, FIRST, "    start_id = int(np.floor((dp / sliding_increment))) + 1\n")]},
    {'name': 'range(first, last) excludes the last window', 'kind': 'break', 'rules': ['C10-R3'],
     'edits': [(COUNTTABLE, "            for i in range(start_id, end_id + 1)]", "            for i in range(start_id, end_id)]")]},
    {'name': 'window end uses the increment instead of the bin size', 'kind': 'break', 'rules': ['C10-R3'],
     'edits': [(BINNING, "    return [(i * sliding_increment, i * sliding_increment + bin_size)", "    return [(i * sliding_increment, i * sliding_increment + sliding_increment)")]},
    {'name': 'bounds test end >= contig length', 'kind': 'break', 'rules': ['C10-R4'],
     'edits': [(COUNTTABLE, "start < 0 or end > args.ref_lengths[read.reference_name])", "start < 0 or end >= args.ref_lengths[read.reference_name])")]},
    {'name': 'bounds test start <= 0', 'kind': 'break', 'rules': ['C10-R4'],
     'edits': [(COUNTTABLE, "start < 0 or end > args.ref_lengths[read.reference_name])", "start <= 0 or end > args.ref_lengths[read.reference_name])")]},
    {'name': 'bounds test ignores keepOverBounds polarity', 'kind': 'break', 'rules': ['C10-R4'],
     'edits': [(COUNTTABLE, "if not args.keepOverBounds and (", "if args.keepOverBounds and (")]},
    {'name': 'binned with the bin size as increment although sliding was requested', 'kind': 'break', 'rules': ['C10-R4'],
     'edits': [(COUNTTABLE, "int(value_to_be_binned), args.bin, args.sliding):", "int(value_to_be_binned), args.bin, args.bin):")]},
    # keep
    {'name': 'keep: floor division', 'kind': 'keep',
     'edits': [(COUNTTABLE, FIRST, "    start_id = (dp - bin_size) // sliding_increment + 1\n"), (COUNTTABLE, LAST, "    end_id = dp // sliding_increment\n"),
               (BINNING, FIRST, "    start_id = (dp - bin_size) // sliding_increment + 1\n"), (BINNING, LAST, "    end_id = dp // sliding_increment\n")]},
    {'name': 'keep: math.floor', 'kind': 'keep',
     'edits': [(COUNTTABLE, FIRST, "    start_id = 1 + math.floor((dp - bin_size) / sliding_increment)\n"), (BINNING, FIRST, "    start_id = 1 + math.floor((dp - bin_size) / sliding_increment)\n")]},
    {'name': 'keep: bounds predicate rewritten', 'kind': 'keep',
     'edits': [(COUNTTABLE, "if not args.keepOverBounds and (\n                        start < 0 or end > args.ref_lengths[read.reference_name]):",
                "if not (args.keepOverBounds or (0 <= start and args.ref_lengths[read.reference_name] >= end)):")]},
]
