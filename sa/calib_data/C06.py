from ..rules.slots import MOLECULE, FRAGMENT, FRAG_NLA, FRAG_CHIC, BTM

DUP_FIXED = """            for read in frag:
                if read is not None:
                    read.is_duplicate = rc > 0
"""
OVERLAYS = [
    {'name': 'pre-fix F31: -umi_hamming_distance stored in molecule_class_args only', 'kind': 'break', 'rules': ['C06-R8'],
     'edits': [(BTM, "        'read_group_format' : args.read_group_format,\n        'umi_hamming_distance': args.umi_hamming_distance\n", "        'read_group_format' : args.read_group_format\n")]},
    {'name': 'assignment radius handed to the molecule classes', 'kind': 'break', 'rules': ['C06-R8'],
     'edits': [(BTM, "        fragment_class_args['assignment_radius'] = args.assignment_radius\n", "        molecule_class_args['assignment_radius'] = args.assignment_radius\n")]},
    {'name': 'UMI distance removed from the (unused) molecule arguments', 'kind': 'keep', 'rules': [],
     'edits': [(BTM, "        'umi_hamming_distance': args.umi_hamming_distance,\n        'reference': reference\n", "        'reference': reference\n")]},
    {'name': 'pre-fix F8: duplicate bit only ever set', 'kind': 'break', 'rules': ['C06-R1'],
     'edits': [(MOLECULE, DUP_FIXED, "            if rc > 0:\n                for read in frag:\n                    if read is not None:\n                        read.is_duplicate = True\n")]},
    {'name': 'duplicate from rank > 1', 'kind': 'break', 'rules': ['C06-R1'],
     'edits': [(MOLECULE, "                    read.is_duplicate = rc > 0\n", "                    read.is_duplicate = rc > 1\n")]},
    {'name': 'set_duplicate(True) for later fragments only', 'kind': 'break', 'rules': ['C06-R1'],
     'edits': [(MOLECULE, DUP_FIXED, "            if rc > 0:\n                frag.set_duplicate(True)\n")]},
    {'name': 'af from a different container', 'kind': 'break', 'rules': ['C06-R2'],
     'edits': [(MOLECULE, "        self.set_meta('af', len(self))\n", "        self.set_meta('af', len(self.umi_counter))\n")]},
    {'name': 'RC counted from 1', 'kind': 'break', 'rules': ['C06-R2'],
     'edits': [(MOLECULE, "        for rc, frag in enumerate(self):\n            frag.set_meta('RC', rc)", "        for rc, frag in enumerate(self, 1):\n            frag.set_meta('RC', rc)")]},
    {'name': 'pre-fix F24: contig not compared', 'kind': 'break', 'rules': ['C06-R3'],
     'edits': [(FRAGMENT, "        if self.span[0] != other.span[0]:\n            return False\n", "")]},
    {'name': 'strand not compared', 'kind': 'break', 'rules': ['C06-R3'],
     'edits': [(FRAGMENT, "        if self.strand != other.strand:\n            return False\n\n        if not self.has_valid_span()", "        if not self.has_valid_span()")]},
    {'name': 'radius test uses max of start/end distance', 'kind': 'break', 'rules': ['C06-R3'],
     'edits': [(FRAGMENT, "        if self.span[0] != other.span[0]:\n            return False\n\n        if min(abs(self.span[1] -", "        if self.span[0] != other.span[0]:\n            return False\n\n        if max(abs(self.span[1] -")]},
    {'name': 'UMI distance strictly below the limit', 'kind': 'break', 'rules': ['C06-R3'],
     'edits': [(FRAGMENT, "                self.umi, other.umi) <= self.umi_hamming_distance", "                self.umi, other.umi) < self.umi_hamming_distance")]},
    {'name': 'NlaIII match hash without the sample', 'kind': 'break', 'rules': ['C06-R3'],
     'edits': [(FRAG_NLA, "                    self.site_location[1],\n                    self.sample)\n        else:", "                    self.site_location[1])\n        else:")]},
    {'name': 'CHIC radius test >=', 'kind': 'break', 'rules': ['C06-R3'],
     'edits': [(FRAG_CHIC, "abs(self.site_location[1]-other.site_location[1])>self.assignment_radius:", "abs(self.site_location[1]-other.site_location[1])>=self.assignment_radius:")]},
    {'name': 'keep: flag bound to a local first', 'kind': 'keep',
     'edits': [(MOLECULE, DUP_FIXED, "            is_dup = rc > 0\n            for read in frag:\n                if read is not None:\n                    read.is_duplicate = rc >= 1\n")]},
    {'name': 'keep: set_duplicate(rc > 0)', 'kind': 'keep',
     'edits': [(MOLECULE, DUP_FIXED, "            frag.set_duplicate(rc > 0)\n")]},
]
