from ..rules.slots import LOADER, BASEDEMUX, FQITER, FQHANDLE, HANDLELIM

GENERIC_FIX = """                    # The read (pair) was not demultiplexed: keep it in the
                    # rejects and do not count it as yield of the strategy
                    if rejectHandle is not None:
                        rejectHandle.write([
                            '\\n'.join(
                                (read.header +
                                 f';RR:error;Rr:{type(e).__name__}',
                                 read.sequence,
                                 read.plus,
                                 read.qual)) + '\\n' for read in reads])
                    continue
"""
OVERLAYS = [
    {'name': 'pre-fix F2: generic exception arm falls through to the counter', 'kind': 'break', 'rules': ['C01-R1'],
     'edits': [(LOADER, GENERIC_FIX, "")]},
    {'name': 'generic arm rejects but still counts (continue dropped)', 'kind': 'break', 'rules': ['C01-R1'],
     'edits': [(LOADER, "                                 read.qual)) + '\\n' for read in reads])\n                    continue\n", "                                 read.qual)) + '\\n' for read in reads])\n")]},
    {'name': 'continue only when a reject handle exists', 'kind': 'break', 'rules': ['C01-R1'],
     'edits': [(LOADER, "                                 read.qual)) + '\\n' for read in reads])\n                    continue\n", "                                 read.qual)) + '\\n' for read in reads])\n                        continue\n")]},
    {'name': 'NonMultiplexable arm without continue', 'kind': 'break', 'rules': ['C01-R1'],
     'edits': [(LOADER, "                            rejectHandle.write(to_write)\n\n                    continue\n", "                            rejectHandle.write(to_write)\n\n")]},
    {'name': 'counter moved into the try before the write', 'kind': 'break', 'rules': ['C01-R1'],
     'edits': [(LOADER, "                    if targetFile is not None:\n                        targetFile.write(recodedRecords)\n", "                    strategyYields[strategy.shortName] += 1\n                    if targetFile is not None:\n                        targetFile.write(recodedRecords)\n"),
               (LOADER, "                # print(recodedRecord)\n                strategyYields[strategy.shortName] += 1\n", "                # print(recodedRecord)\n")]},
    {'name': 'rejected pairs written to the accepted file as well', 'kind': 'break', 'rules': ['C01-R1'],
     'edits': [(LOADER, "                            rejectHandle.write(to_write)\n\n                        except NonMultiplexable as e:", "                            rejectHandle.write(to_write)\n                            targetFile.write(to_write)\n\n                        except NonMultiplexable as e:")]},
    {'name': 'pre-fix F1: clamp to len(table)', 'kind': 'break', 'rules': ['C01-R3'],
     'edits': [(BASEDEMUX, "len(string.ascii_letters) - 1)]", "len(string.ascii_letters))]")]},
    {'name': 'lower clamp dropped', 'kind': 'break', 'rules': ['C01-R3'],
     'edits': [(BASEDEMUX, "min(max(0, ord(phred) - 33), len(string.ascii_letters) - 1)", "min(ord(phred) - 33, len(string.ascii_letters) - 1)")]},
    {'name': 'decoder offset drift', 'kind': 'break', 'rules': ['C01-R3'],
     'edits': [(BASEDEMUX, "chr(string.ascii_letters.index(v) + 33)", "chr(string.ascii_letters.index(v) + 32)")]},
    {'name': 'asFastq without trailing newline', 'kind': 'break', 'rules': ['C01-R4'],
     'edits': [(BASEDEMUX, "return f'@{header}\\n{sequence}\\n{dirAtt}\\n{baseQualities}\\n'", "return f'@{header}\\n{sequence}\\n{dirAtt}\\n{baseQualities}'")]},
    {'name': 'pre-fix F3: fallback reject without newline', 'kind': 'break', 'rules': ['C01-R4'],
     'edits': [(LOADER, "                                     read.qual)) + '\\n' for read in reads]\n                            rejectHandle.write(to_write)", "                                     read.qual)) for read in reads]\n                            rejectHandle.write(to_write)")]},
    {'name': 'fallback reject with 3 fields (plus line dropped)', 'kind': 'break', 'rules': ['C01-R4'],
     'edits': [(LOADER, "                                     read.sequence,\n                                     read.plus,\n                                     read.qual)) + '\\n' for read in reads]\n                            rejectHandle.write(to_write)", "                                     read.sequence,\n                                     read.qual)) + '\\n' for read in reads]\n                            rejectHandle.write(to_write)")]},
    {'name': 'three readline calls', 'kind': 'break', 'rules': ['C01-R5'],
     'edits': [(FQITER, "                handle.readline().rstrip(),\n                handle.readline().rstrip()\n            )", "                handle.readline().rstrip(),\n                ''\n            )")]},
    {'name': 'EOF tested on the sequence line', 'kind': 'break', 'rules': ['C01-R5'],
     'edits': [(FQITER, "len(rec.header) == 0 for rec in records", "len(rec.sequence) == 0 for rec in records")]},
    {'name': 'R2 opened before R1', 'kind': 'break', 'rules': ['C01-R6'],
     'edits': [(FQHANDLE, "                        'R1.fastq.gz',\n                        'wt',compresslevel=1),\n                    gzip.open(\n                        path +\n                        'R2.fastq.gz',", "                        'R2.fastq.gz',\n                        'wt',compresslevel=1),\n                    gzip.open(\n                        path +\n                        'R1.fastq.gz',")]},
    {'name': 'cut-off inside the per-strategy loop', 'kind': 'break', 'rules': ['C01-R7'],
     'edits': [(LOADER, "                strategyYields[strategy.shortName] += 1\n            if (maxReadPairs is not None and (\n                    processedReadPairs) >= maxReadPairs):\n                break\n", "                strategyYields[strategy.shortName] += 1\n                if (maxReadPairs is not None and (\n                        processedReadPairs) >= maxReadPairs):\n                    break\n")]},
    {'name': 'cut-off one pair late', 'kind': 'break', 'rules': ['C01-R7'],
     'edits': [(LOADER, "processedReadPairs) >= maxReadPairs):", "processedReadPairs) > maxReadPairs):")]},
    {'name': 'HandleLimiter.close forgets the written files (per-cell output truncated after recovery)', 'kind': 'break', 'rules': ['C01-R8'],
     'edits': [(HANDLELIM, "        for delete in destroyed:\n            self.openHandles.pop(delete)\n", "        for delete in destroyed:\n            self.openHandles.pop(delete)\n        self.seen = set()\n")]},
    # keep
    {'name': 'keep: reject arm extracted into a conditional expression free helper variable', 'kind': 'keep',
     'edits': [(LOADER, "                    if targetFile is not None:\n                        targetFile.write(recodedRecords)\n", "                    if targetFile is None:\n                        pass\n                    else:\n                        targetFile.write(recodedRecords)\n")]},
    {'name': 'keep: record built with join + newline', 'kind': 'keep',
     'edits': [(BASEDEMUX, "return f'@{header}\\n{sequence}\\n{dirAtt}\\n{baseQualities}\\n'", "return '\\n'.join(('@' + header, sequence, dirAtt, baseQualities)) + '\\n'")]},
    {'name': 'keep: clamp operand order', 'kind': 'keep',
     'edits': [(BASEDEMUX, "min(max(0, ord(phred) - 33), len(string.ascii_letters) - 1)", "max(0, min(len(string.ascii_letters) - 1, ord(phred) - 33))")]},
]
