from ..rules.slots import BTM, TAGGING, BAMFUNC, MOLITER, FRAGMENT

LOOP_FIXED = """        for contig,contig_len in get_contigs_with_reads(input_bam_path, True):
            if contig=='*':
                # The unmapped reads already have their own job
                continue
            if contig_len<small_contig_threshold:
                current.append( (contig,None,None,None,None) )
            else:
                job_gen.append([ (contig,None,None,None,None), ])
        if len(current)>0:
            job_gen.append(current)
"""
LOOP_PREFIX = """        for contig,contig_len in get_contigs_with_reads(input_bam_path, True):
            if contig_len<small_contig_threshold:
                current.append( (contig,None,None,None,None) )
            else:
                if len(current)>1:
                    job_gen.append(current)
                    current=[]
                else:
                    job_gen.append([ (contig,None,None,None,None), ])
        if len(current)>1:
            job_gen.append(current)
"""
OVERLAYS = [
    {'name': 'pre-fix F7: job list drops large contigs / lone small contig / duplicates *', 'kind': 'break', 'rules': ['C05-R1', 'C05-R2'],
     'edits': [(BTM, LOOP_FIXED, LOOP_PREFIX)]},
    {'name': 'flush guard > 1 (a single small contig is lost)', 'kind': 'break', 'rules': ['C05-R1'],
     'edits': [(BTM, "        if len(current)>0:\n            job_gen.append(current)\n", "        if len(current)>1:\n            job_gen.append(current)\n")]},
    {'name': "'*' guard removed", 'kind': 'break', 'rules': ['C05-R2'],
     'edits': [(BTM, "            if contig=='*':\n                # The unmapped reads already have their own job\n                continue\n", "")]},
    {'name': 'large contig appended to both lists', 'kind': 'break', 'rules': ['C05-R1'],
     'edits': [(BTM, "                job_gen.append([ (contig,None,None,None,None), ])\n        if len(current)>0:", "                job_gen.append([ (contig,None,None,None,None), ])\n                current.append( (contig,None,None,None,None) )\n        if len(current)>0:")]},
    {'name': 'small contigs only queued when at least 1000 bp', 'kind': 'break', 'rules': ['C05-R1'],
     'edits': [(BTM, "            if contig_len<small_contig_threshold:\n                current.append( (contig,None,None,None,None) )\n", "            if contig_len<1000:\n                continue\n            if contig_len<small_contig_threshold:\n                current.append( (contig,None,None,None,None) )\n")]},
    {'name': 'enumerator ignores contigs with only unmapped placed reads', 'kind': 'break', 'rules': ['C05-R1'],
     'edits': [(BAMFUNC, "            if mapped_reads>0 or unmapped_reads>0:", "            if mapped_reads>0:")]},
    {'name': 'chain with the mapped iterator only', 'kind': 'break', 'rules': ['C05-R3'],
     'edits': [(BTM, "                molecule_iterator(input_bam, **molecule_iterator_args_wo_alignment_unmapped), molecule_iterator(input_bam, **molecule_iterator_args_wo_alignment),", "                molecule_iterator(input_bam, **molecule_iterator_args_wo_alignment),")]},
    {'name': 'yield_invalid defaults to off', 'kind': 'break', 'rules': ['C05-R4'],
     'edits': [(BTM, "    yield_invalid = True  # if invalid reads should be written", "    yield_invalid = False  # if invalid reads should be written")]},
    {'name': 'rejects also dropped when a fragment size limit is given', 'kind': 'break', 'rules': ['C05-R4'],
     'edits': [(BTM, "        fragment_class_args['max_fragment_size'] = args.max_fragment_size\n", "        fragment_class_args['max_fragment_size'] = args.max_fragment_size\n        yield_invalid = False\n")]},
    {'name': 'iterator deletes invalid fragments although yield_invalid', 'kind': 'break', 'rules': ['C05-R4'],
     'edits': [(MOLITER, "                if self.yield_invalid:\n", "                if self.yield_invalid and self.yield_overflow:\n")]},
    {'name': 'pysam.index removed from sort_and_index', 'kind': 'break', 'rules': ['C05-R5'],
     'edits': [(BAMFUNC, "    pysam.index(sorted_path, '-@ 4')\n", "")]},
    {'name': 'read groups collected for the first fragment only (single process)', 'kind': 'break', 'rules': ['C05-R6'],
     'edits': [(BTM, "                for fragment in molecule:\n                    rgid = fragment.get_read_group()\n                    if not rgid in read_groups:\n                        read_groups[rgid] = fragment.get_read_group(True)[1]\n",
                "                rgid = molecule[0].get_read_group()\n                if not rgid in read_groups:\n                    read_groups[rgid] = molecule[0].get_read_group(True)[1]\n")]},
    {'name': 'RG tag no longer written by Fragment.write_tags', 'kind': 'break', 'rules': ['C05-R6'],
     'edits': [(FRAGMENT, "        self.set_meta('RG', self.get_read_group())\n", "")]},
    {'name': 'worker molecule counter overwritten per task', 'kind': 'break', 'rules': ['C05-R7'],
     'edits': [(TAGGING, "total_molecules += statistics.get('total_molecules_written', 0)", "total_molecules = statistics.get('total_molecules_written', 0)")]},
    {'name': 'parent drops the append of worker results', 'kind': 'break', 'rules': ['C05-R7'],
     'edits': [(BTM, "            if bam is not None:\n                bam_files_generated.append(bam)\n", "            if bam is None:\n                bam_files_generated.append(bam)\n")]},
    {'name': 'task key renamed in the producer only', 'kind': 'break', 'rules': ['C05-R7'],
     'edits': [(TAGGING, "                'fetch_end': fetch_end,\n", "                'fetchEnd': fetch_end,\n")]},
    # keep
    {'name': "keep: '*' excluded with != guard around the body", 'kind': 'keep',
     'edits': [(BTM, LOOP_FIXED, """        for contig,contig_len in get_contigs_with_reads(input_bam_path, True):
            if contig!='*':
                if contig_len<small_contig_threshold:
                    current.append( (contig,None,None,None,None) )
                else:
                    job_gen.append([ (contig,None,None,None,None), ])
        if len(current)>=1:
            job_gen.append(current)
""")]},
    {'name': 'keep: flush test on truthiness', 'kind': 'keep',
     'edits': [(BTM, "        if len(current)>0:\n            job_gen.append(current)\n", "        if current:\n            job_gen.append(current)\n")]},
]
