from ..rules.slots import BTM, TAGGING, BINCOUNTS

SKIP = "                if cut_site_contig!=contig or cut_site_pos<start or cut_site_pos>=end: # End is exclusive\n"
OVERLAYS = [
    {'name': 'pre-fix F30: the job stops at the first molecule at or behind the end of its fetch window', 'kind': 'break', 'rules': ['C08-R2'],
     'edits': [(TAGGING, "                if cut_site_pos>=fetch_end:\n                    continue\n", "                if cut_site_pos>=fetch_end:\n                    break\n")]},
    {'name': 'ownership end test > (site on the boundary owned by two jobs)', 'kind': 'break', 'rules': ['C08-R1'],
     'edits': [(TAGGING, SKIP, "                if cut_site_contig!=contig or cut_site_pos<start or cut_site_pos>end: # End is exclusive\n")]},
    {'name': 'ownership start test <= (site on the boundary owned by no job)', 'kind': 'break', 'rules': ['C08-R1'],
     'edits': [(TAGGING, SKIP, "                if cut_site_contig!=contig or cut_site_pos<=start or cut_site_pos>=end: # End is exclusive\n")]},
    {'name': 'contig disjunct dropped', 'kind': 'break', 'rules': ['C08-R1'],
     'edits': [(TAGGING, SKIP, "                if cut_site_pos<start or cut_site_pos>=end: # End is exclusive\n")]},
    {'name': 'ownership tested on the fetch window', 'kind': 'break', 'rules': ['C08-R1'],
     'edits': [(TAGGING, SKIP, "                if cut_site_contig!=contig or cut_site_pos<fetch_start or cut_site_pos>=fetch_end: # End is exclusive\n")]},
    {'name': 'stop at the bin end instead of the fetch end', 'kind': 'break', 'rules': ['C08-R2'],
     'edits': [(TAGGING, "                if cut_site_pos>=fetch_end:\n                    continue\n", "                if cut_site_pos>=end:\n                    break\n")]},
    {'name': 'reads fetched from the bin only', 'kind': 'break', 'rules': ['C08-R2'],
     'edits': [(TAGGING, "contig=contig, start=fetch_start, end=fetch_end, # Region", "contig=contig, start=start, end=end, # Region")]},
    {'name': 'fetch_end key renamed in the producer only', 'kind': 'break', 'rules': ['C08-R3'],
     'edits': [(TAGGING, "                'fetch_end': fetch_end,\n", "                'fetchend': fetch_end,\n")]},
    {'name': 'worker counter overwritten', 'kind': 'break', 'rules': ['C08-R3'],
     'edits': [(TAGGING, "total_molecules += statistics.get('total_molecules_written', 0)", "total_molecules = statistics.get('total_molecules_written', 0)")]},
    {'name': 'left fetch margin lost after the first bin', 'kind': 'break', 'rules': ['C08-R4'],
     'edits': [(BINCOUNTS, "                fs = max(gap_start, pos_s - fragment_size)\n", "                fs = max(current, pos_s - fragment_size)\n")]},
    {'name': 'margin of the chic method set to zero', 'kind': 'break', 'rules': ['C08-R4'],
     'edits': [(BTM, "        bp_per_job = 5_000_000\n        bp_per_segment = 50_000\n        fragment_size = 1000\n", "        bp_per_job = 5_000_000\n        bp_per_segment = 50_000\n        fragment_size = 0\n", 0)]},
    {'name': 'keep: ownership written as not (start <= pos < end)', 'kind': 'keep',
     'edits': [(TAGGING, SKIP, "                if cut_site_contig!=contig or not (start <= cut_site_pos < end):\n")]},
]
