"""Static analysis of BuysDB/SingleCellMultiOmics against /verif/properties.jsonl (see DESIGN.md)."""
