"""Semantics-preserving canonicalisation of a parsed module, applied before any rule looks at it (DESIGN section 9).

The rules decide properties of the *current* source; this pass only removes spelling differences that cannot change behaviour, so
that maintenance edits of that kind cannot change a verdict:

  N1  annotations and docstrings are dropped (`def f(a: int) -> bool`, `x: int = 3` -> `x = 3`);
  N2  a single comparison `a > b` / `a >= b` is written `b < a` / `b <= a` (analysis only: evaluation order of the operands is not modelled
      by any rule);
      `0 == x` / `0 != x` get the constant on the right;
  N3  negations are pushed inwards: `not (a or b)` -> `not a and not b`, `not (a and b)` -> `not a or not b`, `not not a` -> `a`,
      `not a == b` -> `a != b`, `not a is None` -> `a is not None`, `not a in b` -> `a not in b` (not applied to `<`/`<=`: NaN, None);
  N4  a statement whose value is a conditional expression becomes an if-statement:  `x = a if c else b`, `x += ...`, `return ...`;
  N12 `getattr(x, 'name')` (literal name, no default) -> `x.name`;
  N11 conditions with a constant test are folded (`a if True else b` -> `a`, `if False: ..` removed) - applied after N6;
  N10 `for i, X in enumerate(IT)` with `i` never read -> `for X in IT`;
  N9  `x = []` + `for T in IT: [if C:] x.append(E)`  ->  `x = [E for T in IT if C]` (same for set()/add);
  N8  `a, b = x, y` becomes `a = x; b = y` when no target occurs in a later value (applied after N6);
  N5  (see alpha.py) locals are renamed to the spelling of the reference snapshot when their use-signature identifies them;
  N6  (see inline.py) calls of private helpers that do not exist in the reference snapshot are inlined when they are simple enough.

Line numbers of the original statements are kept on everything that is produced.
"""
import ast
import copy

NEG = {ast.Eq: ast.NotEq, ast.NotEq: ast.Eq, ast.Is: ast.IsNot, ast.IsNot: ast.Is, ast.In: ast.NotIn, ast.NotIn: ast.In}
FLIP = {ast.Gt: ast.Lt, ast.GtE: ast.LtE}


def _strip_doc(body):
    if body and isinstance(body[0], ast.Expr) and isinstance(body[0].value, ast.Constant) and isinstance(body[0].value.value, str):
        rest = body[1:]
        return rest if rest else [ast.copy_location(ast.Pass(), body[0])]
    return body


def push_not(e):
    """`not e` with the negation pushed inwards (returns a new expression)"""
    if isinstance(e, ast.UnaryOp) and isinstance(e.op, ast.Not):
        return e.operand
    if isinstance(e, ast.BoolOp):
        op = ast.And() if isinstance(e.op, ast.Or) else ast.Or()
        return ast.copy_location(ast.BoolOp(op=op, values=[push_not(v) for v in e.values]), e)
    if isinstance(e, ast.Compare) and len(e.ops) == 1 and type(e.ops[0]) in NEG:
        return ast.copy_location(ast.Compare(left=e.left, ops=[NEG[type(e.ops[0])]()], comparators=e.comparators), e)
    return ast.copy_location(ast.UnaryOp(op=ast.Not(), operand=e), e)


class Normalizer(ast.NodeTransformer):
    def __init__(self):
        self.counts = {'annotations': 0, 'docstrings': 0, 'flipped': 0, 'negations': 0, 'ifexp': 0}

    # N1
    def _fn(self, node):
        for a in list(node.args.posonlyargs) + list(node.args.args) + list(node.args.kwonlyargs) + [x for x in (node.args.vararg, node.args.kwarg) if x]:
            if a.annotation is not None:
                a.annotation = None
                self.counts['annotations'] += 1
        if node.returns is not None:
            node.returns = None
            self.counts['annotations'] += 1
        nb = _strip_doc(node.body)
        if nb is not node.body:
            self.counts['docstrings'] += 1
            node.body = nb
        self.generic_visit(node)
        return node
    visit_FunctionDef = _fn
    visit_AsyncFunctionDef = _fn

    def visit_ClassDef(self, node):
        node.body = _strip_doc(node.body)
        self.generic_visit(node)
        return node

    # N44: `with suppress(E): BODY` is `try: BODY / except E: pass`
    def visit_With(self, node):
        self.generic_visit(node)
        if len(node.items) == 1 and node.items[0].optional_vars is None and isinstance(node.items[0].context_expr, ast.Call) \
                and ast.unparse(node.items[0].context_expr.func) in ('suppress', 'contextlib.suppress') and node.items[0].context_expr.args and not node.items[0].context_expr.keywords:
            a = node.items[0].context_expr.args
            typ = a[0] if len(a) == 1 else ast.Tuple(elts=list(a), ctx=ast.Load())
            self.counts['suppress_to_try'] = self.counts.get('suppress_to_try', 0) + 1
            new = ast.Try(body=node.body, handlers=[ast.ExceptHandler(type=typ, name=None, body=[ast.Pass()])], orelse=[], finalbody=[])
            return ast.fix_missing_locations(ast.copy_location(new, node))
        return node

    def visit_AnnAssign(self, node):
        self.counts['annotations'] += 1
        if node.value is None:
            return ast.copy_location(ast.Pass(), node)
        new = ast.copy_location(ast.Assign(targets=[node.target], value=node.value), node)
        return self.visit(new)

    # N2
    def visit_Compare(self, node):
        self.generic_visit(node)
        if len(node.ops) == 1 and type(node.ops[0]) in FLIP:
            self.counts['flipped'] += 1
            return ast.copy_location(ast.Compare(left=node.comparators[0], ops=[FLIP[type(node.ops[0])]()], comparators=[node.left]), node)
        # `0 != x` -> `x != 0`: a constant operand of == / != goes to the right
        if len(node.ops) == 1 and isinstance(node.ops[0], (ast.Eq, ast.NotEq)) and isinstance(node.left, ast.Constant) and not isinstance(node.comparators[0], ast.Constant):
            self.counts['flipped'] += 1
            return ast.copy_location(ast.Compare(left=node.comparators[0], ops=[node.ops[0]], comparators=[node.left]), node)
        return node

    # N12: getattr(x, 'name') with a literal name and no default is x.name
    def visit_Call(self, node):
        self.generic_visit(node)
        if isinstance(node.func, ast.Name) and node.func.id == 'getattr' and len(node.args) == 2 and not node.keywords and isinstance(node.args[1], ast.Constant) \
                and isinstance(node.args[1].value, str) and node.args[1].value.isidentifier():
            return ast.copy_location(ast.Attribute(value=node.args[0], attr=node.args[1].value, ctx=ast.Load()), node)
        # N40: list(<generator expression>) is the list comprehension, set(..) the set comprehension
        if isinstance(node.func, ast.Name) and node.func.id in ('list', 'set') and len(node.args) == 1 and not node.keywords and isinstance(node.args[0], ast.GeneratorExp):
            g = node.args[0]
            cls_ = ast.ListComp if node.func.id == 'list' else ast.SetComp
            self.counts['list_of_genexp'] = self.counts.get('list_of_genexp', 0) + 1
            return ast.copy_location(cls_(elt=g.elt, generators=g.generators), node)
        # N33: map(itemgetter(k), X) / map(lambda t: E, X) over one iterable is the generator expression (t[k] for t in X) / (E for t in X)
        if isinstance(node.func, ast.Name) and node.func.id == 'map' and len(node.args) == 2 and not node.keywords and not isinstance(node.args[1], ast.Starred):
            fn, it = node.args
            ge = None
            if isinstance(fn, ast.Call) and (ast.unparse(fn.func) in ('operator.itemgetter', 'itemgetter')) and len(fn.args) == 1 and not fn.keywords \
                    and isinstance(fn.args[0], ast.Constant):
                ge = ast.GeneratorExp(elt=ast.Subscript(value=ast.Name(id='item_', ctx=ast.Load()), slice=fn.args[0], ctx=ast.Load()),
                                      generators=[ast.comprehension(target=ast.Name(id='item_', ctx=ast.Store()), iter=it, ifs=[], is_async=0)])
            elif isinstance(fn, ast.Lambda) and len(fn.args.args) == 1 and not (fn.args.vararg or fn.args.kwarg or fn.args.kwonlyargs or fn.args.defaults or fn.args.posonlyargs) \
                    and not any(isinstance(x, (ast.Lambda, ast.ListComp, ast.SetComp, ast.DictComp, ast.GeneratorExp, ast.NamedExpr)) for x in ast.walk(fn.body)):
                v = fn.args.args[0].arg
                ge = ast.GeneratorExp(elt=fn.body, generators=[ast.comprehension(target=ast.Name(id=v, ctx=ast.Store()), iter=it, ifs=[], is_async=0)])
            if ge is not None:
                self.counts['map_to_genexp'] = self.counts.get('map_to_genexp', 0) + 1
                return ast.fix_missing_locations(ast.copy_location(ge, node))
        return node

    # N3
    def visit_UnaryOp(self, node):
        self.generic_visit(node)
        if isinstance(node.op, ast.Not):
            new = push_not(node.operand)
            if not (isinstance(new, ast.UnaryOp) and isinstance(new.op, ast.Not) and new.operand is node.operand):
                self.counts['negations'] += 1
                # the pushed form may contain further `not (..)`; they were visited already (generic_visit above) except freshly built ones
                return self.visit(new) if isinstance(new, ast.BoolOp) else new
        return node

    # N4
    def _ifexp_stmt(self, node, value, rebuild):
        if isinstance(value, ast.IfExp):
            self.counts['ifexp'] += 1
            a = rebuild(value.body)
            b = rebuild(value.orelse)
            new = ast.copy_location(ast.If(test=value.test, body=[ast.copy_location(a, node)], orelse=[ast.copy_location(b, node)]), node)
            return self.visit(new)
        return None

    def visit_Assign(self, node):
        r = self._ifexp_stmt(node, node.value, lambda v: ast.Assign(targets=copy.deepcopy(node.targets), value=v))
        if r is not None:
            return r
        self.generic_visit(node)
        return node

    def visit_AugAssign(self, node):
        r = self._ifexp_stmt(node, node.value, lambda v: ast.AugAssign(target=copy.deepcopy(node.target), op=node.op, value=v))
        if r is not None:
            return r
        self.generic_visit(node)
        return node

    def visit_Return(self, node):
        if node.value is not None:
            r = self._ifexp_stmt(node, node.value, lambda v: ast.Return(value=v))
            if r is not None:
                return r
        self.generic_visit(node)
        return node


def loops_to_comprehensions(tree):
    """N9: `x = []` directly followed by `for T in IT: [if C:] x.append(E)` (nothing else in the loop) -> `x = [E for T in IT if C]`.
    Also `x = set()` + `.add`."""
    n = [0]

    def rec(stmts):
        out = []
        i = 0
        while i < len(stmts):
            s = stmts[i]
            for fld in ('body', 'orelse', 'finalbody'):
                sub = getattr(s, fld, None)
                if isinstance(sub, list) and sub and isinstance(sub[0], ast.stmt):
                    setattr(s, fld, rec(sub))
            if isinstance(s, ast.Try):
                for h in s.handlers:
                    h.body = rec(h.body)
            nxt = stmts[i + 1] if i + 1 < len(stmts) else None
            if isinstance(s, ast.Assign) and len(s.targets) == 1 and isinstance(s.targets[0], ast.Name) and isinstance(nxt, ast.For) and not nxt.orelse:
                x = s.targets[0].id
                kind = 'list' if isinstance(s.value, ast.List) and not s.value.elts else ('set' if isinstance(s.value, ast.Call) and isinstance(s.value.func, ast.Name) and
                                                                                         s.value.func.id == 'set' and not s.value.args else None)
                if kind is None and ((isinstance(s.value, ast.Dict) and not s.value.keys) or (isinstance(s.value, ast.Call) and isinstance(s.value.func, ast.Name)
                                                                                              and s.value.func.id == 'dict' and not s.value.args and not s.value.keywords)):
                    kind = 'dict'
                # peel the loop nest: leading `if c: continue` guards are negated filters, a sole `if c:` wrapping the rest is a filter, a sole
                # inner `for` is a further generator
                gens = []
                cur = nxt
                body = None
                while kind:
                    body = cur.body
                    conds = []
                    while True:
                        if len(body) > 1 and isinstance(body[0], ast.If) and not body[0].orelse and len(body[0].body) == 1 and isinstance(body[0].body[0], ast.Continue):
                            conds.append(push_not(body[0].test))
                            body = body[1:]
                        elif len(body) == 1 and isinstance(body[0], ast.If) and not body[0].orelse and body[0].body and not (len(body[0].body) == 1 and isinstance(body[0].body[0], ast.Continue)):
                            conds.append(body[0].test)
                            body = body[0].body
                        else:
                            break
                    gens.append(ast.comprehension(target=cur.target, iter=cur.iter, ifs=conds, is_async=0))
                    if len(body) == 1 and isinstance(body[0], ast.For) and not body[0].orelse:
                        cur = body[0]
                        continue
                    break
                gen_exprs = [e for g_ in gens for e in [g_.iter] + list(g_.ifs)]
                if kind == 'dict' and len(body) == 1 and isinstance(body[0], ast.Assign) and len(body[0].targets) == 1 and isinstance(body[0].targets[0], ast.Subscript) \
                        and isinstance(body[0].targets[0].value, ast.Name) and body[0].targets[0].value.id == x:
                    kexp, vexp = body[0].targets[0].slice, body[0].value
                    used = {m.id for e in [kexp, vexp] + gen_exprs for m in ast.walk(e) if isinstance(m, ast.Name)}
                    if x not in used and not any(isinstance(m, (ast.Yield, ast.YieldFrom, ast.Await)) for m in ast.walk(nxt)):
                        comp = ast.DictComp(key=kexp, value=vexp, generators=gens)
                        out.append(ast.copy_location(ast.Assign(targets=[s.targets[0]], value=ast.copy_location(comp, nxt)), s))
                        n[0] += 1
                        i += 2
                        continue
                if kind in ('list', 'set') and len(body) == 1 and isinstance(body[0], ast.Expr) and isinstance(body[0].value, ast.Call) and isinstance(body[0].value.func, ast.Attribute) \
                        and isinstance(body[0].value.func.value, ast.Name) and body[0].value.func.value.id == x \
                        and body[0].value.func.attr == ('append' if kind == 'list' else 'add') and len(body[0].value.args) == 1 and not body[0].value.keywords:
                    elt = body[0].value.args[0]
                    used = {m.id for e in [elt] + gen_exprs for m in ast.walk(e) if isinstance(m, ast.Name)}
                    if x not in used and not any(isinstance(m, (ast.Yield, ast.YieldFrom, ast.Await)) for m in ast.walk(nxt)):
                        comp = ast.ListComp(elt=elt, generators=gens) if kind == 'list' else ast.SetComp(elt=elt, generators=gens)
                        out.append(ast.copy_location(ast.Assign(targets=[s.targets[0]], value=ast.copy_location(comp, nxt)), s))
                        n[0] += 1
                        i += 2
                        continue
            out.append(s)
            i += 1
        return out
    for node in ast.walk(tree):
        if isinstance(node, (ast.FunctionDef, ast.AsyncFunctionDef)):
            node.body = rec(node.body)
    return n[0]


NEVER_NONE = (ast.BinOp, ast.JoinedStr, ast.Tuple, ast.List, ast.Dict, ast.Set, ast.ListComp, ast.DictComp, ast.SetComp, ast.GeneratorExp, ast.Compare, ast.BoolOp) if False else \
    (ast.BinOp, ast.JoinedStr, ast.Tuple, ast.List, ast.Dict, ast.Set, ast.ListComp, ast.DictComp, ast.SetComp, ast.GeneratorExp)


def fold_constant_conditions(tree):
    """N11: `a if True else b` -> `a`;  `if True: A else: B` -> A  (constant tests, typically left by inlining a helper called with a literal flag)"""
    n = [0]
    if not any((isinstance(x, (ast.IfExp, ast.If)) and isinstance(x.test, ast.Constant)) or
               (isinstance(x, ast.UnaryOp) and isinstance(x.op, ast.Not) and isinstance(x.operand, ast.Constant)) or
               (isinstance(x, ast.Compare) and isinstance(x.left, ast.Constant) and len(x.ops) == 1 and isinstance(x.comparators[0], ast.Constant)) or
               (isinstance(x, ast.Compare) and len(x.ops) == 1 and isinstance(x.ops[0], (ast.Is, ast.IsNot)) and isinstance(x.left, NEVER_NONE)) for x in ast.walk(tree)):
        return 0

    class E(ast.NodeTransformer):
        def visit_IfExp(self, node):
            self.generic_visit(node)
            if isinstance(node.test, ast.Constant):
                n[0] += 1
                return node.body if node.test.value else node.orelse
            return node

        def visit_UnaryOp(self, node):
            self.generic_visit(node)
            if isinstance(node.op, ast.Not) and isinstance(node.operand, ast.Constant) and isinstance(node.operand.value, bool):
                return ast.copy_location(ast.Constant(value=not node.operand.value), node)
            return node

        def visit_Compare(self, node):
            self.generic_visit(node)
            # `(a + b) is None`, `f'..' is None`, `[..] is not None` (an expression substituted for a parameter that defaults to None)
            if len(node.ops) == 1 and isinstance(node.ops[0], (ast.Is, ast.IsNot)) and isinstance(node.left, NEVER_NONE) and isinstance(node.comparators[0], ast.Constant) \
                    and node.comparators[0].value is None:
                n[0] += 1
                return ast.copy_location(ast.Constant(value=isinstance(node.ops[0], ast.IsNot)), node)
            # `'overflow' is not None`, `None is not None` (a literal substituted for a parameter)
            if len(node.ops) == 1 and isinstance(node.left, ast.Constant) and isinstance(node.comparators[0], ast.Constant):
                a, b, op = node.left.value, node.comparators[0].value, node.ops[0]
                if isinstance(op, (ast.Is, ast.IsNot)) and (a is None or b is None):
                    n[0] += 1
                    return ast.copy_location(ast.Constant(value=((a is None) == (b is None)) == isinstance(op, ast.Is)), node)
                if isinstance(op, (ast.Eq, ast.NotEq)) and type(a) is type(b):
                    n[0] += 1
                    return ast.copy_location(ast.Constant(value=(a == b) == isinstance(op, ast.Eq)), node)
            return node
    E().visit(tree)

    def rec(stmts):
        out = []
        for s in stmts:
            for fld in ('body', 'orelse', 'finalbody'):
                sub = getattr(s, fld, None)
                if isinstance(sub, list) and sub and isinstance(sub[0], ast.stmt):
                    setattr(s, fld, rec(sub))
            if isinstance(s, ast.Try):
                for h in s.handlers:
                    h.body = rec(h.body)
            if isinstance(s, ast.If) and isinstance(s.test, ast.Constant):
                n[0] += 1
                out.extend(s.body if s.test.value else s.orelse)
                continue
            out.append(s)
        return out
    for node in ast.walk(tree):
        if isinstance(node, (ast.FunctionDef, ast.AsyncFunctionDef)):
            node.body = rec(node.body) or [ast.Pass()]
    # blocks emptied by folding
    for x in ast.walk(tree):
        sub = getattr(x, 'body', None)
        if isinstance(sub, list) and not sub and isinstance(x, (ast.If, ast.For, ast.While, ast.With, ast.Try, ast.ExceptHandler)):
            x.body = [ast.Pass()]
    return n[0]


def drop_unused_enumerate(tree):
    """N10: `for i, X in enumerate(IT): ...` with `i` never read in the function -> `for X in IT: ...` (also in comprehensions)"""
    n = [0]
    if not any(isinstance(x, ast.Name) and x.id == 'enumerate' for x in ast.walk(tree)):
        return 0
    for f in ast.walk(tree):
        if not isinstance(f, (ast.FunctionDef, ast.AsyncFunctionDef)):
            continue
        if not any(isinstance(x, ast.Name) and x.id == 'enumerate' for x in ast.walk(f)):
            continue
        loads = {}
        for x in ast.walk(f):
            if isinstance(x, ast.Name) and isinstance(x.ctx, ast.Load):
                loads[x.id] = loads.get(x.id, 0) + 1
        uses_locals = any(isinstance(x, ast.Call) and isinstance(x.func, ast.Name) and x.func.id in ('locals', 'vars', 'eval', 'exec') for x in ast.walk(f))
        if uses_locals:
            continue
        for x in ast.walk(f):
            holders = []
            if isinstance(x, (ast.For, ast.AsyncFor)):
                holders.append(x)
            elif isinstance(x, (ast.ListComp, ast.SetComp, ast.DictComp, ast.GeneratorExp)):
                holders.extend(x.generators)
            for h in holders:
                it, tg = h.iter, h.target
                if isinstance(it, ast.Call) and isinstance(it.func, ast.Name) and it.func.id == 'enumerate' and len(it.args) == 1 and not it.keywords \
                        and isinstance(tg, ast.Tuple) and len(tg.elts) == 2 and isinstance(tg.elts[0], ast.Name) and loads.get(tg.elts[0].id, 0) == 0:
                    h.iter = it.args[0]
                    h.target = tg.elts[1]
                    n[0] += 1
    return n[0]


def split_tuple_assignments(tree):
    """N8: `a, b = x, y` -> `a = x; b = y` when no target name occurs in a later value (the two forms are then equivalent)"""
    n = [0]
    fresh = [0]

    def names(e):
        return {x.id for x in ast.walk(e) if isinstance(x, ast.Name)}

    def rec(stmts):
        out = []
        for s in stmts:
            for fld in ('body', 'orelse', 'finalbody'):
                sub = getattr(s, fld, None)
                if isinstance(sub, list) and sub and isinstance(sub[0], ast.stmt):
                    setattr(s, fld, rec(sub))
            if isinstance(s, ast.Try):
                for h in s.handlers:
                    h.body = rec(h.body)
            if isinstance(s, ast.Assign) and len(s.targets) == 1 and isinstance(s.targets[0], (ast.Tuple, ast.List)) and isinstance(s.value, (ast.Tuple, ast.List)) \
                    and len(s.targets[0].elts) == len(s.value.elts) and not any(isinstance(x, ast.Starred) for x in list(s.targets[0].elts) + list(s.value.elts)):
                ts, vs = s.targets[0].elts, s.value.elts
                # components that assign a name to itself (`read, pairs = read, f(read)`, left behind by inlining) bind nothing
                keep_ = [(t, v) for t, v in zip(ts, vs) if not (isinstance(v, ast.Name) and isinstance(t, ast.Name) and v.id == t.id)]
                if len(keep_) < len(ts) and all(isinstance(t, ast.Name) for t in ts):
                    ts, vs = [t for t, _ in keep_], [v for _, v in keep_]
                # plain names, or attribute stores of constants (`r.is_read1, r.is_read2 = True, False`: no value can see an earlier store)
                safe = all(isinstance(t, ast.Name) for t in ts) or \
                    (all(isinstance(t, (ast.Name, ast.Attribute)) for t in ts) and all(isinstance(v, ast.Constant) for v in vs))
                for i, t in enumerate(ts):
                    for v in vs[i + 1:]:
                        if isinstance(t, ast.Name) and t.id in names(v):
                            safe = False
                if safe:
                    n[0] += 1
                    for t, v in zip(ts, vs):
                        if isinstance(v, ast.Name) and isinstance(t, ast.Name) and v.id == t.id:
                            continue          # `x = x`
                        out.append(ast.copy_location(ast.Assign(targets=[t], value=v), s))
                    if not out or out[-1] is None:
                        out.append(ast.copy_location(ast.Pass(), s))
                    continue
            if isinstance(s, ast.Assign) and len(s.targets) == 1 and isinstance(s.targets[0], ast.Name) and isinstance(s.value, ast.Name) and s.value.id == s.targets[0].id:
                continue                      # `x = x` left behind by inlining
            # N22: `first, *rest = E` / `(a, b), *rest = E`  ->  `u = E; first = u[0]; rest = u[1:]`
            if isinstance(s, ast.Assign) and len(s.targets) == 1 and isinstance(s.targets[0], (ast.Tuple, ast.List)) and len(s.targets[0].elts) >= 2 \
                    and isinstance(s.targets[0].elts[-1], ast.Starred) and isinstance(s.targets[0].elts[-1].value, ast.Name) \
                    and not any(isinstance(x, ast.Starred) for x in s.targets[0].elts[:-1]) and not isinstance(s.value, (ast.Tuple, ast.List)):
                fresh[0] += 1
                u = f'_seq__s{fresh[0]}'
                out.append(ast.copy_location(ast.Assign(targets=[ast.Name(id=u, ctx=ast.Store())], value=s.value), s))
                lead = s.targets[0].elts[:-1]
                for i, t in enumerate(lead):
                    out.append(ast.copy_location(ast.Assign(targets=[t], value=ast.Subscript(value=ast.Name(id=u, ctx=ast.Load()), slice=ast.Constant(value=i), ctx=ast.Load())), s))
                out.append(ast.copy_location(ast.Assign(targets=[ast.Name(id=s.targets[0].elts[-1].value.id, ctx=ast.Store())],
                                                        value=ast.Subscript(value=ast.Name(id=u, ctx=ast.Load()), slice=ast.Slice(lower=ast.Constant(value=len(lead)), upper=None, step=None), ctx=ast.Load())), s))
                n[0] += 1
                continue
            out.append(s)
        return out or [ast.Pass()]
    for node in ast.walk(tree):
        if isinstance(node, (ast.FunctionDef, ast.AsyncFunctionDef)):
            node.body = rec(node.body)
    return n[0]


def unroll_literal_loops(tree, max_items=16, max_body=4):
    """N14: `for T in [e1, e2, ...]: <simple statements>` over a literal list/tuple is replaced by the statements repeated once per
    element with the loop target substituted (a table-driven rewrite of repeated statements reads like the repetition).  Only loops
    whose body is straight-line simple statements, does not assign the target names, has no break/continue/else, and whose elements
    are names/constants/attribute/subscript/arithmetic expressions without calls."""
    import copy
    count = 0

    PURE_METHODS = {'startswith', 'endswith', 'lower', 'upper', 'strip', 'count', 'find', 'index', 'get', 'isupper', 'islower', 'isdigit'}

    def simple(e):
        # call-free, or only calls of side-effect free string / mapping methods (evaluating them later or more than once changes nothing)
        return not any(isinstance(n, (ast.Yield, ast.YieldFrom, ast.Await, ast.NamedExpr, ast.Lambda)) or
                       (isinstance(n, ast.Call) and not (isinstance(n.func, ast.Attribute) and n.func.attr in PURE_METHODS)) for n in ast.walk(e))

    class Sub(ast.NodeTransformer):
        def __init__(self, m):
            self.m = m

        def visit_Name(self, node):
            if isinstance(node.ctx, ast.Load) and node.id in self.m:
                return copy.deepcopy(self.m[node.id])
            return node

    def beta(node):
        # (lambda v: B)(a)  ->  B[v := a]   (single use of v, or a call-free argument)
        class Beta(ast.NodeTransformer):
            def visit_Call(self, n):
                self.generic_visit(n)
                f_ = n.func
                if isinstance(f_, ast.Lambda) and not n.keywords and not any(isinstance(a, ast.Starred) for a in n.args):
                    la = f_.args
                    if not (la.vararg or la.kwarg or la.kwonlyargs or la.defaults or la.posonlyargs) and len(la.args) == len(n.args):
                        m = {a.arg: v for a, v in zip(la.args, n.args)}
                        uses = {k: sum(1 for x in ast.walk(f_.body) if isinstance(x, ast.Name) and x.id == k) for k in m}
                        if all(uses[k] <= 1 or not any(isinstance(x, ast.Call) for x in ast.walk(v)) for k, v in m.items()) and \
                                not any(isinstance(x, (ast.Lambda, ast.ListComp, ast.SetComp, ast.DictComp, ast.GeneratorExp)) for x in ast.walk(f_.body)):
                            return Sub(m).visit(copy.deepcopy(f_.body))
                return n
        return Beta().visit(node)

    def beta_any(node):
        # (lambda a, b: B)(x, y) -> B[a := x, b := y] for a lambda called once where it stood (arguments call-free or used once)
        class BetaAny(ast.NodeTransformer):
            def visit_Call(self, n):
                self.generic_visit(n)
                f_ = n.func
                if isinstance(f_, ast.Lambda) and not n.keywords and len(f_.args.args) == len(n.args):
                    m_ = {a.arg: v for a, v in zip(f_.args.args, n.args)}
                    uses = {k: sum(1 for x in ast.walk(f_.body) if isinstance(x, ast.Name) and x.id == k) for k in m_}
                    if all(uses[k] <= 1 or not any(isinstance(x, ast.Call) for x in ast.walk(v)) for k, v in m_.items()):
                        return Sub(m_).visit(copy.deepcopy(f_.body)) if m_ else copy.deepcopy(f_.body)
                return n
        return BetaAny().visit(node)

    PURE_BUILTINS = {'len', 'int', 'float', 'str', 'abs', 'min', 'max', 'bool', 'round'}

    def pure_fn_body(e):
        return not any(isinstance(n, (ast.Yield, ast.YieldFrom, ast.Await, ast.NamedExpr, ast.Lambda)) or
                       (isinstance(n, ast.Call) and not ((isinstance(n.func, ast.Attribute) and n.func.attr in PURE_METHODS | {'split', 'rsplit', 'replace'}) or
                                                         (isinstance(n.func, ast.Name) and n.func.id in PURE_BUILTINS))) for n in ast.walk(e))

    def search_loop(s):
        """`for T in <literal rows>: if C: S..; break` [else: E]  ->  if C[row1]: S[row1] elif C[row2]: S[row2] ... else: E"""
        if not (isinstance(s, ast.For) and isinstance(s.iter, (ast.List, ast.Tuple)) and 1 < len(s.iter.elts) <= max_items and len(s.body) == 1):
            return None
        g = s.body[0]
        if not (isinstance(g, ast.If) and not g.orelse and len(g.body) >= 2 and isinstance(g.body[-1], ast.Break)):
            return None
        inner = g.body[:-1]
        if any(isinstance(n, (ast.Break, ast.Continue, ast.For, ast.While, ast.Try, ast.With, ast.FunctionDef, ast.Yield, ast.YieldFrom)) for b in inner for n in ast.walk(b)):
            return None
        tg = s.target
        names = [tg.id] if isinstance(tg, ast.Name) else [e.id for e in tg.elts] if isinstance(tg, ast.Tuple) and all(isinstance(e, ast.Name) for e in tg.elts) else None
        if names is None:
            return None
        if isinstance(tg, ast.Tuple) and not all(isinstance(e, (ast.Tuple, ast.List)) and len(e.elts) == len(names) for e in s.iter.elts):
            return None
        stored = {n.id for b in s.body for n in ast.walk(b) if isinstance(n, ast.Name) and isinstance(n.ctx, ast.Store)}
        if stored & set(names):
            return None
        # a column of functions (lambdas / plain names) is fine when the loop only ever calls it
        called_only = {nm_ for nm_ in names if all(
            any(isinstance(c, ast.Call) and c.func is n for c in ast.walk(g)) for n in ast.walk(g) if isinstance(n, ast.Name) and n.id == nm_)}
        rows = []
        for e in s.iter.elts:
            cols = [e] if isinstance(tg, ast.Name) else list(e.elts)
            for nm_, c in zip(names, cols):
                if isinstance(c, ast.Lambda) and nm_ in called_only and pure_fn_body(c.body):
                    continue
                if not simple(c):
                    return None
            rows.append(dict(zip(names, cols)))
        chain = list(s.orelse)
        for m in reversed(rows):
            test = beta(Sub(m).visit(copy.deepcopy(g.test)))
            body_ = [beta(Sub(m).visit(copy.deepcopy(b))) for b in inner]
            node_ = ast.copy_location(ast.If(test=test, body=body_, orelse=chain), s)
            chain = [node_]
        ast.fix_missing_locations(chain[0])
        return chain[0]

    def rewrite(body):
        nonlocal count
        out = []
        for s in body:
            for fld in ('body', 'orelse', 'finalbody'):
                if isinstance(getattr(s, fld, None), list) and not isinstance(s, (ast.FunctionDef, ast.AsyncFunctionDef, ast.ClassDef, ast.Lambda)):
                    setattr(s, fld, rewrite(getattr(s, fld)))
            if isinstance(s, (ast.FunctionDef, ast.AsyncFunctionDef, ast.ClassDef)):
                s.body = rewrite(s.body)
            if isinstance(s, ast.Try):
                for h in s.handlers:
                    h.body = rewrite(h.body)
            sl = search_loop(s)
            if sl is not None:
                out.append(sl)
                count += 1
                continue
            guards = []
            rest_body = list(s.body) if isinstance(s, ast.For) else []
            while rest_body and isinstance(rest_body[0], ast.If) and not rest_body[0].orelse and len(rest_body[0].body) == 1 and isinstance(rest_body[0].body[0], ast.Continue):
                guards.append(rest_body[0].test)
                rest_body = rest_body[1:]
            simple_body = isinstance(s, ast.For) and all(isinstance(b, (ast.Expr, ast.Assign, ast.AugAssign)) for b in s.body)
            # a rule table walked by a loop: leading `if c: continue` guards, then statements without break / continue (returns allowed)
            table_body = isinstance(s, ast.For) and bool(rest_body) and len(rest_body) <= 8 and not any(
                isinstance(n, (ast.Break, ast.Continue, ast.For, ast.While, ast.Try, ast.With, ast.FunctionDef, ast.Yield, ast.YieldFrom)) for b in rest_body for n in ast.walk(b))
            if (isinstance(s, ast.For) and not s.orelse and isinstance(s.iter, (ast.List, ast.Tuple)) and 1 < len(s.iter.elts) <= max_items
                    and ((len(s.body) <= max_body and simple_body) or table_body)):
                tg = s.target
                names = [tg.id] if isinstance(tg, ast.Name) else [e.id for e in tg.elts] if isinstance(tg, ast.Tuple) and all(isinstance(e, ast.Name) for e in tg.elts) else None
                # a column of lambdas that the body calls exactly once per row is inlined at its call (the call happens where the body stood)
                fn_cols = set()
                if names is not None and isinstance(tg, ast.Tuple) and all(isinstance(e, (ast.Tuple, ast.List)) and len(e.elts) == len(names) for e in s.iter.elts):
                    for ci, nm_ in enumerate(names):
                        uses_ = [n for b in s.body for n in ast.walk(b) if isinstance(n, ast.Name) and n.id == nm_]
                        calls_ = [c for b in s.body for c in ast.walk(b) if isinstance(c, ast.Call) and isinstance(c.func, ast.Name) and c.func.id == nm_]
                        if len(uses_) == 1 and len(calls_) == 1 and all(isinstance(e.elts[ci], ast.Lambda) and len(e.elts[ci].args.args) == len(calls_[0].args) and not calls_[0].keywords
                                                                          and not (e.elts[ci].args.vararg or e.elts[ci].args.kwarg or e.elts[ci].args.defaults or e.elts[ci].args.kwonlyargs)
                                                                          and not any(isinstance(x, (ast.Lambda, ast.ListComp, ast.SetComp, ast.DictComp, ast.GeneratorExp, ast.NamedExpr))
                                                                                      for x in ast.walk(e.elts[ci].body)) for e in s.iter.elts):
                            fn_cols.add(ci)
                ok = names is not None and all(simple(e) if not fn_cols else all(simple(c_) for k_, c_ in enumerate(e.elts) if k_ not in fn_cols) for e in s.iter.elts)
                if ok and isinstance(tg, ast.Tuple):
                    ok = all(isinstance(e, (ast.Tuple, ast.List)) and len(e.elts) == len(names) for e in s.iter.elts)
                if ok:
                    stored = {n.id for b in s.body for n in ast.walk(b) if isinstance(n, ast.Name) and isinstance(n.ctx, ast.Store)}
                    ok = not (stored & set(names))
                if ok and not simple_body:
                    # table elements are evaluated once per row in the loop form; substituting them into guards and body evaluates them as
                    # often as they are used there: only call-free elements qualify (already required), attribute reads are repeatable
                    pass
                if ok:
                    # the names must not be read after the loop (the unrolled form leaves them unbound)
                    for e in s.iter.elts:
                        m = {names[0]: e} if isinstance(tg, ast.Name) else dict(zip(names, e.elts))
                        if simple_body:
                            for b in s.body:
                                out.append(ast.copy_location(Sub(m).visit(copy.deepcopy(b)), s))
                        else:
                            inner = [ast.copy_location(beta_any(Sub(m).visit(copy.deepcopy(b))) if fn_cols else Sub(m).visit(copy.deepcopy(b)), s) for b in rest_body]
                            if guards:
                                conds = [push_not(beta_any(Sub(m).visit(copy.deepcopy(g_))) if fn_cols else Sub(m).visit(copy.deepcopy(g_))) for g_ in guards]
                                test = conds[0] if len(conds) == 1 else ast.BoolOp(op=ast.And(), values=conds)
                                node_ = ast.copy_location(ast.If(test=test, body=inner, orelse=[]), s)
                                ast.fix_missing_locations(node_)
                                out.append(node_)
                            else:
                                out.extend(inner)
                    count += 1
                    continue
            out.append(s)
        return out

    tree.body = rewrite(tree.body)
    return count


def fuse_nested_comprehensions(tree):
    """N15: `[E(x) for x in [G(i) for i in R if C] if D(x)]` is `[E(G(i)) for i in R if C if D(G(i))]` (a list of intermediate values built
    only to be mapped again).  Applied when the inner element is call-free or used once, and the names do not clash."""
    import copy
    count = 0

    class Sub(ast.NodeTransformer):
        def __init__(self, name, val):
            self.name, self.val = name, val

        def visit_Name(self, node):
            if node.id == self.name and isinstance(node.ctx, ast.Load):
                return copy.deepcopy(self.val)
            return node

    class T(ast.NodeTransformer):
        def _fuse(self, node):
            nonlocal count
            self.generic_visit(node)
            if len(node.generators) != 1:
                return node
            g = node.generators[0]
            inner = g.iter
            if isinstance(inner, (ast.ListComp, ast.GeneratorExp)) and len(inner.generators) == 1 and isinstance(g.target, ast.Tuple) and not g.is_async \
                    and isinstance(inner.elt, ast.Tuple) and len(inner.elt.elts) == len(g.target.elts) and all(isinstance(t, ast.Name) for t in g.target.elts):
                # `for a, b in ((E1, E2) for T in R)`: component-wise
                ig = inner.generators[0]
                parts = ([node.key, node.value] if isinstance(node, ast.DictComp) else [node.elt]) + list(g.ifs)
                names = [t.id for t in g.target.elts]
                inner_names = {n.id for n in ast.walk(ig.target) if isinstance(n, ast.Name)}
                outer_free = {n.id for p_ in parts for n in ast.walk(p_) if isinstance(n, ast.Name)} - set(names)
                uses = {x_: sum(1 for p_ in parts for n in ast.walk(p_) if isinstance(n, ast.Name) and n.id == x_ and isinstance(n.ctx, ast.Load)) for x_ in names}
                if len(set(names)) == len(names) and not (inner_names & outer_free) and not (inner_names & set(names)) and \
                        all(uses[x_] <= 1 or not any(isinstance(n, ast.Call) for n in ast.walk(e_)) for x_, e_ in zip(names, inner.elt.elts)):
                    for x_, e_ in zip(names, inner.elt.elts):
                        sub = Sub(x_, e_)
                        if isinstance(node, ast.DictComp):
                            node.key, node.value = sub.visit(node.key), sub.visit(node.value)
                        else:
                            node.elt = sub.visit(node.elt)
                        g.ifs = [sub.visit(t) for t in g.ifs]
                    node.generators = [ast.comprehension(target=ig.target, iter=ig.iter, ifs=list(ig.ifs) + list(g.ifs), is_async=0)]
                    count += 1
                return node
            if not (isinstance(inner, (ast.ListComp, ast.GeneratorExp)) and len(inner.generators) == 1 and isinstance(g.target, ast.Name) and not g.is_async):
                return node
            x = g.target.id
            parts = ([node.key, node.value] if isinstance(node, ast.DictComp) else [node.elt]) + list(g.ifs)
            uses = sum(1 for p_ in parts for n in ast.walk(p_) if isinstance(n, ast.Name) and n.id == x and isinstance(n.ctx, ast.Load))
            has_call = any(isinstance(n, ast.Call) for n in ast.walk(inner.elt))
            if has_call and uses > 1:
                return node
            ig = inner.generators[0]
            inner_names = {n.id for n in ast.walk(ig.target) if isinstance(n, ast.Name)}
            outer_free = {n.id for p_ in parts for n in ast.walk(p_) if isinstance(n, ast.Name)} - {x}
            if inner_names & outer_free:
                return node
            sub = Sub(x, inner.elt)
            if isinstance(node, ast.DictComp):
                node.key, node.value = sub.visit(node.key), sub.visit(node.value)
            else:
                node.elt = sub.visit(node.elt)
            new_ifs = list(ig.ifs) + [sub.visit(t) for t in g.ifs]
            node.generators = [ast.comprehension(target=ig.target, iter=ig.iter, ifs=new_ifs, is_async=0)]
            count += 1
            return node

        visit_ListComp = visit_GeneratorExp = visit_SetComp = visit_DictComp = _fuse

    T().visit(tree)
    return count


def generators_to_loops(tree):
    """N17: generator plumbing is written out as loops (to fixpoint):
         yield from chain.from_iterable(E)            ->  for g in E: yield from g
         for X in (G for T in I if C): yield from X   ->  for T in I: if C: yield from G
         for X in (G for T in I if C): BODY           ->  for T in I: if C: X = G; BODY        (single generator)
         yield from (E for T in I if C)               ->  for T in I: if C: yield E
       The comprehension's targets become function locals: applied only when those names occur nowhere else in the function."""
    import copy
    count = [0]
    fresh = [0]

    def names_of(t):
        return {n.id for n in ast.walk(t) if isinstance(n, ast.Name)}

    def rewrite_function(fn):
        def occurrences(name, excluding):
            ex = {id(n) for n in ast.walk(excluding)}
            return sum(1 for n in ast.walk(fn) if isinstance(n, ast.Name) and n.id == name and id(n) not in ex) + \
                sum(1 for a in ast.walk(fn.args) if isinstance(a, ast.arg) and a.arg == name)

        def wrap(gens, inner):
            body = inner
            for g in reversed(gens):
                for t in reversed(g.ifs):
                    body = [ast.If(test=t, body=body, orelse=[])]
                body = [ast.For(target=g.target, iter=g.iter, body=body, orelse=[])]
            return body

        def ok_targets(comp):
            return all(occurrences(nm, comp) == 0 for g in comp.generators for nm in names_of(g.target)) and not any(g.is_async for g in comp.generators)

        def rec(stmts):
            out = []
            for s in stmts:
                for fld in ('body', 'orelse', 'finalbody'):
                    sub = getattr(s, fld, None)
                    if isinstance(sub, list) and sub and isinstance(sub[0], ast.stmt) and not isinstance(s, (ast.FunctionDef, ast.AsyncFunctionDef, ast.ClassDef)):
                        setattr(s, fld, rec(sub))
                if isinstance(s, ast.Try):
                    for h in s.handlers:
                        h.body = rec(h.body)
                new = None
                if isinstance(s, ast.Expr) and isinstance(s.value, ast.YieldFrom):
                    v = s.value.value
                    if isinstance(v, ast.Call) and len(v.args) == 1 and not v.keywords and (ast.unparse(v.func) in ('chain.from_iterable', 'itertools.chain.from_iterable')):
                        fresh[0] += 1
                        nm = f'_group__g{fresh[0]}'
                        new = [ast.For(target=ast.Name(id=nm, ctx=ast.Store()), iter=v.args[0], body=[ast.Expr(value=ast.YieldFrom(value=ast.Name(id=nm, ctx=ast.Load())))], orelse=[])]
                    elif isinstance(v, (ast.GeneratorExp, ast.ListComp)) and ok_targets(v):
                        new = wrap(v.generators, [ast.Expr(value=ast.Yield(value=v.elt))])
                elif isinstance(s, ast.For) and isinstance(s.target, ast.Tuple) and isinstance(s.iter, (ast.GeneratorExp, ast.ListComp)) and not s.orelse and len(s.iter.generators) == 1 \
                        and not s.iter.generators[0].is_async and ast.dump(s.iter.generators[0].target) == ast.dump(s.target) \
                        and ast.dump(s.iter.elt) == ast.dump(s.target).replace('Store()', 'Load()') \
                        and (isinstance(s.iter, ast.GeneratorExp) or not ({n.id for t_ in s.iter.generators[0].ifs for n in ast.walk(t_) if isinstance(n, ast.Name)} &
                                                                          {n.id for b_ in s.body for n in ast.walk(b_) if isinstance(n, ast.Name) and isinstance(n.ctx, ast.Store)})):
                    # `for a, b in [(a, b) for a, b in I if C]: BODY` (a pre-filtered list under the same names; BODY does not re-bind what C reads) is `for a, b in I: if C: BODY`
                    new = wrap(s.iter.generators, s.body)
                elif isinstance(s, ast.For) and isinstance(s.target, ast.Name) and isinstance(s.iter, ast.GeneratorExp) and not s.orelse and len(s.iter.generators) == 1 \
                        and isinstance(s.iter.generators[0].target, ast.Name) and s.iter.generators[0].target.id == s.target.id and isinstance(s.iter.elt, ast.Name) \
                        and s.iter.elt.id == s.target.id and not s.iter.generators[0].is_async:
                    # `for x in (x for x in I if C): BODY` (a filtering generator under the same name) is `for x in I: if C: BODY`
                    new = wrap(s.iter.generators, s.body)
                elif isinstance(s, ast.For) and isinstance(s.target, ast.Name) and isinstance(s.iter, (ast.GeneratorExp, ast.ListComp)) and not s.orelse and ok_targets(s.iter):
                    x = s.target.id
                    comp = s.iter
                    if len(s.body) == 1 and isinstance(s.body[0], ast.Expr) and isinstance(s.body[0].value, ast.YieldFrom) and isinstance(s.body[0].value.value, ast.Name) \
                            and s.body[0].value.value.id == x and occurrences(x, s) == 0:
                        new = wrap(comp.generators, [ast.Expr(value=ast.YieldFrom(value=comp.elt))])
                    elif len(comp.generators) == 1 and isinstance(comp, ast.GeneratorExp):
                        new = wrap(comp.generators, [ast.Assign(targets=[ast.Name(id=x, ctx=ast.Store())], value=comp.elt)] + s.body)
                if new is not None:
                    for n_ in new:
                        ast.copy_location(n_, s)
                        ast.fix_missing_locations(n_)
                    count[0] += 1
                    out.extend(rec(new))
                else:
                    out.append(s)
            return out
        fn.body = rec(fn.body)

    for node in ast.walk(tree):
        if isinstance(node, (ast.FunctionDef, ast.AsyncFunctionDef)):
            if any(isinstance(n, (ast.Yield, ast.YieldFrom)) for n in ast.walk(node)) or any(isinstance(n, ast.For) and isinstance(n.iter, (ast.GeneratorExp, ast.ListComp)) for n in ast.walk(node)):
                rewrite_function(node)
    return count[0]


def slice_objects_to_slices(tree):
    """N37  X[slice(a, b)] / X[slice(a, b, c)] / X[slice(b)]  ->  X[a:b] / X[a:b:c] / X[:b]"""
    count = [0]

    class T(ast.NodeTransformer):
        def visit_Subscript(self, node):
            self.generic_visit(node)
            sl = node.slice
            if isinstance(sl, ast.Call) and isinstance(sl.func, ast.Name) and sl.func.id == 'slice' and not sl.keywords and 1 <= len(sl.args) <= 3 \
                    and not any(isinstance(a, ast.Starred) for a in sl.args):
                a = list(sl.args)

                def n(x):
                    return None if isinstance(x, ast.Constant) and x.value is None else x
                if len(a) == 1:
                    new = ast.Slice(lower=None, upper=n(a[0]), step=None)
                elif len(a) == 2:
                    new = ast.Slice(lower=n(a[0]), upper=n(a[1]), step=None)
                else:
                    new = ast.Slice(lower=n(a[0]), upper=n(a[1]), step=n(a[2]))
                node.slice = ast.copy_location(new, sl)
                count[0] += 1
            return node
    T().visit(tree)
    return count[0]


def flatten_starred_displays(tree):
    """N16: `(a, *(b, c), d)` -> `(a, b, c, d)` (also for lists and call arguments)"""
    count = [0]

    class T(ast.NodeTransformer):
        def _flat(self, elts):
            out = []
            for e in elts:
                if isinstance(e, ast.Starred) and isinstance(e.value, (ast.Tuple, ast.List)) and not any(isinstance(x, ast.Starred) for x in e.value.elts):
                    out.extend(e.value.elts)
                    count[0] += 1
                else:
                    out.append(e)
            return out

        def visit_Tuple(self, node):
            self.generic_visit(node)
            if isinstance(node.ctx, ast.Load):
                node.elts = self._flat(node.elts)
            return node

        def visit_List(self, node):
            self.generic_visit(node)
            if isinstance(node.ctx, ast.Load):
                node.elts = self._flat(node.elts)
            return node

        def visit_BinOp(self, node):
            self.generic_visit(node)
            # N42: (a, b) + (c,) is (a, b, c); [a] + [b, c] is [a, b, c]
            if isinstance(node.op, ast.Add) and type(node.left) is type(node.right) and isinstance(node.left, (ast.Tuple, ast.List)) \
                    and isinstance(node.left.ctx, ast.Load) and isinstance(node.right.ctx, ast.Load):
                count[0] += 1
                return ast.copy_location(type(node.left)(elts=list(node.left.elts) + list(node.right.elts), ctx=ast.Load()), node)
            return node

        def visit_Subscript(self, node):
            self.generic_visit(node)
            # N23: `x[a:][k]` is `x[a + k]` (non-negative constants)
            if isinstance(node.ctx, ast.Load) and isinstance(node.slice, ast.Constant) and isinstance(node.slice.value, int) and not isinstance(node.slice.value, bool) and node.slice.value >= 0 \
                    and isinstance(node.value, ast.Subscript) and isinstance(node.value.slice, ast.Slice) and node.value.slice.upper is None and node.value.slice.step is None \
                    and isinstance(node.value.slice.lower, ast.Constant) and isinstance(node.value.slice.lower.value, int) and node.value.slice.lower.value >= 0:
                count[0] += 1
                return ast.copy_location(ast.Subscript(value=node.value.value, slice=ast.Constant(value=node.value.slice.lower.value + node.slice.value), ctx=ast.Load()), node)
            # N21: `(a, b)[1]` is b
            if isinstance(node.ctx, ast.Load) and isinstance(node.value, (ast.Tuple, ast.List)) and isinstance(node.slice, ast.Constant) and isinstance(node.slice.value, int) \
                    and not isinstance(node.slice.value, bool) and not any(isinstance(e, ast.Starred) for e in node.value.elts) and -len(node.value.elts) <= node.slice.value < len(node.value.elts) \
                    and not any(isinstance(x, ast.Call) for e in node.value.elts for x in ast.walk(e)):
                count[0] += 1
                return node.value.elts[node.slice.value]
            return node

        def _truth(self, e):
            # N24: a tail slice `x[a:]` used as a truth value is `a < len(x)`
            if isinstance(e, ast.Subscript) and isinstance(e.slice, ast.Slice) and e.slice.upper is None and e.slice.step is None and isinstance(e.slice.lower, ast.Constant) \
                    and isinstance(e.slice.lower.value, int) and e.slice.lower.value >= 0:
                count[0] += 1
                return ast.copy_location(ast.Compare(left=ast.Constant(value=e.slice.lower.value), ops=[ast.Lt()],
                                                     comparators=[ast.Call(func=ast.Name(id='len', ctx=ast.Load()), args=[e.value], keywords=[])]), e)
            return e

        def visit_If(self, node):
            self.generic_visit(node)
            node.test = self._truth(node.test)
            return node

        def visit_While(self, node):
            self.generic_visit(node)
            node.test = self._truth(node.test)
            return node

        def visit_IfExp(self, node):
            self.generic_visit(node)
            node.test = self._truth(node.test)
            return node

        def visit_BoolOp(self, node):
            self.generic_visit(node)
            node.values = [self._truth(v) for v in node.values]
            return node

        def visit_UnaryOp(self, node):
            self.generic_visit(node)
            if isinstance(node.op, ast.Not):
                node.operand = self._truth(node.operand)
            return node

        def visit_Call(self, node):
            self.generic_visit(node)
            node.args = self._flat(node.args)
            # N19: list((a, b)) is [a, b]; tuple([a, b]) is (a, b)
            if isinstance(node.func, ast.Name) and node.func.id in ('list', 'tuple') and len(node.args) == 1 and not node.keywords \
                    and isinstance(node.args[0], (ast.Tuple, ast.List)) and not any(isinstance(e, ast.Starred) for e in node.args[0].elts):
                count[0] += 1
                cls = ast.List if node.func.id == 'list' else ast.Tuple
                return ast.copy_location(cls(elts=node.args[0].elts, ctx=ast.Load()), node)
            return node
    T().visit(tree)
    return count[0]


def merge_dict_updates(tree):
    """N18: `d = {...}` directly followed by `d.update(e)` statements is `d = {..., **e}` (a later entry overrides an earlier one in both
    forms).  Only for a single positional mapping argument that does not mention d."""
    count = [0]

    def rec(stmts):
        out = []
        for s in stmts:
            for fld in ('body', 'orelse', 'finalbody'):
                sub = getattr(s, fld, None)
                if isinstance(sub, list) and sub and isinstance(sub[0], ast.stmt):
                    setattr(s, fld, rec(sub))
            if isinstance(s, ast.Try):
                for h in s.handlers:
                    h.body = rec(h.body)
            prev = out[-1] if out else None
            if (isinstance(s, ast.Expr) and isinstance(s.value, ast.Call) and isinstance(s.value.func, ast.Attribute) and s.value.func.attr == 'update'
                    and isinstance(s.value.func.value, ast.Name) and len(s.value.args) == 1 and not s.value.keywords
                    and isinstance(prev, ast.Assign) and len(prev.targets) == 1 and isinstance(prev.targets[0], ast.Name) and prev.targets[0].id == s.value.func.value.id
                    and isinstance(prev.value, ast.Dict)
                    and prev.targets[0].id not in {n.id for n in ast.walk(s.value.args[0]) if isinstance(n, ast.Name)}
                    and not isinstance(s.value.args[0], (ast.List, ast.Tuple, ast.ListComp, ast.GeneratorExp, ast.Call))):
                arg = s.value.args[0]
                if isinstance(arg, ast.Dict):
                    prev.value.keys.extend(arg.keys)
                    prev.value.values.extend(arg.values)
                else:
                    prev.value.keys.append(None)
                    prev.value.values.append(arg)
                count[0] += 1
                continue
            out.append(s)
        return out
    for node in ast.walk(tree):
        if isinstance(node, (ast.FunctionDef, ast.AsyncFunctionDef)):
            node.body = rec(node.body)
    return count[0]


def any_to_loop_and_counters_to_enumerate(tree):
    """N27: `t = any(E for v in IT if C)` with a call in E (an early-exit search with effects) -> `t = False; for v in IT: if C: if E: t = True; break`.
    N28: `c = 0; for T in IT: BODY; c += 1` (c advanced exactly once at the end of every iteration, no `continue`, c not read after the
    loop) -> `for c, T in enumerate(IT): BODY`."""
    count = [0]

    def has(stmts, typ, stop=(ast.FunctionDef, ast.AsyncFunctionDef, ast.ClassDef, ast.Lambda, ast.For, ast.While)):
        st = list(stmts)
        while st:
            n = st.pop()
            if isinstance(n, typ):
                return True
            for ch in ast.iter_child_nodes(n):
                if not isinstance(ch, stop):
                    st.append(ch)
        return False

    def rec(stmts, fdef):
        out = []
        i = 0
        while i < len(stmts):
            s = stmts[i]
            for fld in ('body', 'orelse', 'finalbody'):
                sub = getattr(s, fld, None)
                if isinstance(sub, list) and sub and isinstance(sub[0], ast.stmt) and not isinstance(s, (ast.FunctionDef, ast.AsyncFunctionDef, ast.ClassDef)):
                    setattr(s, fld, rec(sub, fdef))
            if isinstance(s, ast.Try):
                for h in s.handlers:
                    h.body = rec(h.body, fdef)
            # N27
            if isinstance(s, ast.Assign) and len(s.targets) == 1 and isinstance(s.targets[0], ast.Name) and isinstance(s.value, ast.Call) and isinstance(s.value.func, ast.Name) \
                    and s.value.func.id == 'any' and len(s.value.args) == 1 and isinstance(s.value.args[0], ast.GeneratorExp) and len(s.value.args[0].generators) == 1 \
                    and any(isinstance(x, ast.Call) for x in ast.walk(s.value.args[0].elt)):
                g = s.value.args[0].generators[0]
                t = s.targets[0].id
                gnames = {n.id for n in ast.walk(g.target) if isinstance(n, ast.Name)}
                other = {n.id for n in ast.walk(fdef) if isinstance(n, ast.Name)} if fdef is not None else set()
                inside = {n.id for n in ast.walk(s) if isinstance(n, ast.Name)}
                # the comprehension variable becomes a function local: only when that spelling is free (or already that loop variable elsewhere)
                body = [ast.If(test=s.value.args[0].elt, body=[ast.Assign(targets=[ast.Name(id=t, ctx=ast.Store())], value=ast.Constant(value=True)), ast.Break()], orelse=[])]
                for c_ in reversed(g.ifs):
                    body = [ast.If(test=c_, body=body, orelse=[])]
                new = [ast.Assign(targets=[ast.Name(id=t, ctx=ast.Store())], value=ast.Constant(value=False)),
                       ast.For(target=g.target, iter=g.iter, body=body, orelse=[])]
                for n_ in new:
                    ast.copy_location(n_, s)
                    ast.fix_missing_locations(n_)
                out.extend(new)
                count[0] += 1
                i += 1
                continue
            # N27b: `return [not] any(gen(...))` over a generator FUNCTION of this module (a lazily evaluated chain of checks): the early-exit loop
            if isinstance(s, ast.Return) and s.value is not None:
                neg, v = False, s.value
                if isinstance(v, ast.UnaryOp) and isinstance(v.op, ast.Not):
                    neg, v = True, v.operand
                if isinstance(v, ast.Call) and isinstance(v.func, ast.Name) and v.func.id in ('any', 'all') and len(v.args) == 1 and not v.keywords \
                        and isinstance(v.args[0], ast.Call) and isinstance(v.args[0].func, ast.Name) and v.args[0].func.id in gen_functions:
                    is_any = v.func.id == 'any'
                    k_ = count[0]
                    var = f'lazy_check_{k_}'
                    test = ast.Name(id=var, ctx=ast.Load()) if is_any else ast.UnaryOp(op=ast.Not(), operand=ast.Name(id=var, ctx=ast.Load()))
                    # any: found -> True (negated: False); all: counter-example -> False (negated: True)
                    hit = (is_any != neg)
                    new = [ast.For(target=ast.Name(id=var, ctx=ast.Store()), iter=v.args[0],
                                   body=[ast.If(test=test, body=[ast.Return(value=ast.Constant(value=hit))], orelse=[])], orelse=[]),
                           ast.Return(value=ast.Constant(value=not hit))]
                    for n_ in new:
                        ast.copy_location(n_, s)
                        ast.fix_missing_locations(n_)
                    out.extend(new)
                    count[0] += 1
                    i += 1
                    continue
            # N28
            nxt = stmts[i + 1] if i + 1 < len(stmts) else None
            if isinstance(s, ast.Assign) and len(s.targets) == 1 and isinstance(s.targets[0], ast.Name) and isinstance(s.value, ast.Constant) and s.value.value == 0 \
                    and type(s.value.value) is int and isinstance(nxt, ast.For) and not nxt.orelse and len(nxt.body) >= 2:
                c = s.targets[0].id
                last = None
                incs = [k for k, b in enumerate(nxt.body) if isinstance(b, ast.AugAssign) and isinstance(b.target, ast.Name) and b.target.id == c and isinstance(b.op, ast.Add)
                        and isinstance(b.value, ast.Constant) and b.value.value == 1]
                k_inc = incs[0] if len(incs) == 1 else None
                # the counter is advanced once per iteration at the top level of the body and is not read afterwards in the same iteration
                if k_inc is not None and not has(nxt.body, ast.Continue) \
                        and not any(isinstance(n, ast.Name) and n.id == c and isinstance(n.ctx, ast.Store) for kk, b in enumerate(nxt.body) if kk != k_inc for n in ast.walk(b)) \
                        and not any(isinstance(n, ast.Name) and n.id == c for b in nxt.body[k_inc + 1:] for n in ast.walk(b)) \
                        and not any(isinstance(n, ast.Name) and n.id == c for later in stmts[i + 2:] for n in ast.walk(later)) \
                        and c not in {n.id for n in ast.walk(nxt.iter) if isinstance(n, ast.Name)}:
                    rest = nxt.body[:k_inc] + nxt.body[k_inc + 1:]
                    # nested statements were already processed above for `s`; process the loop body now
                    rest = rec(rest, fdef)
                    new = ast.For(target=ast.Tuple(elts=[ast.Name(id=c, ctx=ast.Store()), nxt.target], ctx=ast.Store()),
                                  iter=ast.Call(func=ast.Name(id='enumerate', ctx=ast.Load()), args=[nxt.iter], keywords=[]), body=rest, orelse=[])
                    ast.copy_location(new, nxt)
                    ast.fix_missing_locations(new)
                    out.append(new)
                    count[0] += 1
                    i += 2
                    continue
            out.append(s)
            i += 1
        return out
    gen_functions = {n.name for n in getattr(tree, 'body', []) if isinstance(n, ast.FunctionDef) and has(n.body, (ast.Yield, ast.YieldFrom), stop=(ast.FunctionDef, ast.AsyncFunctionDef, ast.ClassDef, ast.Lambda))}
    for node in ast.walk(tree):
        if isinstance(node, (ast.FunctionDef, ast.AsyncFunctionDef)):
            node.body = rec(node.body, node)
    return count[0]


def hoist_loop_exit_assignments(tree):
    """N31  `for ..: ...; T = E; break ... else: T = E`  ==  `for ..: ...; break`, then `T = E` after the loop - when every break of the loop is
    directly preceded by the same assignment as the one that forms the else block and E is a plain name / attribute chain / constant (reading it at
    the break and right after the loop gives the same object).  This is the shape a helper with `return E` inside and after its loop takes once
    it is inlined."""
    count = 0

    def simple(e):
        while isinstance(e, ast.Attribute):
            e = e.value
        return isinstance(e, (ast.Name, ast.Constant))

    def own_breaks(stmts, acc, parent_blocks):
        for blk in parent_blocks:
            for k, st in enumerate(blk):
                if isinstance(st, ast.Break):
                    acc.append((blk, k))
                elif isinstance(st, (ast.For, ast.While, ast.FunctionDef, ast.AsyncFunctionDef, ast.ClassDef)):
                    # breaks in the else block of an inner loop still belong to the outer one
                    if isinstance(st, (ast.For, ast.While)):
                        own_breaks(None, acc, [st.orelse])
                else:
                    subs = [getattr(st, f) for f in ('body', 'orelse', 'finalbody') if isinstance(getattr(st, f, None), list)]
                    if isinstance(st, ast.Try):
                        subs += [h.body for h in st.handlers]
                    if hasattr(ast, 'Match') and isinstance(st, ast.Match):
                        subs += [c.body for c in st.cases]
                    own_breaks(None, acc, subs)

    for par in list(ast.walk(tree)):
        for fld in ('body', 'orelse', 'finalbody'):
            blk = getattr(par, fld, None)
            if not isinstance(blk, list):
                continue
            i = 0
            while i < len(blk):
                lp = blk[i]
                i += 1
                if not (isinstance(lp, (ast.For, ast.While)) and len(lp.orelse) == 1 and isinstance(lp.orelse[0], ast.Assign)):
                    continue
                asg = lp.orelse[0]
                if not (len(asg.targets) == 1 and isinstance(asg.targets[0], ast.Name) and simple(asg.value)):
                    continue
                brs = []
                own_breaks(None, brs, [lp.body])
                want = ast.dump(asg)
                if not brs or not all(k > 0 and isinstance(b[k - 1], ast.Assign) and ast.dump(b[k - 1]) == want for b, k in brs):
                    continue
                for b, k in sorted(brs, key=lambda bk: -bk[1]):
                    del b[k - 1]
                lp.orelse = []
                blk.insert(i, asg)
                count += 1
    return count


def counting_while_to_for(tree):
    """N32  `i = A; while i <= B: BODY; i += 1`  ==  `for i in range(A, B + 1): BODY` (also `<` -> range(A, B)) - when BODY neither assigns i nor
    the names B reads, has no continue (it would skip the increment), no break, the loop has no else block, B is call-free or only calls pure
    numeric builtins (it is re-evaluated per round in the while form) and i is not read after the loop (the final value of the counter differs)."""
    count = 0
    PURE = {'int', 'float', 'len', 'abs', 'min', 'max', 'round', 'floor', 'ceil'}

    def pure(e):
        for n in ast.walk(e):
            if isinstance(n, ast.Call):
                d = n.func.attr if isinstance(n.func, ast.Attribute) else n.func.id if isinstance(n.func, ast.Name) else None
                if d not in PURE:
                    return False
            if isinstance(n, (ast.Yield, ast.YieldFrom, ast.Await, ast.NamedExpr, ast.Lambda)):
                return False
        return True

    for fn in [n for n in ast.walk(tree) if isinstance(n, (ast.FunctionDef, ast.AsyncFunctionDef))]:
        for par in list(ast.walk(fn)):
            for fld in ('body', 'orelse', 'finalbody'):
                blk = getattr(par, fld, None)
                if not isinstance(blk, list):
                    continue
                k = 0
                while k < len(blk):
                    w = blk[k]
                    k += 1
                    if not (isinstance(w, ast.While) and not w.orelse and isinstance(w.test, ast.Compare) and len(w.test.ops) == 1
                            and isinstance(w.test.ops[0], (ast.LtE, ast.Lt)) and isinstance(w.test.left, ast.Name) and len(w.body) >= 2):
                        continue
                    i = w.test.left.id
                    bound = w.test.comparators[0]
                    inc = w.body[-1]
                    if not (isinstance(inc, ast.AugAssign) and isinstance(inc.op, ast.Add) and isinstance(inc.target, ast.Name) and inc.target.id == i
                            and isinstance(inc.value, ast.Constant) and inc.value.value == 1):
                        continue
                    body = w.body[:-1]
                    if any(isinstance(n, (ast.Continue, ast.Break, ast.Return)) for b in body for n in ast.walk(b)):
                        continue
                    stored = {n.id for b in body for n in ast.walk(b) if isinstance(n, ast.Name) and isinstance(n.ctx, (ast.Store, ast.Del))}
                    bound_names = {n.id for n in ast.walk(bound) if isinstance(n, ast.Name)}
                    if i in stored or i in bound_names or (stored & bound_names) or not pure(bound):
                        continue
                    # attribute / item stores in the body could change what the bound reads
                    call_funcs = {id(n.func) for n in ast.walk(bound) if isinstance(n, ast.Call)}
                    if any(isinstance(n, (ast.Attribute, ast.Subscript)) and id(n) not in call_funcs for n in ast.walk(bound)):
                        continue
                    # the initialisation: the closest preceding statement of the block, `i = A`
                    init_at = None
                    for j in range(k - 2, -1, -1):
                        st = blk[j]
                        if isinstance(st, ast.Assign) and len(st.targets) == 1 and isinstance(st.targets[0], ast.Name) and st.targets[0].id == i:
                            init_at = j
                            break
                        if any(isinstance(n, ast.Name) and n.id == i for n in ast.walk(st)):
                            break
                    if init_at is None:
                        continue
                    # the counter is not read after the loop (anywhere later in the function, or earlier inside an enclosing loop)
                    inside = {id(n) for n in ast.walk(w)} | {id(n) for n in ast.walk(blk[init_at])}
                    if any(isinstance(n, ast.Name) and n.id == i and id(n) not in inside for n in ast.walk(fn)):
                        continue
                    start = blk[init_at].value
                    stop = bound if isinstance(w.test.ops[0], ast.Lt) else ast.BinOp(left=bound, op=ast.Add(), right=ast.Constant(value=1))
                    loop = ast.For(target=ast.Name(id=i, ctx=ast.Store()), iter=ast.Call(func=ast.Name(id='range', ctx=ast.Load()), args=[start, stop], keywords=[]),
                                   body=body, orelse=[], type_comment=None)
                    ast.copy_location(loop, w)
                    ast.fix_missing_locations(loop)
                    blk[k - 1] = loop
                    del blk[init_at]
                    k -= 1
                    count += 1
    return count


def tail_iteration_to_recursion(tree):
    """N36  def F(.., p, ..): v = p; while True: BODY; v = C      (every other way out of BODY is return / raise; BODY binds no local, never reads p,
    has no break / continue / yield; nothing follows the loop)  ==  BODY[v := p]; return F(.., p=C, ..): the second round is the function itself
    run with the constant - a retry loop with a one-shot flag is the retry written as a tail call."""
    import copy
    count = 0

    def convert(fn, method):
        nonlocal count
        a = fn.args
        if a.vararg or a.kwarg or a.posonlyargs or a.kwonlyargs or fn.decorator_list:
            return
        params = [x.arg for x in a.args]
        if method and (not params or params[0] != 'self'):
            return
        if len(fn.body) != 2:
            return
        init, loop = fn.body
        if not (isinstance(init, ast.Assign) and len(init.targets) == 1 and isinstance(init.targets[0], ast.Name) and isinstance(init.value, ast.Name)
                and init.value.id in params[1 if method else 0:]):
            return
        v, p_ = init.targets[0].id, init.value.id
        if v in params:
            return
        if not (isinstance(loop, ast.While) and isinstance(loop.test, ast.Constant) and loop.test.value is True and not loop.orelse and len(loop.body) >= 2):
            return
        *body, last = loop.body
        if not (isinstance(last, ast.Assign) and len(last.targets) == 1 and isinstance(last.targets[0], ast.Name) and last.targets[0].id == v and isinstance(last.value, ast.Constant)):
            return
        for b in body:
            for n in ast.walk(b):
                if isinstance(n, (ast.Break, ast.Continue, ast.Yield, ast.YieldFrom, ast.Await, ast.FunctionDef, ast.AsyncFunctionDef, ast.Lambda, ast.ClassDef, ast.NamedExpr,
                                  ast.ListComp, ast.SetComp, ast.DictComp, ast.GeneratorExp, ast.Global, ast.Nonlocal)):
                    return
                if isinstance(n, ast.Name) and isinstance(n.ctx, (ast.Store, ast.Del)):
                    return
                if isinstance(n, ast.Name) and n.id == p_:
                    return
                if isinstance(n, ast.ExceptHandler) and n.name:
                    return

        class R(ast.NodeTransformer):
            def visit_Name(self, n):
                if n.id == v:
                    return ast.copy_location(ast.Name(id=p_, ctx=n.ctx), n)
                return n
        new_body = [R().visit(b) for b in body]
        own = params[1:] if method else params
        func = ast.Attribute(value=ast.Name(id='self', ctx=ast.Load()), attr=fn.name, ctx=ast.Load()) if method else ast.Name(id=fn.name, ctx=ast.Load())
        call = ast.Call(func=func, args=[ast.Name(id=x, ctx=ast.Load()) for x in own if x != p_], keywords=[ast.keyword(arg=p_, value=copy.deepcopy(last.value))])
        # positional arguments may only precede the keyword one: parameters after p are passed by keyword as well
        k = own.index(p_)
        call.args = [ast.Name(id=x, ctx=ast.Load()) for x in own[:k]]
        call.keywords = [ast.keyword(arg=p_, value=copy.deepcopy(last.value))] + [ast.keyword(arg=x, value=ast.Name(id=x, ctx=ast.Load())) for x in own[k + 1:]]
        ret = ast.copy_location(ast.Return(value=call), last)
        fn.body = new_body + [ast.fix_missing_locations(ret)]
        count += 1

    for node in ast.walk(tree):
        if isinstance(node, ast.ClassDef):
            for m in node.body:
                if isinstance(m, ast.FunctionDef):
                    convert(m, True)
    for m in getattr(tree, 'body', []):
        if isinstance(m, ast.FunctionDef):
            convert(m, False)
    return count


def iterate_self(tree):
    """N38  in a class whose __iter__ is `return iter(self.A)`, a loop / comprehension over `self.A` (also under enumerate) inside its methods is the loop
    over `self`"""
    count = [0]
    for cls in [n for n in ast.walk(tree) if isinstance(n, ast.ClassDef)]:
        attr = None
        for m in cls.body:
            if isinstance(m, ast.FunctionDef) and m.name == '__iter__':
                body = [b for b in m.body if not (isinstance(b, ast.Expr) and isinstance(b.value, ast.Constant))]
                if len(body) == 1 and isinstance(body[0], ast.Return) and isinstance(body[0].value, ast.Call) and isinstance(body[0].value.func, ast.Name) and body[0].value.func.id == 'iter' \
                        and len(body[0].value.args) == 1 and isinstance(body[0].value.args[0], ast.Attribute) and isinstance(body[0].value.args[0].value, ast.Name) \
                        and body[0].value.args[0].value.id == 'self':
                    attr = body[0].value.args[0].attr
        if attr is None:
            continue

        def is_attr(e):
            return isinstance(e, ast.Attribute) and e.attr == attr and isinstance(e.value, ast.Name) and e.value.id == 'self'

        def fix(holder, fld):
            e = getattr(holder, fld)
            if is_attr(e):
                setattr(holder, fld, ast.copy_location(ast.Name(id='self', ctx=ast.Load()), e))
                count[0] += 1
            elif isinstance(e, ast.Call) and isinstance(e.func, ast.Name) and e.func.id == 'enumerate' and e.args and is_attr(e.args[0]):
                e.args[0] = ast.copy_location(ast.Name(id='self', ctx=ast.Load()), e.args[0])
                count[0] += 1
        for m in cls.body:
            if not isinstance(m, ast.FunctionDef) or m.name == '__iter__':
                continue
            for n in ast.walk(m):
                if isinstance(n, ast.For):
                    fix(n, 'iter')
                elif isinstance(n, ast.comprehension):
                    fix(n, 'iter')
    return count[0]


def records_to_dicts(tree, known_globals=None):
    """N39  A named-tuple type introduced at module level (`T = namedtuple('T', 'a b c')`, not a global of the reference module) that is built and read
    inside one function is the dictionary record it replaced: `T(x, y, z)` / `T(a=x, ..)` -> `{'a': x, 'b': y, 'c': z}`; in the functions that build
    such records `r.a` -> `r['a']` for plain names r, and `p, q, s = r` / `for p, q, s in records` (as many targets as fields, r a loop variable over /
    an element of the list the records were appended to) -> one item read per field."""
    types = {}
    for st in getattr(tree, 'body', []):
        if isinstance(st, ast.Assign) and len(st.targets) == 1 and isinstance(st.targets[0], ast.Name) and isinstance(st.value, ast.Call) \
                and ast.unparse(st.value.func) in ('collections.namedtuple', 'namedtuple') and len(st.value.args) >= 2:
            if known_globals is not None and st.targets[0].id in known_globals:
                continue
            fa = st.value.args[1]
            fields = None
            if isinstance(fa, ast.Constant) and isinstance(fa.value, str):
                fields = fa.value.replace(',', ' ').split()
            elif isinstance(fa, (ast.List, ast.Tuple)) and all(isinstance(e, ast.Constant) and isinstance(e.value, str) for e in fa.elts):
                fields = [e.value for e in fa.elts]
            if fields:
                types[st.targets[0].id] = fields
    if not types:
        return 0
    count = [0]
    for fn in [n for n in ast.walk(tree) if isinstance(n, (ast.FunctionDef, ast.AsyncFunctionDef))]:
        ctors = [c for c in ast.walk(fn) if isinstance(c, ast.Call) and isinstance(c.func, ast.Name) and c.func.id in types]
        if not ctors:
            continue
        fields_here = set()
        # names of the lists the records go into, and of the names bound to a record
        record_lists, record_names = set(), set()
        for c in ctors:
            fields_here |= set(types[c.func.id])
        for n in ast.walk(fn):
            if isinstance(n, ast.Call) and isinstance(n.func, ast.Attribute) and n.func.attr == 'append' and isinstance(n.func.value, ast.Name) and n.args and any(n.args[0] is c for c in ctors):
                record_lists.add(n.func.value.id)
            if isinstance(n, ast.Assign) and len(n.targets) == 1 and isinstance(n.targets[0], ast.Name) and any(n.value is c for c in ctors):
                record_names.add(n.targets[0].id)
        for n in ast.walk(fn):
            if isinstance(n, ast.For) and isinstance(n.iter, ast.Name) and n.iter.id in record_lists and isinstance(n.target, ast.Name):
                record_names.add(n.target.id)
        nf = {len(v) for v in types.values()}

        class T(ast.NodeTransformer):
            def visit_Call(self, node):
                self.generic_visit(node)
                if isinstance(node.func, ast.Name) and node.func.id in types and not any(isinstance(a, ast.Starred) for a in node.args) and not any(k.arg is None for k in node.keywords):
                    fs = types[node.func.id]
                    vals = dict(zip(fs, node.args))
                    for k in node.keywords:
                        vals[k.arg] = k.value
                    if set(vals) == set(fs):
                        count[0] += 1
                        return ast.copy_location(ast.Dict(keys=[ast.Constant(value=f_) for f_ in fs], values=[vals[f_] for f_ in fs]), node)
                return node

            def visit_Attribute(self, node):
                self.generic_visit(node)
                if isinstance(node.ctx, ast.Load) and isinstance(node.value, ast.Name) and node.value.id in record_names and node.attr in fields_here:
                    count[0] += 1
                    return ast.copy_location(ast.Subscript(value=node.value, slice=ast.Constant(value=node.attr), ctx=ast.Load()), node)
                return node
        T().visit(fn)

        def expand(stmts):
            out = []
            for st in stmts:
                for fld in ('body', 'orelse', 'finalbody'):
                    sub = getattr(st, fld, None)
                    if isinstance(sub, list) and sub and isinstance(sub[0], ast.stmt) and not isinstance(st, (ast.FunctionDef, ast.AsyncFunctionDef, ast.ClassDef)):
                        setattr(st, fld, expand(sub))
                if isinstance(st, ast.Try):
                    for h in st.handlers:
                        h.body = expand(h.body)
                fs = next(iter(types.values())) if len(types) == 1 else None
                if fs and isinstance(st, ast.Assign) and len(st.targets) == 1 and isinstance(st.targets[0], ast.Tuple) and len(st.targets[0].elts) == len(fs) \
                        and all(isinstance(e, ast.Name) for e in st.targets[0].elts) and isinstance(st.value, ast.Name) and st.value.id in record_names:
                    for e, f_ in zip(st.targets[0].elts, fs):
                        out.append(ast.fix_missing_locations(ast.copy_location(ast.Assign(targets=[e], value=ast.Subscript(value=ast.Name(id=st.value.id, ctx=ast.Load()),
                                                                                                                         slice=ast.Constant(value=f_), ctx=ast.Load())), st)))
                    count[0] += 1
                    continue
                if fs and isinstance(st, ast.For) and isinstance(st.iter, ast.Name) and st.iter.id in record_lists and isinstance(st.target, ast.Tuple) and len(st.target.elts) == len(fs) \
                        and all(isinstance(e, ast.Name) for e in st.target.elts):
                    rn = f'record__r{count[0]}'
                    pre = [ast.Assign(targets=[e], value=ast.Subscript(value=ast.Name(id=rn, ctx=ast.Load()), slice=ast.Constant(value=f_), ctx=ast.Load())) for e, f_ in zip(st.target.elts, fs)]
                    st.target = ast.Name(id=rn, ctx=ast.Store())
                    st.body = pre + st.body
                    ast.fix_missing_locations(st)
                    count[0] += 1
                out.append(st)
            return out
        fn.body = expand(fn.body)
    return count[0]


def zip_of_maps(tree):
    """N41  zip(repeat(c), R, (E(x) for x in R), ..) over ONE re-iterable R (a range(..) call, or a local bound once to one) is the generator
    ((c, x, E(x), ..) for x in R): every component is a function of the same element"""
    import copy
    count = [0]
    for fn in [n for n in ast.walk(tree) if isinstance(n, (ast.FunctionDef, ast.AsyncFunctionDef))]:
        defs = {}
        for a in ast.walk(fn):
            if isinstance(a, ast.Assign) and len(a.targets) == 1 and isinstance(a.targets[0], ast.Name):
                defs.setdefault(a.targets[0].id, []).append(a.value)

        def reiterable(e):
            if isinstance(e, ast.Call) and isinstance(e.func, ast.Name) and e.func.id == 'range':
                return True
            if isinstance(e, ast.Name) and len(defs.get(e.id, [])) == 1:
                v = defs[e.id][0]
                return isinstance(v, (ast.List, ast.Tuple)) or (isinstance(v, ast.Call) and isinstance(v.func, ast.Name) and v.func.id == 'range')
            return False

        class T(ast.NodeTransformer):
            def visit_Call(self, node):
                self.generic_visit(node)
                if not (isinstance(node.func, ast.Name) and node.func.id == 'zip' and len(node.args) >= 2 and not node.keywords):
                    return node
                base = None
                parts = []
                for a in node.args:
                    if isinstance(a, ast.Name) and len(defs.get(a.id, [])) == 1 and isinstance(defs[a.id][0], ast.GeneratorExp) \
                            and sum(1 for n_ in ast.walk(fn) if isinstance(n_, ast.Name) and n_.id == a.id and isinstance(n_.ctx, ast.Load)) == 1:
                        consumed.add(a.id)
                        a = defs[a.id][0]          # a generator bound to a local that only this zip consumes
                    if isinstance(a, ast.Call) and ast.unparse(a.func) in ('repeat', 'itertools.repeat') and len(a.args) == 1 and not a.keywords:
                        parts.append(('const', a.args[0]))
                    elif isinstance(a, ast.GeneratorExp) and len(a.generators) == 1 and not a.generators[0].ifs and isinstance(a.generators[0].target, ast.Name) and reiterable(a.generators[0].iter):
                        parts.append(('map', a))
                        b = ast.unparse(a.generators[0].iter)
                        if base is not None and b != base:
                            return node
                        base = b
                    elif reiterable(a):
                        parts.append(('id', a))
                        b = ast.unparse(a)
                        if base is not None and b != base:
                            return node
                        base = b
                    else:
                        return node
                if base is None or not any(k == 'id' or k == 'map' for k, _ in parts):
                    return node
                var = next((p.generators[0].target.id for k, p in parts if k == 'map'), 'item_z')
                it = next((p.generators[0].iter for k, p in parts if k == 'map'), None) or next(p for k, p in parts if k == 'id')
                elts = []
                for k, p in parts:
                    if k == 'const':
                        elts.append(p)
                    elif k == 'id':
                        elts.append(ast.Name(id=var, ctx=ast.Load()))
                    else:
                        class R(ast.NodeTransformer):
                            def visit_Name(self, n, old=p.generators[0].target.id):
                                return ast.copy_location(ast.Name(id=var, ctx=n.ctx), n) if n.id == old else n
                        elts.append(R().visit(copy.deepcopy(p.elt)))
                ge = ast.GeneratorExp(elt=ast.Tuple(elts=elts, ctx=ast.Load()), generators=[ast.comprehension(target=ast.Name(id=var, ctx=ast.Store()), iter=copy.deepcopy(it), ifs=[], is_async=0)])
                count[0] += 1
                return ast.fix_missing_locations(ast.copy_location(ge, node))
        consumed = set()
        before = count[0]
        T().visit(fn)
        if count[0] != before and consumed:
            # the locals whose generator went into the rewritten zip are dead now
            def drop(stmts):
                out = []
                for st in stmts:
                    for fld in ('body', 'orelse', 'finalbody'):
                        sub = getattr(st, fld, None)
                        if isinstance(sub, list) and sub and isinstance(sub[0], ast.stmt) and not isinstance(st, ast.ClassDef):
                            setattr(st, fld, drop(sub) or [ast.copy_location(ast.Pass(), st)])
                    if isinstance(st, ast.Assign) and len(st.targets) == 1 and isinstance(st.targets[0], ast.Name) and st.targets[0].id in consumed \
                            and not any(isinstance(n_, ast.Name) and n_.id == st.targets[0].id and isinstance(n_.ctx, ast.Load) for n_ in ast.walk(fn)):
                        continue
                    out.append(st)
                return out
            fn.body = drop(fn.body)
    return count[0]


def loop_target_unpacking(tree):
    """N43  `for X in IT: ..; a, b, c = X; ..` (X used nowhere else, nothing before the unpacking mentions X or a, b, c) -> `for a, b, c in IT: ..`;
    N28b `c = -1; for T in IT: c += 1; BODY` (c advanced first in every iteration, not read after the loop) -> `for c, T in enumerate(IT): BODY`"""
    count = [0]
    for fn in [n for n in ast.walk(tree) if isinstance(n, (ast.FunctionDef, ast.AsyncFunctionDef))]:
        for par in list(ast.walk(fn)):
            for fld in ('body', 'orelse', 'finalbody'):
                blk = getattr(par, fld, None)
                if not isinstance(blk, list):
                    continue
                for k, l in enumerate(blk):
                    if not isinstance(l, ast.For):
                        continue
                    # N28b
                    prev = blk[k - 1] if k > 0 else None
                    if isinstance(prev, ast.Assign) and len(prev.targets) == 1 and isinstance(prev.targets[0], ast.Name) and isinstance(prev.value, ast.UnaryOp) and isinstance(prev.value.op, ast.USub) \
                            and isinstance(prev.value.operand, ast.Constant) and prev.value.operand.value == 1 and l.body and isinstance(l.body[0], ast.AugAssign) \
                            and isinstance(l.body[0].target, ast.Name) and l.body[0].target.id == prev.targets[0].id and isinstance(l.body[0].op, ast.Add) \
                            and isinstance(l.body[0].value, ast.Constant) and l.body[0].value.value == 1 and not l.orelse:
                        c = prev.targets[0].id
                        stores = [n for b in l.body[1:] for n in ast.walk(b) if isinstance(n, ast.Name) and n.id == c and isinstance(n.ctx, (ast.Store, ast.Del))]
                        inside = {id(n) for n in ast.walk(l)} | {id(n) for n in ast.walk(prev)}
                        later = [n for n in ast.walk(fn) if isinstance(n, ast.Name) and n.id == c and id(n) not in inside]
                        if not stores and not later and c not in {n.id for n in ast.walk(l.iter) if isinstance(n, ast.Name)}:
                            l.target = ast.Tuple(elts=[ast.Name(id=c, ctx=ast.Store()), l.target], ctx=ast.Store())
                            l.iter = ast.Call(func=ast.Name(id='enumerate', ctx=ast.Load()), args=[l.iter], keywords=[])
                            l.body = l.body[1:] or [ast.Pass()]
                            blk[k - 1] = ast.copy_location(ast.Pass(), prev)
                            ast.fix_missing_locations(l)
                            count[0] += 1
                    # N43 (also for the element under enumerate)
                    tgt_holder = None
                    if isinstance(l.target, ast.Name):
                        tgt_holder = ('direct', l.target.id)
                    elif isinstance(l.target, ast.Tuple) and len(l.target.elts) == 2 and isinstance(l.target.elts[1], ast.Name) and isinstance(l.iter, ast.Call) \
                            and isinstance(l.iter.func, ast.Name) and l.iter.func.id == 'enumerate':
                        tgt_holder = ('enum', l.target.elts[1].id)
                    if tgt_holder is None:
                        continue
                    x = tgt_holder[1]
                    for j, st in enumerate(l.body):
                        if isinstance(st, ast.Assign) and len(st.targets) == 1 and isinstance(st.targets[0], (ast.Tuple, ast.List)) and isinstance(st.value, ast.Name) and st.value.id == x \
                                and all(isinstance(e, ast.Name) for e in st.targets[0].elts):
                            names = {e.id for e in st.targets[0].elts}
                            uses = [n for n in ast.walk(fn) if isinstance(n, ast.Name) and n.id == x and n is not st.value and not any(n is t_ for t_ in ast.walk(l.target))]
                            before = {n.id for b in l.body[:j] for n in ast.walk(b) if isinstance(n, ast.Name)}
                            bound_elsewhere = [n for n in ast.walk(fn) if isinstance(n, ast.Name) and n.id in names and isinstance(n.ctx, ast.Store) and not any(n is t_ for t_ in ast.walk(st))]
                            # further reads of X inside the loop body (after an unpacking that is the first statement; X and a, b, c not re-bound in the body, X not read
                            # after the loop) are reads of the tuple (a, b, c)
                            body_ids = {id(n) for b in l.body for n in ast.walk(b)}
                            if uses and j == 0 and all(id(n) in body_ids and isinstance(n.ctx, ast.Load) for n in uses) \
                                    and not any(isinstance(n, ast.Name) and n.id in names | {x} and isinstance(n.ctx, (ast.Store, ast.Del)) for b in l.body[1:] for n in ast.walk(b)):
                                class _R(ast.NodeTransformer):
                                    def visit_Name(self, node):
                                        if node.id == x and isinstance(node.ctx, ast.Load):
                                            return ast.copy_location(ast.Tuple(elts=[ast.Name(id=e.id, ctx=ast.Load()) for e in st.targets[0].elts], ctx=ast.Load()), node)
                                        return node
                                l.body[1:] = [_R().visit(b) for b in l.body[1:]]
                                uses = []
                                bound_elsewhere = []
                            if not uses and not (before & (names | {x})) and not bound_elsewhere:
                                new_t = ast.Tuple(elts=[ast.Name(id=e.id, ctx=ast.Store()) for e in st.targets[0].elts], ctx=ast.Store())
                                if tgt_holder[0] == 'direct':
                                    l.target = new_t
                                else:
                                    l.target.elts[1] = new_t
                                del l.body[j]
                                if not l.body:
                                    l.body = [ast.Pass()]
                                ast.fix_missing_locations(l)
                                count[0] += 1
                            break
                # remove the Pass placeholders left by N28b
                blk[:] = [b for b in blk if not (isinstance(b, ast.Pass) and len(blk) > 1)] or blk
    return count[0]


def partials_to_calls(tree):
    """N45  `p = partial(F, a, k=b)` (bound once, only ever called; a, b plain names / attributes / constants that are not re-bound afterwards) makes
    `p(x, m=y)` the call `F(a, x, k=b, m=y)`"""
    import copy
    count = [0]
    for fn in [n for n in ast.walk(tree) if isinstance(n, (ast.FunctionDef, ast.AsyncFunctionDef))]:
        for blk_holder in list(ast.walk(fn)):
            for fld in ('body', 'orelse', 'finalbody'):
                blk = getattr(blk_holder, fld, None)
                if not isinstance(blk, list):
                    continue
                for k, st in enumerate(list(blk)):
                    if not (isinstance(st, ast.Assign) and len(st.targets) == 1 and isinstance(st.targets[0], ast.Name) and isinstance(st.value, ast.Call)
                            and ast.unparse(st.value.func) in ('partial', 'functools.partial') and st.value.args):
                        continue
                    nm = st.targets[0].id
                    c = st.value
                    if any(isinstance(a, ast.Starred) for a in c.args) or any(kw.arg is None for kw in c.keywords):
                        continue

                    def simple(e):
                        return isinstance(e, (ast.Name, ast.Constant)) or (isinstance(e, ast.Attribute) and simple(e.value))
                    bound = list(c.args[1:]) + [kw.value for kw in c.keywords]
                    if not simple(c.args[0]) or not all(simple(b) for b in bound):
                        continue
                    stores = [n for n in ast.walk(fn) if isinstance(n, ast.Name) and n.id == nm and isinstance(n.ctx, (ast.Store, ast.Del))]
                    loads = [n for n in ast.walk(fn) if isinstance(n, ast.Name) and n.id == nm and isinstance(n.ctx, ast.Load)]
                    calls = [x for x in ast.walk(fn) if isinstance(x, ast.Call) and isinstance(x.func, ast.Name) and x.func.id == nm]
                    if len(stores) != 1 or not loads or len(calls) != len(loads):
                        continue
                    bnames = {n.id for b in bound + [c.args[0]] for n in ast.walk(b) if isinstance(n, ast.Name)}
                    later_stores = [n for n in ast.walk(fn) if isinstance(n, ast.Name) and n.id in bnames and isinstance(n.ctx, (ast.Store, ast.Del)) and getattr(n, 'lineno', 0) > st.lineno]
                    if later_stores:
                        continue
                    for x in calls:
                        if any(kw.arg is None for kw in x.keywords) or {kw.arg for kw in x.keywords} & {kw.arg for kw in c.keywords}:
                            break
                    else:
                        for x in calls:
                            x.func = copy.deepcopy(c.args[0])
                            x.args = [copy.deepcopy(a) for a in c.args[1:]] + list(x.args)
                            x.keywords = [copy.deepcopy(kw) for kw in c.keywords] + list(x.keywords)
                        blk.remove(st)
                        if not blk:
                            blk.append(ast.copy_location(ast.Pass(), st))
                        count[0] += 1
    return count[0]


def filled_arrays_to_fromiter(tree):
    """N46  `A = np.empty(len(F), dtype=D)` + `for i, x in enumerate(F): A[i] = E(x)`  ->  `A = np.fromiter((E(x) for x in F), dtype=D)`"""
    count = [0]
    for par in list(ast.walk(tree)):
        for fld in ('body', 'orelse', 'finalbody'):
            blk = getattr(par, fld, None)
            if not isinstance(blk, list):
                continue
            k = 0
            while k + 1 < len(blk):
                a, l = blk[k], blk[k + 1]
                k += 1
                if not (isinstance(a, ast.Assign) and len(a.targets) == 1 and isinstance(a.targets[0], ast.Name) and isinstance(a.value, ast.Call)
                        and ast.unparse(a.value.func) in ('np.empty', 'np.zeros', 'numpy.empty', 'numpy.zeros') and len(a.value.args) >= 1):
                    continue
                n0 = a.value.args[0]
                if not (isinstance(n0, ast.Call) and isinstance(n0.func, ast.Name) and n0.func.id == 'len' and len(n0.args) == 1):
                    continue
                F = ast.unparse(n0.args[0])
                if not (isinstance(l, ast.For) and not l.orelse and isinstance(l.target, ast.Tuple) and len(l.target.elts) == 2 and isinstance(l.target.elts[0], ast.Name)
                        and isinstance(l.iter, ast.Call) and isinstance(l.iter.func, ast.Name) and l.iter.func.id == 'enumerate' and len(l.iter.args) == 1 and ast.unparse(l.iter.args[0]) == F
                        and len(l.body) == 1 and isinstance(l.body[0], ast.Assign) and len(l.body[0].targets) == 1):
                    continue
                A, i = a.targets[0].id, l.target.elts[0].id
                t = l.body[0].targets[0]
                if not (isinstance(t, ast.Subscript) and isinstance(t.value, ast.Name) and t.value.id == A and isinstance(t.slice, ast.Name) and t.slice.id == i):
                    continue
                E = l.body[0].value
                if any(isinstance(n, ast.Name) and n.id in (A, i) for n in ast.walk(E)):
                    continue
                dtype = [kw for kw in a.value.keywords if kw.arg == 'dtype'] or ([ast.keyword(arg='dtype', value=a.value.args[1])] if len(a.value.args) > 1 else [])
                ge = ast.GeneratorExp(elt=E, generators=[ast.comprehension(target=l.target.elts[1], iter=l.iter.args[0], ifs=[], is_async=0)])
                a.value = ast.Call(func=ast.Attribute(value=ast.Name(id='np', ctx=ast.Load()), attr='fromiter', ctx=ast.Load()), args=[ge], keywords=dtype)
                ast.fix_missing_locations(a)
                del blk[k]
                count[0] += 1
    return count[0]


def search_loops_to_any(tree):
    """N47  `for T in I: if C: X = True; break` / `else: X = False`  ->  `X = any(C for T in I)` (and the mirrored all form `if C: X = False; break / else: X = True`
    -> `X = all(not C ..)`) when C is call-free (with a call in C the loop form is the canonical one, see N27)"""
    count = [0]
    for par in list(ast.walk(tree)):
        for fld in ('body', 'orelse', 'finalbody'):
            blk = getattr(par, fld, None)
            if not isinstance(blk, list):
                continue
            for k, l in enumerate(blk):
                if not (isinstance(l, ast.For) and len(l.body) == 1 and isinstance(l.body[0], ast.If) and not l.body[0].orelse and len(l.body[0].body) == 2
                        and isinstance(l.body[0].body[1], ast.Break) and isinstance(l.body[0].body[0], ast.Assign) and len(l.orelse) == 1 and isinstance(l.orelse[0], ast.Assign)):
                    continue
                hit, miss = l.body[0].body[0], l.orelse[0]
                if not (len(hit.targets) == 1 and len(miss.targets) == 1 and isinstance(hit.targets[0], ast.Name) and isinstance(miss.targets[0], ast.Name) and hit.targets[0].id == miss.targets[0].id
                        and isinstance(hit.value, ast.Constant) and isinstance(miss.value, ast.Constant) and {hit.value.value, miss.value.value} == {True, False}
                        and isinstance(hit.value.value, bool)):
                    continue
                C = l.body[0].test
                if any(isinstance(n, (ast.Call, ast.Yield, ast.YieldFrom, ast.Await, ast.NamedExpr)) for n in ast.walk(C)):
                    continue
                x = hit.targets[0].id
                tnames = {n.id for n in ast.walk(l.target) if isinstance(n, ast.Name)}
                if x in tnames or x in {n.id for n in ast.walk(C) if isinstance(n, ast.Name)}:
                    continue
                elt = C if hit.value.value is True else push_not(C)
                fn = 'any' if hit.value.value is True else 'all'
                new = ast.Assign(targets=[ast.Name(id=x, ctx=ast.Store())], value=ast.Call(func=ast.Name(id=fn, ctx=ast.Load()), args=[
                    ast.GeneratorExp(elt=elt, generators=[ast.comprehension(target=l.target, iter=l.iter, ifs=[], is_async=0)])], keywords=[]))
                blk[k] = ast.fix_missing_locations(ast.copy_location(new, l))
                count[0] += 1
    return count[0]


def merge_twin_branches(tree):
    """N30: `if c: T(A) else: T(B)` where both arms are the same single statement up to one sub-expression (the same call / assignment with
    one differing argument or value) -> `T(A if c else B)`."""
    import copy
    count = [0]

    def diff(a, b):
        """the unique pair of differing sub-expressions of two ASTs of the same shape, or None (no difference / more than one / other shape)"""
        if type(a) is not type(b):
            return (a, b) if isinstance(a, ast.expr) and isinstance(b, ast.expr) else False
        if isinstance(a, ast.expr) and ast.dump(a) == ast.dump(b):
            return None
        found = None
        for (fa, va), (fb, vb) in zip(ast.iter_fields(a), ast.iter_fields(b)):
            if isinstance(va, list) and isinstance(vb, list):
                if len(va) != len(vb):
                    return (a, b) if isinstance(a, ast.expr) else False
                pairs = list(zip(va, vb))
            else:
                pairs = [(va, vb)]
            for x, y in pairs:
                if isinstance(x, ast.AST) and isinstance(y, ast.AST):
                    d = diff(x, y)
                    if d is False:
                        return (a, b) if isinstance(a, ast.expr) else False
                    if d is not None:
                        if found is not None:
                            return (a, b) if isinstance(a, ast.expr) else False
                        found = d
                elif x != y:
                    return (a, b) if isinstance(a, ast.expr) else False
        return found

    def rec(stmts):
        out = []
        for s in stmts:
            for fld in ('body', 'orelse', 'finalbody'):
                sub = getattr(s, fld, None)
                if isinstance(sub, list) and sub and isinstance(sub[0], ast.stmt) and not isinstance(s, (ast.FunctionDef, ast.AsyncFunctionDef, ast.ClassDef)):
                    setattr(s, fld, rec(sub))
            if isinstance(s, ast.Try):
                for h in s.handlers:
                    h.body = rec(h.body)
            if isinstance(s, ast.If) and len(s.body) == 1 and len(s.orelse) == 1 and type(s.body[0]) is type(s.orelse[0]) and isinstance(s.body[0], ast.Expr) \
                    and isinstance(s.body[0].value, ast.Call) and isinstance(s.orelse[0].value, ast.Call) and isinstance(s.body[0].value.func, ast.Attribute) \
                    and s.body[0].value.func.attr in ('append', 'add'):
                d = diff(s.body[0], s.orelse[0])
                if d and d is not False and isinstance(d[0], ast.expr) and d[0] is not s.body[0].value and d[0] is not s.body[0].value.func:
                    a, b = d
                    new = copy.deepcopy(s.body[0])
                    # locate the differing node in the copy by position in a parallel walk
                    for x, y in zip(ast.walk(s.body[0]), ast.walk(new)):
                        if x is a:
                            target = y
                            break
                    else:
                        target = None
                    if target is not None:
                        repl = ast.IfExp(test=s.test, body=a, orelse=b)
                        for parent in ast.walk(new):
                            for fld, val in ast.iter_fields(parent):
                                if val is target:
                                    setattr(parent, fld, repl)
                                elif isinstance(val, list):
                                    for k, item in enumerate(val):
                                        if item is target:
                                            val[k] = repl
                        ast.copy_location(new, s)
                        ast.fix_missing_locations(new)
                        out.append(new)
                        count[0] += 1
                        continue
            out.append(s)
        return out
    for node in ast.walk(tree):
        if isinstance(node, (ast.FunctionDef, ast.AsyncFunctionDef)):
            node.body = rec(node.body)
    return count[0]


def normalize(tree):
    n = Normalizer()
    n_dec = expand_prologue_decorators(tree)
    tree = n.visit(tree)
    n.counts['prologue_decorators'] = n_dec
    n.counts['iterate_self'] = iterate_self(tree)
    n.counts['quantifiers_over_literals'] = quantifiers_over_literals(tree)
    n.counts['print_to_write'] = print_to_write(tree)
    n.counts['filled_arrays'] = filled_arrays_to_fromiter(tree)
    n.counts['partials'] = partials_to_calls(tree)
    n.counts['zip_of_maps'] = zip_of_maps(tree)
    n.counts['generators_to_loops'] = generators_to_loops(tree)
    n.counts['any_counters'] = any_to_loop_and_counters_to_enumerate(tree)
    n.counts['loop_target_unpacking'] = loop_target_unpacking(tree)
    n.counts['dict_updates_merged'] = merge_dict_updates(tree)
    n.counts['loop_exit_hoisted'] = hoist_loop_exit_assignments(tree)
    n.counts['counting_while'] = counting_while_to_for(tree)
    n.counts['tail_iteration'] = tail_iteration_to_recursion(tree)
    n.counts['twin_branches'] = merge_twin_branches(tree)
    n.counts['loop_to_comprehension'] = loops_to_comprehensions(tree)
    n.counts['search_loops_to_any'] = search_loops_to_any(tree)
    n.counts['enumerate_dropped'] = drop_unused_enumerate(tree)
    return tree, n.counts


def value_objects_to_locals(tree):
    """N48 - a local value object: `v = Cls(a, b)` where Cls is a class of this module whose __init__ only stores its parameters (`self.x = x`), v is bound
    once in the function and used only through attribute reads `v.x` of those stored fields (the method calls on it have been inlined before): every `v.x`
    is the constructor argument itself.  Applied when each argument is a constant or a name that is not re-bound after the construction."""
    classes = {c.name: c for c in tree.body if isinstance(c, ast.ClassDef)}
    fields = {}
    for name, c in classes.items():
        init = next((m for m in c.body if isinstance(m, ast.FunctionDef) and m.name == '__init__'), None)
        if init is None or init.args.vararg or init.args.kwarg or init.args.kwonlyargs:
            continue
        params = [a.arg for a in init.args.args][1:]
        mapping, ok = {}, True
        for st in init.body:
            if isinstance(st, ast.Expr) and isinstance(st.value, ast.Constant):
                continue
            if isinstance(st, ast.Assign) and len(st.targets) == 1 and isinstance(st.targets[0], ast.Attribute) and isinstance(st.targets[0].value, ast.Name) \
                    and st.targets[0].value.id == 'self' and isinstance(st.value, ast.Name) and st.value.id in params:
                mapping[st.targets[0].attr] = st.value.id
            else:
                ok = False
        # no other method may write the fields
        for m in c.body:
            if isinstance(m, ast.FunctionDef) and m.name != '__init__':
                for n in ast.walk(m):
                    if isinstance(n, ast.Attribute) and isinstance(n.ctx, (ast.Store, ast.Del)) and isinstance(n.value, ast.Name) and n.value.id == 'self':
                        ok = False
        if ok and mapping:
            fields[name] = (params, init.args.defaults, mapping)
    if not fields:
        return 0
    count = 0
    for f in [n for n in ast.walk(tree) if isinstance(n, (ast.FunctionDef, ast.AsyncFunctionDef))]:
        own = [n for st in f.body for n in _walk_own_stmt(st)]
        for st in own:
            if not (isinstance(st, ast.Assign) and len(st.targets) == 1 and isinstance(st.targets[0], ast.Name) and isinstance(st.value, ast.Call)
                    and isinstance(st.value.func, ast.Name) and st.value.func.id in fields):
                continue
            v = st.targets[0].id
            params, defaults, mapping = fields[st.value.func.id]
            if any(isinstance(a, ast.Starred) for a in st.value.args) or any(k.arg is None for k in st.value.keywords):
                continue
            bound = dict(zip(params, st.value.args))
            bound.update({k.arg: k.value for k in st.value.keywords})
            for p_, d_ in zip(params[len(params) - len(defaults):], defaults):
                bound.setdefault(p_, d_)
            if set(mapping.values()) - set(bound):
                continue
            stores = [n for n in own if isinstance(n, ast.Name) and n.id == v and isinstance(n.ctx, (ast.Store, ast.Del))]
            if len(stores) != 1:
                continue
            uses = [n for n in own if isinstance(n, ast.Name) and n.id == v and isinstance(n.ctx, ast.Load)]
            attr_uses = [n for n in own if isinstance(n, ast.Attribute) and isinstance(n.value, ast.Name) and n.value.id == v and isinstance(n.ctx, ast.Load) and n.attr in mapping]
            if len(uses) != len(attr_uses) or not uses:
                continue
            # every argument: a constant, or a name bound at most once in the function (parameter or single assignment) and not after the construction
            okargs = True
            for fld, par in mapping.items():
                a = bound[par]
                if isinstance(a, ast.Constant):
                    continue
                if not isinstance(a, ast.Name):
                    okargs = False
                    break
                later = [n for n in own if isinstance(n, ast.Name) and n.id == a.id and isinstance(n.ctx, (ast.Store, ast.Del)) and (n.lineno, n.col_offset) > (st.lineno, st.col_offset)]
                if later:
                    okargs = False
                    break
            if not okargs:
                continue
            import copy as _copy

            class _Sub(ast.NodeTransformer):
                def visit_Attribute(self, node):
                    self.generic_visit(node)
                    if isinstance(node.value, ast.Name) and node.value.id == v and isinstance(node.ctx, ast.Load) and node.attr in mapping:
                        return ast.copy_location(_copy.deepcopy(bound[mapping[node.attr]]), node)
                    return node
            _Sub().visit(f)
            # the construction itself is dropped (its value is no longer read)
            class _Drop(ast.NodeTransformer):
                def visit_Assign(self, node):
                    return None if node is st else node
            _Drop().visit(f)
            for n in ast.walk(f):
                for fld in ('body', 'orelse', 'finalbody'):
                    if isinstance(getattr(n, fld, None), list) and not getattr(n, fld) and fld == 'body':
                        n.body = [ast.Pass()]
            count += 1
    return count


def _walk_own_stmt(st):
    """nodes of a statement, nested function / class bodies excluded"""
    todo = [st]
    while todo:
        n = todo.pop()
        yield n
        for c in ast.iter_child_nodes(n):
            if isinstance(c, (ast.FunctionDef, ast.AsyncFunctionDef, ast.ClassDef, ast.Lambda)):
                continue
            todo.append(c)


def immediate_partials_to_calls(tree):
    """N45b  `partial(F, a, k=b)(x, m=y)` - a partial application that is called on the spot - is the call `F(a, x, k=b, m=y)`"""
    count = [0]

    class T(ast.NodeTransformer):
        def visit_Call(self, node):
            self.generic_visit(node)
            c = node.func
            if isinstance(c, ast.Call) and ast.unparse(c.func) in ('partial', 'functools.partial') and c.args and not any(isinstance(a, ast.Starred) for a in c.args) \
                    and not any(kw.arg is None for kw in c.keywords + node.keywords) and not ({kw.arg for kw in c.keywords} & {kw.arg for kw in node.keywords}):
                count[0] += 1
                return ast.copy_location(ast.Call(func=c.args[0], args=list(c.args[1:]) + list(node.args), keywords=list(c.keywords) + list(node.keywords)), node)
            return node
    T().visit(tree)
    return count[0]


def expand_prologue_decorators(tree):
    """N49 - a prologue decorator: a module level decorator (factory) whose wrapper runs some statements and then tail-calls the wrapped function with the very
    arguments it received (`def wrapper(self, chrom, *args, **kwargs): <prologue>; return f(self, chrom, *args, **kwargs)`).  A function decorated with it is that
    function with the prologue in front: the decorator is removed, the prologue is copied to the top of the body with the wrapper's named parameters renamed to the
    function's own parameters and the factory's parameters replaced by the (constant / named) arguments of the decoration."""
    import copy
    top = {f.name: f for f in tree.body if isinstance(f, ast.FunctionDef)}

    def wrapper_of(fac):
        """(factory params+defaults, wrapped-function param name, wrapper def) when `fac` is a prologue decorator (factory or plain)"""
        body = [s for s in fac.body if not (isinstance(s, ast.Expr) and isinstance(s.value, ast.Constant))]
        # factory: def fac(p..): def decorate(f): def w(..): ...; return w; return decorate
        if len(body) == 2 and isinstance(body[0], ast.FunctionDef) and isinstance(body[1], ast.Return) and isinstance(body[1].value, ast.Name) and body[1].value.id == body[0].name:
            inner = wrapper_of(body[0])
            if inner is not None and inner[0] is None:
                return (fac.args, inner[1], inner[2])
            # plain decorator: def decorate(f): def w(..): ...; return w
            dec = body[0]
            if len(fac.args.args) == 1 and not fac.args.defaults:
                fparam = fac.args.args[0].arg
                w = dec
                wb = [s for s in w.body if not (isinstance(s, ast.Expr) and isinstance(s.value, ast.Constant))]
                if wb and isinstance(wb[-1], ast.Return) and isinstance(wb[-1].value, ast.Call) and isinstance(wb[-1].value.func, ast.Name) and wb[-1].value.func.id == fparam:
                    return (None, fparam, w)
        return None
    count = 0
    for holder in [tree] + [c for c in ast.walk(tree) if isinstance(c, ast.ClassDef)]:
        for fn in [f for f in holder.body if isinstance(f, ast.FunctionDef)]:
            for d in list(fn.decorator_list):
                name = d.func.id if isinstance(d, ast.Call) and isinstance(d.func, ast.Name) else (d.id if isinstance(d, ast.Name) else None)
                if name not in top:
                    continue
                info = wrapper_of(top[name])
                if info is None:
                    continue
                fargs, fparam, w = info
                if (fargs is None) != isinstance(d, ast.Name):
                    continue
                call = w.body[-1].value if isinstance(w.body[-1], ast.Return) else None
                wb = [s for s in w.body if not (isinstance(s, ast.Expr) and isinstance(s.value, ast.Constant))]
                call = wb[-1].value
                named = [a.arg for a in w.args.args]
                # the tail call passes the wrapper's own parameters straight through
                passed = [a.id if isinstance(a, ast.Name) else None for a in call.args if not isinstance(a, ast.Starred)]
                if passed != named or len([a for a in call.args if isinstance(a, ast.Starred)]) != (1 if w.args.vararg else 0) or len(call.keywords) != (1 if w.args.kwarg else 0):
                    continue
                own = [a.arg for a in fn.args.args]
                if len(own) < len(named):
                    continue
                prologue = wb[:-1]
                stored = {n.id for s in prologue for n in ast.walk(s) if isinstance(n, ast.Name) and isinstance(n.ctx, (ast.Store, ast.Del))}
                if stored & set(named) or any(isinstance(n, ast.Name) and n.id in {x for x in (w.args.vararg.arg if w.args.vararg else None, w.args.kwarg.arg if w.args.kwarg else None) if x}
                                              for s in prologue for n in ast.walk(s)):
                    continue
                sub = {}
                for wn, on in zip(named, own):
                    if wn != on:
                        sub[wn] = ast.Name(id=on, ctx=ast.Load())
                if fargs is not None:
                    fparams = [a.arg for a in fargs.args]
                    bound = dict(zip(fparams, d.args))
                    bound.update({k.arg: k.value for k in d.keywords if k.arg})
                    for p_, dflt in zip(fparams[len(fparams) - len(fargs.defaults):], fargs.defaults):
                        bound.setdefault(p_, dflt)
                    if set(fparams) - set(bound) or any(not isinstance(v, (ast.Constant, ast.Name)) for v in bound.values()):
                        continue
                    if stored & set(fparams):
                        continue
                    sub.update(bound)
                # locals of the prologue must not clash with names of the function
                fn_names = {n.id for n in ast.walk(fn) if isinstance(n, ast.Name)} | set(own)
                ren = {n: f'{n}__p{count}' for n in stored if n in fn_names}
                new = []
                for s in prologue:
                    s2 = copy.deepcopy(s)

                    class T(ast.NodeTransformer):
                        def visit_Name(self, node):
                            if node.id in ren:
                                node.id = ren[node.id]
                                return node
                            if isinstance(node.ctx, ast.Load) and node.id in sub:
                                return ast.copy_location(copy.deepcopy(sub[node.id]), node)
                            return node

                        def visit_ExceptHandler(self, node):
                            if node.name in ren:
                                node.name = ren[node.name]
                            self.generic_visit(node)
                            return node
                    new.append(T().visit(s2))
                k = 1 if fn.body and isinstance(fn.body[0], ast.Expr) and isinstance(fn.body[0].value, ast.Constant) else 0
                for s2 in new:
                    for n_ in ast.walk(s2):
                        if hasattr(n_, 'lineno'):
                            n_.lineno = fn.body[k].lineno if k < len(fn.body) else fn.lineno
                            n_.end_lineno = n_.lineno
                fn.body[k:k] = new
                fn.decorator_list.remove(d)
                count += 1
    if count:
        ast.fix_missing_locations(tree)
    return count


def class_constant_tables(tree):
    """N50a: a class-level table of constants (`_NAMES = ('a', 'b')`, never re-bound through self / cls / the class) that a method of the class iterates over
    (`for x in self._NAMES:`) is written out at the loop, so that the literal-loop unrolling (N14) applies to it as it does to a table written in place."""
    import copy
    count = 0
    stores = {(n.value.id if isinstance(n.value, ast.Name) else None, n.attr) for n in ast.walk(tree) if isinstance(n, ast.Attribute) and isinstance(n.ctx, (ast.Store, ast.Del))}
    for cdef in [c for c in ast.walk(tree) if isinstance(c, ast.ClassDef)]:
        tables = {}
        for st in cdef.body:
            if isinstance(st, ast.Assign) and len(st.targets) == 1 and isinstance(st.targets[0], ast.Name) and isinstance(st.value, (ast.Tuple, ast.List)) \
                    and 0 < len(st.value.elts) <= 16 and all(isinstance(e, ast.Constant) for e in st.value.elts):
                name = st.targets[0].id
                if sum(1 for x in cdef.body if isinstance(x, ast.Assign) and any(isinstance(t, ast.Name) and t.id == name for t in x.targets)) == 1 \
                        and not any(a == name for _, a in stores):
                    tables[name] = st.value
        if not tables:
            continue
        for l in [x for x in ast.walk(cdef) if isinstance(x, ast.For)]:
            it = l.iter
            if isinstance(it, ast.Attribute) and it.attr in tables and isinstance(it.value, ast.Name) and it.value.id in ('self', 'cls', cdef.name):
                l.iter = ast.copy_location(copy.deepcopy(tables[it.attr]), it)
                count += 1
    return count


def constant_getattr(tree):
    """N50b: `getattr(obj, 'name')` with a constant identifier and no default is the attribute access `obj.name`"""
    count = 0

    class T(ast.NodeTransformer):
        def visit_Call(self, n):
            nonlocal count
            self.generic_visit(n)
            if isinstance(n.func, ast.Name) and n.func.id == 'getattr' and len(n.args) == 2 and not n.keywords and isinstance(n.args[1], ast.Constant) \
                    and isinstance(n.args[1].value, str) and n.args[1].value.isidentifier():
                count += 1
                return ast.copy_location(ast.Attribute(value=n.args[0], attr=n.args[1].value, ctx=ast.Load()), n)
            return n
    T().visit(tree)
    return count


def quantifiers_over_literals(tree, max_items=6):
    """N51: `any(P(x) for x in (a, b, c))` is `P(a) or P(b) or P(c)`, `all(...)` the conjunction - for a literal tuple / list of constants and a call-light
    predicate (a quantifier over a written-out table reads like the written-out test)."""
    import copy
    count = 0

    class Sub(ast.NodeTransformer):
        def __init__(self, name, val):
            self.name, self.val = name, val

        def visit_Name(self, node):
            if node.id == self.name and isinstance(node.ctx, ast.Load):
                return copy.deepcopy(self.val)
            return node

    class T(ast.NodeTransformer):
        def visit_Call(self, n):
            nonlocal count
            self.generic_visit(n)
            if isinstance(n.func, ast.Name) and n.func.id in ('any', 'all') and len(n.args) == 1 and not n.keywords and isinstance(n.args[0], (ast.GeneratorExp, ast.ListComp)):
                g = n.args[0]
                if len(g.generators) == 1 and not g.generators[0].ifs and not g.generators[0].is_async and isinstance(g.generators[0].target, ast.Name) \
                        and isinstance(g.generators[0].iter, (ast.Tuple, ast.List)) and 1 <= len(g.generators[0].iter.elts) <= max_items \
                        and all(isinstance(e, ast.Constant) for e in g.generators[0].iter.elts) \
                        and not any(isinstance(x, (ast.Lambda, ast.Yield, ast.YieldFrom, ast.NamedExpr, ast.GeneratorExp, ast.ListComp)) for x in ast.walk(g.elt)):
                    x = g.generators[0].target.id
                    terms = [Sub(x, e).visit(copy.deepcopy(g.elt)) for e in g.generators[0].iter.elts]
                    count += 1
                    if len(terms) == 1:
                        return ast.copy_location(terms[0], n)
                    return ast.copy_location(ast.BoolOp(op=ast.Or() if n.func.id == 'any' else ast.And(), values=terms), n)
            return n
    T().visit(tree)
    ast.fix_missing_locations(tree)
    return count


def print_to_write(tree):
    """N52: `print(a, b, sep='\t', file=F)` (constant separator / end, no starred argument) is `F.write(f'{a}\t{b}\n')`"""
    count = 0

    class T(ast.NodeTransformer):
        def visit_Call(self, n):
            nonlocal count
            self.generic_visit(n)
            if isinstance(n.func, ast.Name) and n.func.id == 'print' and n.args and not any(isinstance(a, ast.Starred) for a in n.args):
                kw = {k.arg: k.value for k in n.keywords}
                if 'file' in kw and set(kw) <= {'file', 'sep', 'end'} and all(isinstance(kw[k_], ast.Constant) and isinstance(kw[k_].value, str) for k_ in ('sep', 'end') if k_ in kw):
                    sep = kw['sep'].value if 'sep' in kw else ' '
                    end = kw['end'].value if 'end' in kw else '\n'
                    vals = []
                    for i, a in enumerate(n.args):
                        if i:
                            vals.append(ast.Constant(value=sep))
                        vals.append(a if isinstance(a, ast.Constant) and isinstance(a.value, str) else ast.FormattedValue(value=a, conversion=-1, format_spec=None))
                    vals.append(ast.Constant(value=end))
                    merged = []
                    for v in vals:
                        if isinstance(v, ast.Constant) and merged and isinstance(merged[-1], ast.Constant):
                            merged[-1] = ast.Constant(value=merged[-1].value + v.value)
                        else:
                            merged.append(v)
                    count += 1
                    return ast.copy_location(ast.Call(func=ast.Attribute(value=kw['file'], attr='write', ctx=ast.Load()), args=[ast.JoinedStr(values=merged)], keywords=[]), n)
            return n
    T().visit(tree)
    ast.fix_missing_locations(tree)
    return count
