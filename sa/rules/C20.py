"""C20 - status marker reports success only for a complete, sorted, indexed output."""
import ast

from ..core import rule
from ..index import AnalysisError, dotted, src, walk_no_nested
from ..cfg import CFG
from ..util import (node_calls, node_call_names, calls_named, reach_from, literal_prefix, arg, ancestors, func_cfg,
                    cfg_nodes_containing, last_name, own_expr)
from .slots import BTM, BAMFUNC, NON_SUCCESS_STATUS, BENIGN_CALLS, TAGGING
from ..util import last_name
from . import C05_shared

WRITER_CONTEXTS = {'sorted_bam_file'}      # context managers whose *exit* finalises (close, re-header, sort, index) the output
FINALISERS = {'merge_bams'}                # calls that produce the final, indexed output
TAGGING_ENTRY = ('tag_multiome_single_thread', 'tag_multiome_multi_processing')


def status_calls(fdef):
    return calls_named(fdef, 'write_status')


def classify(call):
    msg = arg(call, 1, 'message')
    if msg is None:
        raise AnalysisError(f'write_status call at line {call.lineno} without message argument')
    lit = literal_prefix(msg)
    if lit is None or lit == '':
        raise AnalysisError(f'write_status message at line {call.lineno} is not a literal: {src(msg)}')
    for pre in NON_SUCCESS_STATUS:
        if lit.startswith(pre):
            return pre, lit
    return 'SUCCESS', lit


def functions_with_status(ix):
    m = ix.module(BTM)
    out = []
    for q, ds in m.defs.items():
        d = ds[-1]
        if isinstance(d, (ast.FunctionDef, ast.AsyncFunctionDef)) and status_calls(d):
            out.append((q, d))
    return out


def is_writer_with(w):
    for it in w.items:
        for c in walk_no_nested(it.context_expr):
            if isinstance(c, ast.Call) and last_name(dotted(c.func) or '') in WRITER_CONTEXTS:
                return True
    return False


def benign_node(n):
    names = node_call_names(n)
    if n.kind == 'with_exit':
        return not is_writer_with(n.ast) and False
    if not names:
        # a node without calls (e.g. subscripts only): treat as critical, exceptions there are real failures
        return False
    return all(x is not None and (x in BENIGN_CALLS or last_name(x) in ('write',) and x.startswith('sys.')) for x in names)


@rule('C20', 'C20-R1', 'every success status is written outside and after every writer context / after merge_bams, '
                       'and is unreachable from any exception edge of a non-cleanup statement')
def r1(ctx):
    ix = ctx.ix
    m = ix.module(BTM)
    n_success = 0
    for q, fdef in functions_with_status(ix):
        ctx.counters['functions_analysed'].add(f'{BTM}:{q}')
        succ_calls = [c for c in status_calls(fdef) if classify(c)[0] == 'SUCCESS']
        if not succ_calls:
            continue
        cfg = func_cfg(ix, fdef)
        dom = cfg.dominators()
        # targets of exception edges of critical nodes
        exc_targets = {}
        for n in cfg.nodes:
            for tgt, label in cfg.succ[n.id]:
                if label.startswith('exc:') and not benign_node(n):
                    exc_targets.setdefault(tgt, []).append(n)
        for call in succ_calls:
            n_success += 1
            lit = classify(call)[1]
            # (a) lexically outside any writer context
            inside = [a for a in ancestors(m, call) if isinstance(a, (ast.With, ast.AsyncWith)) and is_writer_with(a)]
            ctx.emit('C20-R1', not inside, BTM, call,
                     f'success marker {lit!r} ' + ('is written inside the open writer context '
                                                   f'`{src(inside[0].items[0].context_expr)[:60]}` (before close/re-header/sort/index)'
                                                   if inside else 'is outside every writer context'),
                     key=f'{q}:inside-writer-context', what=f'{q}: success status written inside the sorted_bam_file context')
            # (b) dominated by a finalisation event
            ids = cfg_nodes_containing(cfg, call)
            if not ids:
                raise AnalysisError(f'success marker at line {call.lineno} not found in CFG')
            fin_nodes = set()
            for n in cfg.nodes:
                if n.kind == 'with_exit' and n.info == 'normal' and is_writer_with(n.ast):
                    fin_nodes.add(n.id)
                if any(last_name(x or '') in FINALISERS for x in node_call_names(n)):
                    fin_nodes.add(n.id)
            okb = all(dom[i] & fin_nodes for i in ids)
            ctx.emit('C20-R1', okb, BTM, call,
                     f'success marker {lit!r} ' + ('is dominated by a finalisation event (writer context exit / merge_bams)'
                                                   if okb else 'can be reached without passing a writer-context exit or merge_bams'),
                     key=f'{q}:dominated-by-finalisation', what=f'{q}: success status not dominated by output finalisation')
            # (c) not reachable after a swallowed failure
            bad = []
            for tgt, srcs in exc_targets.items():
                r = reach_from(cfg, [tgt])
                if any(i in r for i in ids):
                    bad.extend(srcs)
            ctx.counters['paths_enumerated'] += len(exc_targets)
            ctx.emit('C20-R1', not bad, BTM, call,
                     f'success marker {lit!r} ' + ('is reachable after an exception raised by: ' +
                                                   '; '.join(sorted({repr(b) for b in bad}))[:400] if bad else
                                                   f'is unreachable from all {len(exc_targets)} exception-edge targets of non-cleanup statements'),
                     key=f'{q}:after-exception', what=f'{q}: success status reachable after a swallowed failure')
    ctx.need('C20-R1', n_success, 2, 'success status writes (single-thread + multiprocess)')


@rule('C20', 'C20-R2', 'the "unfinished" marker dominates both tagging entry points in run_multiome_tagging')
def r2(ctx):
    ix = ctx.ix
    fdef = ctx.fn(BTM, 'run_multiome_tagging')
    cfg = func_cfg(ix, fdef, exceptions=False)
    dom = cfg.dominators()
    unf = set()
    for c in status_calls(fdef):
        if classify(c)[0] == 'unfinished':
            unf.update(cfg_nodes_containing(cfg, c))
    n = 0
    for name in TAGGING_ENTRY:
        for call in calls_named(fdef, name):
            n += 1
            ids = cfg_nodes_containing(cfg, call)
            ok = bool(ids) and all(dom[i] & unf for i in ids)
            ctx.emit('C20-R2', ok, BTM, call,
                     f'call of {name} is ' + ('' if ok else 'NOT ') + 'dominated by write_status(..., "unfinished")',
                     key=f'unfinished-dominates:{name}:{n}')
    ctx.need('C20-R2', n, 2, 'calls of the tagging entry points')
    # the marker and the success markers address the same file: first argument is the output path parameter
    for c in status_calls(fdef):
        if classify(c)[0] == 'unfinished':
            a0 = arg(c, 0, 'output_path')
            ok = a0 is not None and src(a0) == 'args.o'
            ctx.emit('C20-R2', ok, BTM, c, f'unfinished marker is written for {src(a0)} (the -o output)', key='unfinished-path')


@rule('C20', 'C20-R3', 'an except arm that records a failure status re-raises on every path; no except arm around '
                       'the tagging calls swallows the failure')
def r3(ctx):
    ix = ctx.ix
    m = ix.module(BTM)
    n = 0
    for q, fdef in functions_with_status(ix):
        for h in [x for x in walk_no_nested(fdef) if isinstance(x, ast.ExceptHandler)]:
            fails = [c for c in calls_named(h, 'write_status') if classify(c)[0] == 'FAIL']
            if not fails:
                continue
            n += 1
            cfg = CFG(h.body, is_subclass=ix.is_subclass_name, exceptions=False)
            ends = {cfg.nodes[p[-1][0]].info for p, _ in cfg.paths()}
            ok = ends <= {'raise'}
            ctx.emit('C20-R3', ok, BTM, h, f'failure arm in {q} ends in {sorted(ends)} ' +
                     ('(re-raises on every path)' if ok else '(the failure can be swallowed)'), key=f'{q}:fail-arm-reraises')
    ctx.need('C20-R3', n, 1, 'failure arms writing a FAIL status')
    # the status written by tag_multiome_* uses the same path parameter the output is written to
    for q in TAGGING_ENTRY:
        fdef = ctx.fn(BTM, q)
        outs = set()
        for w in [x for x in walk_no_nested(fdef) if isinstance(x, (ast.With, ast.AsyncWith)) and is_writer_with(x)]:
            for it in w.items:
                for c in walk_no_nested(it.context_expr):
                    if isinstance(c, ast.Call) and last_name(dotted(c.func) or '') in WRITER_CONTEXTS and c.args:
                        outs.add(src(c.args[0]))
        for c in calls_named(fdef, 'merge_bams'):
            a = arg(c, 1, 'output_path')
            if a is not None:
                outs.add(src(a))
        for c in status_calls(fdef):
            a0 = arg(c, 0, 'output_path')
            ok = a0 is not None and src(a0) in outs
            ctx.emit('C20-R3', ok, BTM, c, f'status of {q} is written for `{src(a0)}`; output written to {sorted(outs)}',
                     key=f'{q}:status-path:{classify(c)[0]}')


@rule('C20', 'C20-R4', 'the writer context finalises in the order close -> read-group header -> sort -> index; '
                       'merge_bams indexes on both arms; sort_and_index re-raises the last failed sort')
def r4(ctx):
    C05_shared.writer_finalisation(ctx, 'C20-R4')


@rule('C20', 'C20-R5', 'fixture: a success marker inside the writer context / in a finally / after a swallowed '
                       'merge failure is flagged (expected-positive examples, analysed on every run)')
def r5(ctx):
    from ..core import run_rules, VIOLATED
    from ..index import RepoIndex
    import os
    from ..core import VERIF
    fx = open(os.path.join(VERIF, 'fixtures', 'C20_positive.py')).read()
    real = ctx.ix.read(BTM)
    ix2 = RepoIndex(root=ctx.ix.root, overlay={BTM: real + '\n\n' + fx})
    sub = run_rules('C20', ix2, 'quick', only=['C20-R1'])
    flagged = {o.construct.split(':')[1] + ':' + o.construct.split(':')[-1] for o in sub.obligations if o.status == VIOLATED}
    expect = {'fixture_marker_inside_context:inside-writer-context', 'fixture_marker_in_finally:after-exception',
              'fixture_swallowed_merge:after-exception'}
    # constructs are 'file:qualname:rule:key' where key contains qualname:kind
    got = set()
    for o in sub.obligations:
        if o.status == VIOLATED:
            parts = o.construct.split(':')
            got.add(parts[-2] + ':' + parts[-1])
    missing = expect - got
    if missing:
        raise AnalysisError(f'C20 fixture: expected-positive constructs not flagged: {sorted(missing)}')
    ctx.emit('C20-R5', True, BTM, None, f'{len(expect)} expected-positive fixture constructs flagged by C20-R1', nontrivial=False)


@rule('C20', 'C20-R6', 'no records vanish under a success status in the workers: a per-job BAM is kept iff any of its tasks wrote a molecule (shared with '
                       'C05-R7), and only a time-out is turned into a skipped ("blacklisted") region - every other failure of a worker propagates')
def r6(ctx):
    from . import C05
    from ..core import include
    from . import C07
    # "success implies the output holds every record": the job list covers every contig with reads exactly once (C05-R1/R2), every job BAM
    # reaches the merge (C05-R7), and the molecule iterator emits every fragment exactly once (C07-R2)
    include(ctx, C05, [C05.r1, C05.r2, C05.r3, C05.r7], 'C20-R6')
    include(ctx, C07, [C07.r2, C07.r1, C07.r3], 'C20-R6')
    from . import C08
    C08.whole_contig_task_unwindowed(ctx, 'C20-R6')
    C05.fragment_writes_all_reads(ctx, 'C20-R6')
    g = ctx.fn(TAGGING, 'run_tagging_tasks')
    hs = [h for t in walk_no_nested(g) if isinstance(t, ast.Try) for h in t.handlers
          if any(isinstance(c, ast.Call) and last_name(dotted(c.func) or '') == 'run_tagging_task' for b in t.body for c in ast.walk(b))]
    ctx.need('C20-R6', len(hs), 1, 'except arms around run_tagging_task in the worker')
    for k, h in enumerate(hs):
        types = [None] if h.type is None else [dotted(t) for t in (h.type.elts if isinstance(h.type, ast.Tuple) else [h.type])]
        swallows = not any(isinstance(x, ast.Raise) for x in walk_no_nested(h))
        ok = (not swallows) or types == ['TimeoutError']
        ctx.emit('C20-R6', ok, TAGGING, h, f'worker except arm catches {types}' + (' and records the region as timed out' if swallows else ' and re-raises') +
                 ('' if ok else ': failures other than a time-out are reported as a skipped region and the run still ends with a success status'),
                 key=f'worker-swallows-only-timeout:{k}', what='run_tagging_tasks: an exception other than TimeoutError is swallowed as a time-out')


@rule('C20', 'C20-R7', 'the input index that is checked for staleness is the one the BAM library opens: get_index_path tries <bam>.bai before <stem>.bai (and '
                       '<bam>.csi before <stem>.csi) - htslib prefers the name with the full file name, so judging the other file fresh leaves a stale index in '
                       'use and fetches silently return the records of an older version of the file')
def r7(ctx):
    from ..consteval import fold, TOP
    f = ctx.fn(BAMFUNC, 'get_index_path')
    par = f.args.args[0].arg
    order = []
    unknown = []

    def walk(stmts, env):
        for st in stmts:
            if isinstance(st, ast.For) and isinstance(st.iter, (ast.List, ast.Tuple)) and isinstance(st.target, ast.Name):
                for e in st.iter.elts:
                    v = fold(e, env)
                    if v is TOP:
                        unknown.append(src(e))
                        continue
                    walk(st.body, dict(env, **{st.target.id: v}))
            elif isinstance(st, ast.If):
                for c in ast.walk(st.test):
                    if isinstance(c, ast.Call) and (dotted(c.func) or '').endswith('exists') and c.args:
                        v = fold(c.args[0], env)
                        if v is TOP:
                            unknown.append(src(c.args[0]))
                        else:
                            order.append(v)
                walk(st.body, env)
                walk(st.orelse, env)
            elif isinstance(st, ast.Assign) and len(st.targets) == 1 and isinstance(st.targets[0], ast.Name):
                v = fold(st.value, env)
                if v is not TOP:
                    env = dict(env, **{st.targets[0].id: v})
            elif isinstance(st, (ast.For, ast.While, ast.Try, ast.With)):
                unknown.append(type(st).__name__)
    walk(f.body, {par: 'lib.bam'})
    if unknown or not order:
        ctx.emit('C20-R7', False, BAMFUNC, f, f'candidate index paths of get_index_path cannot be enumerated ({unknown[:3]})', key='index-candidate-order', undecided=True)
        return
    bad = []
    for ext in ('.bai', '.csi'):
        full, stem = 'lib.bam' + ext, 'lib' + ext
        if stem in order and (full not in order or order.index(stem) < order.index(full)):
            bad.append((stem, full))
    ctx.emit('C20-R7', not bad, BAMFUNC, f, f'candidates for lib.bam are tried in the order {order}' + ('' if not bad else f': `{bad[0][0]}` is preferred over `{bad[0][1]}`, the index the BAM library opens - a stale '
             f'`{bad[0][1]}` next to a fresh `{bad[0][0]}` is then not rebuilt'), key='index-candidate-order', witness={'order': order} if bad else None,
             what='get_index_path prefers <stem>.bai over <bam>.bai')


PIPELINE_STEPS = [(BAMFUNC, 'sorted_bam_file'), (BAMFUNC, 'sort_and_index'), (BAMFUNC, 'write_program_tag'), (BAMFUNC, 'add_readgroups_to_header'),
                  (BAMFUNC, 'merge_bams'), (BTM, 'tag_multiome_single_thread'), (BTM, 'tag_multiome_multi_processing'), (BTM, 'run_multiome_tagging'),
                  (TAGGING, 'run_tagging_tasks'), (TAGGING, 'run_tagging_task')]


def _jumps_in_finally(fdef):
    """(finally-statement, jump) pairs: a return anywhere in a finally suite, or a break/continue that leaves it, discards the exception in flight"""
    out = []
    for t in [x for x in walk_no_nested(fdef) if isinstance(x, ast.Try) and x.finalbody]:
        def visit(n, in_loop):
            if isinstance(n, (ast.FunctionDef, ast.AsyncFunctionDef, ast.Lambda, ast.ClassDef)):
                return
            if isinstance(n, ast.Return) or (isinstance(n, (ast.Break, ast.Continue)) and not in_loop):
                out.append((t, n))
            for c in ast.iter_child_nodes(n):
                visit(c, in_loop or isinstance(n, (ast.For, ast.While, ast.AsyncFor)))
        for st in t.finalbody:
            visit(st, False)
    return out


@rule('C20', 'C20-R8', 'no pipeline step discards a failure in flight: no return/break/continue leaves a finally suite in the writer, sort, merge and tagging '
                       'functions, and every task submitted to the worker pool has its result (and with it the worker\'s exception) collected')
def r8(ctx):
    n = 0
    for rel, q in PIPELINE_STEPS:
        f = ctx.fn(rel, q)
        n += 1
        js = _jumps_in_finally(f)
        ctx.emit('C20-R8', not js, rel, js[0][1] if js else f, f'{q}: ' + ('no jump leaves a finally suite' if not js else
                 f'`{src(js[0][1])[:40]}` at line {js[0][1].lineno} leaves the finally suite: an exception raised in the try body is discarded and the caller goes on to the success status'),
                 key=f'{q}:finally-keeps-exception', witness={'fault': f'exception inside the try body of {q}', 'outcome': 'discarded by the jump in finally'} if js else None,
                 what=f'{q}: a jump in a finally suite swallows the failure')
    ctx.need('C20-R8', n, len(PIPELINE_STEPS), 'pipeline step functions')
    # a shell command run by one of the steps (and by the header rewrite they call) fails through its exit status only: the status is used (compared, asserted, returned),
    # never dropped as an expression statement
    mod = ctx.ix.module(BAMFUNC)
    for rel, q in PIPELINE_STEPS + [(BAMFUNC, 'replace_bam_header')]:
        f = ctx.fn(rel, q)
        m_ = ctx.ix.module(rel)
        for c in [x for x in walk_no_nested(f) if isinstance(x, ast.Call) and (dotted(x.func) or '') in ('os.system', 'subprocess.call', 'subprocess.run')]:
            par = m_.parent.get(c)
            checked_run = dotted(c.func) == 'subprocess.run' and any(k.arg == 'check' and isinstance(k.value, ast.Constant) and k.value.value is True for k in c.keywords)
            dropped = isinstance(par, ast.Expr) and not checked_run
            ctx.emit('C20-R8', not dropped, rel, c, f'{q}: the exit status of `{src(c)[:50]}` is used' if not dropped else
                     f'{q}: `{src(c)[:60]}` is run and its exit status dropped: when the command fails the step goes on with the stale / partial file and the run ends with the success status',
                     key=f'{q}:shell-status-used:{src(c.args[0])[:30] if c.args else ""}', witness={'fault': 'the shell command exits non-zero', 'outcome': 'ignored'} if dropped else None,
                     what=f'{q}: the exit status of a shell command is ignored', nontrivial=False)
    # pool submission: imap / imap_unordered / map re-raise the worker's exception when the result is consumed; apply_async / map_async only in .get()
    f = ctx.fn(BTM, 'tag_multiome_multi_processing')
    subs = [c for c in walk_no_nested(f) if isinstance(c, ast.Call) and isinstance(c.func, ast.Attribute) and c.func.attr in ('imap', 'imap_unordered', 'map', 'starmap', 'apply_async', 'map_async', 'starmap_async', 'apply', 'submit')
            and any(isinstance(a, ast.Name) and a.id == 'run_tagging_tasks' for a in c.args)]
    ctx.need('C20-R8', len(subs), 1, 'submissions of run_tagging_tasks to the pool')
    gets = [c for c in walk_no_nested(f) if isinstance(c, ast.Call) and isinstance(c.func, ast.Attribute) and c.func.attr in ('get', 'result') and not c.args]     # dict.get takes a key
    for k, c in enumerate(subs):
        lazy = c.func.attr in ('apply_async', 'map_async', 'starmap_async', 'submit')
        ok = (not lazy) or bool(gets)
        ctx.emit('C20-R8', ok, BTM, c, f'tasks are submitted with {c.func.attr}' + (': the result iterator re-raises a worker failure' if not lazy else
                 (': the result is collected with .get()' if ok else ': no .get()/.result() on the asynchronous result - an exception in a worker is never seen by the parent, '
                  'which merges the remaining job files and writes the success status')), key=f'pool-failure-collected:{k}',
                 witness={'fault': 'exception in run_tagging_tasks inside a worker', 'outcome': 'job missing from the merge, status says finished'} if not ok else None,
                 what='worker failures are not collected from the pool')


META = {
    'text': ('Decides, for all paths of the tagging entry points (including exception edges): every success status '
             'message is written outside and after the sorted_bam_file writer context or after merge_bams, is '
             'unreachable after any swallowed failure of a non-cleanup statement, the "unfinished" marker dominates '
             'both tagging calls, failure arms re-raise, and the writer context / sort_and_index / merge_bams finalise '
             'in the order close -> read-group header -> sort -> index on every normal path. Does NOT decide that '
             'samtools/pysam sort and index succeed, nor behaviour under process kills (the marker on disk is then '
             '"unfinished" by the dominance clause).'),
    'technique': 'static analysis: statement CFG with exception edges, dominators, reachability from exception edges, path enumeration of finalisation order; constant-path check of a whole-contig task, interpretation of Fragment.write_pysam; exit discipline of finally suites and collection of pool results',
    'design_ref': 'DESIGN.md section 5, C20',
}


from . import shared as _shared
_shared.register('C20', 'C20')
