"""C14 - TAPS methylation calls reflect reference context and observed conversion (clause-level structural checks)."""
import ast
import itertools

from ..core import rule, Ctx
from ..index import AnalysisError, dotted, src, walk_no_nested, names_in
from ..cfg import CFG, const_env_step, UNK, eval3
from ..consteval import run_function, Unfoldable, fold, TOP
from ..domains import linform, Lin, check_pred
from ..util import node_calls, own_expr, pred_is, eval_local, final_assignments, last_name, explore, mk_atoms, reach_conds, dict_emission, string_transform_chain
from .slots import TAPS, MOLECULE, SEQUTILS


def bismark(ctxt):
    """Bismark class of a 3-mer starting with C"""
    return 'z' if ctxt[1] == 'G' else ('x' if ctxt[2] == 'G' else 'h')


@rule('C14', 'C14-R1', 'the context table has exactly the 16 contexts C[ACGT][ACGT] with the Bismark classes (CG. -> z, C.G -> x, else h); the '
                       '"methylated" table is its upper-case image')
def r1(ctx):
    f = ctx.fn(TAPS, 'TAPS.__init__')
    # backward slice of the constructor on self.context_mapping: the statements that mention it plus (transitively) the statements
    # that define / fill the local names those statements read
    def stores(s_):
        out = set()
        for n in ast.walk(s_):
            if isinstance(n, ast.Name) and isinstance(n.ctx, ast.Store):
                out.add(n.id)
            elif isinstance(n, ast.Subscript) and isinstance(n.ctx, ast.Store) and isinstance(n.value, ast.Name):
                out.add(n.value.id)
        return out
    params = {a.arg for a in f.args.args}
    chosen = {i for i, s_ in enumerate(f.body) if 'self.context_mapping' in src(s_) and isinstance(s_, (ast.Assign, ast.For, ast.AugAssign))}
    while True:
        need = {n.id for i in chosen for n in ast.walk(f.body[i]) if isinstance(n, ast.Name) and isinstance(n.ctx, ast.Load)} - params
        more = {i for i, s_ in enumerate(f.body) if i not in chosen and isinstance(s_, (ast.Assign, ast.For, ast.AugAssign)) and i < max(chosen, default=0) and stores(s_) & need}
        if not more:
            break
        chosen |= more
    stmts = [f.body[i] for i in sorted(chosen)]
    if not stmts:
        raise AnalysisError('TAPS.__init__: context table construction not found')
    fake = ast.FunctionDef(name='table', args=ast.arguments(posonlyargs=[], args=[], vararg=None, kwonlyargs=[], kw_defaults=[], kwarg=None, defaults=[]),
                           body=stmts + [ast.Return(value=ast.Attribute(value=ast.Name(id='self', ctx=ast.Load()), attr='context_mapping', ctx=ast.Load()))], decorator_list=[])
    ast.fix_missing_locations(fake)
    try:
        table = run_function(fake, [])
    except Unfoldable as ex:
        ctx.emit('C14-R1', False, TAPS, f, f'context table cannot be folded to constants: {ex}', key='context-table', undecided=True)
        return
    if not isinstance(table, dict) or set(table) != {True, False}:
        ctx.emit('C14-R1', False, TAPS, f, f'context table does not have the two polarity entries: {list(table) if isinstance(table, dict) else table}', key='context-table')
        return
    want = {'C' + a + b: bismark('C' + a + b) for a in 'ACGT' for b in 'ACGT'}
    problems = []
    for pol, case in ((False, str.lower), (True, str.upper)):
        t = table[pol]
        for k in sorted(set(want) | set(t)):
            exp = case(want[k]) if k in want else None
            got = t.get(k)
            if exp != got:
                problems.append(f'context {k} (methylated={pol}): table says {got!r}, Bismark class is {exp!r}')
    ctx.counters['abstract_cases'] += 32
    ctx.emit('C14-R1', not problems, TAPS, stmts[0], f'folded context table: {len(table[False])} unmethylated + {len(table[True])} methylated contexts; ' +
             ('all 16 C[ACGT][ACGT] contexts carry their Bismark class, upper case = methylated' if not problems else '; '.join(problems[:3])), key='context-table',
             witness={'problems': problems[:6]} if problems else None, what='TAPS context table does not map every C[ACGT][ACGT] context to its Bismark class')
    ctx.exhaustive['C14-R1'] = True


def context_model(ctx):
    """TAPS.position_to_context run by the abstract interpreter against a model reference (a mixed-case sequence; fetching before position 0 fails, fetching past the
    end is truncated) for every position, every reference base given and every observed base: the context is the upper-cased three bases starting at a reference C, or
    the reverse complement of the three bases ending at a reference G; the letter is looked up in the methylated table iff the conversion is observed (C>T, G>A), in
    the unmethylated one iff the unconverted base is observed, and is "." otherwise (also for other reference bases, positions outside the reference, truncated
    contexts).  (ok, cases, witness) / None.  Cached per run."""
    if hasattr(ctx, '_context_model'):
        return ctx._context_model
    from ..consteval import run_function, Raised, Unfoldable, module_scope, Instance
    ctx._context_model = None
    try:
        env = module_scope(ctx.ix, TAPS)
        cls = env.get('TAPS')
        f = cls.method('position_to_context')[0]
    except Exception:
        return None
    seq = 'ACgTTGcaACGGcCAt'
    comp = {'A': 'T', 'C': 'G', 'G': 'C', 'T': 'A'}
    mapping = {True: {}, False: {}}
    for x in itertools.product('ACGT', repeat=2):
        c3 = 'C' + ''.join(x)
        mapping[True][c3] = 'M:' + c3
        mapping[False][c3] = 'u:' + c3

    def hook(ev, call, env_):
        if isinstance(call.func, ast.Attribute) and call.func.attr == 'fetch' and src(call.func.value) == 'reference':
            a = [ev.ev(x, env_) for x in call.args]
            if a[1] < 0 or a[2] < 0:
                raise Raised('ValueError', 'start out of range')
            return seq[a[1]:a[2]]
        return NotImplemented
    n = 0
    try:
        sc = dict(cls.scope)
        sc['__class__'] = cls
        me = Instance(cls, {'context_mapping': mapping})
        for pos in range(0, len(seq)):
            for ref in 'CGATN':
                for q in ('A', 'C', 'G', 'T', 'N', 'c', 't', 'a', 'g'):
                    n += 1
                    got = run_function(f, [me, 'chr', pos, ref], {'observed_base': q, 'strand': False, 'reference': '<reference>'}, env=sc, call_hook=hook, budget=20000)
                    Q = q.upper()
                    if ref == 'C':
                        c3 = seq[pos:pos + 3].upper()
                        meth = True if Q == 'T' else False if Q == 'C' else None
                    elif ref == 'G':
                        c3 = None if pos - 2 < 0 else ''.join(comp.get(b_, b_) for b_ in reversed(seq[pos - 2:pos + 1].upper()))
                        meth = None if c3 is None else (True if Q == 'A' else False if Q == 'G' else None)
                    else:
                        c3, meth = None, None
                    want = (c3, '.' if meth is None else mapping[meth].get(c3, '.'))
                    if tuple(got) != want:
                        ctx._context_model = (False, n, {'reference (0-based)': seq, 'position': pos, 'reference base given': ref, 'observed base': q, 'returned (context, letter)': tuple(got), 'expected': want})
                        return ctx._context_model
    except (Unfoldable, Raised):
        return None
    except Exception:
        return None
    ctx._context_model = (True, n, None)
    return ctx._context_model


def _context_model_or_structural(ctx, rid, structural):
    from ..core import Ctx, VIOLATED, UNDECIDED
    sub = Ctx(ctx.ix, 'C14', ctx.tier)
    err = None
    try:
        structural(sub)
    except AnalysisError as e_:
        err = e_
    except Exception as e_:
        err = AnalysisError(f'structural reading failed ({type(e_).__name__}: {e_})')
    for k_, v_ in sub.counters.items():
        ctx.counters[k_] = (ctx.counters.get(k_, set()) | v_) if isinstance(v_, set) else ctx.counters.get(k_, 0) + v_
    for k_, v_ in getattr(sub, 'exhaustive', {}).items():
        ctx.exhaustive[k_] = v_
    open_ = [o for o in sub.obligations if o.status in (VIOLATED, UNDECIDED) and 'position_to_context' in o.construct]
    if err is None and not open_:
        ctx.obligations.extend(sub.obligations)
        return
    m = context_model(ctx)
    if m is None:
        ctx.obligations.extend(sub.obligations)
        if err is not None:
            raise err
        return
    ok, n, wit = m
    f = ctx.fn(TAPS, 'TAPS.position_to_context')
    ctx.counters['interpreted_cases'] += n
    if ok:
        ctx.obligations.extend([o for o in sub.obligations if o not in open_])
        ctx.emit(rid, True, TAPS, f, f'position_to_context interpreted on {n} (position, reference base, observed base) cases against a model reference: context, polarity and letter are the prescribed ones '
                 f'(the structural reading did not follow the restructured method)', key='context-model')
    else:
        ctx.obligations.extend(sub.obligations)
        ctx.emit(rid, False, TAPS, f, f'position_to_context on a model reference: {wit}', key='context-model', witness=wit, what='position_to_context: context / letter differ from the reference context and the observed conversion')


@rule('C14', 'C14-R2', 'polarity: the methylated (upper-case) table is selected iff the consensus shows the conversion (C>T on a reference C, '
                       'G>A on a reference G), the unmethylated one iff it shows the unconverted base, anything else gives "."')
def r2(ctx):
    _context_model_or_structural(ctx, 'C14-R2', _r2_structural)


def _r2_structural(ctx):
    f = ctx.fn(TAPS, 'TAPS.position_to_context')
    tr = [t for t in f.body if isinstance(t, ast.Try)]
    if len(tr) != 1:
        raise AnalysisError('position_to_context: try block not found')
    qv = None
    for s_ in f.body:
        if isinstance(s_, ast.Assign) and isinstance(s_.targets[0], ast.Name) and src(s_.value).endswith('.upper()') and 'observed_base' in src(s_.value):
            qv = s_.targets[0].id
    qv = qv or 'qbase'
    # decision table: the try body is interpreted for every (reference base, consensus base) of the finite alphabets (a base outside the
    # named ones stands for "other"); the value of `methylated` at its end is the polarity - whatever the shape of the if/elif chain
    table = {}
    n_eval = 0
    for ref in ('C', 'G', 'A'):
        for q in 'ACGTN':
            rs = explore(tr[0].body, lambda e: UNK, env0={'ref_base': ref, qv: q, 'methylated': None})
            n_eval += 1
            vals = {('raise' if r['kind'] == 'raise' else r['consts'].get('methylated', UNK)) for r in rs}
            key = (ref if ref in 'CG' else '<other>', q)
            table[key] = vals
    ctx.counters['abstract_cases'] += n_eval
    bad = []
    for (ref, q), vals in sorted(table.items()):
        if ref == '<other>':
            want = {'raise'}
        elif ref == 'C':
            want = {True} if q == 'T' else {False} if q == 'C' else {None}
        else:
            want = {True} if q == 'A' else {False} if q == 'G' else {None}
        if vals != want:
            bad.append(((ref, q), sorted(map(str, vals)), sorted(map(str, want))))
    ok = not bad
    ctx.emit('C14-R2', ok, TAPS, tr[0], f'(reference base, consensus base) -> methylated over {n_eval} combinations: C>T / G>A methylated, unconverted unmethylated, anything else undecided, other reference raises' if ok
             else f'polarity differs at {bad[0][0]}: got {bad[0][1]}, expected {bad[0][2]}', key='polarity',
             what='position_to_context: methylated / unmethylated polarity is not C>T / G>A')
    # no decision -> '.', otherwise the letter comes from context_mapping[methylated]
    oth = [s_ for s_ in walk_no_nested(tr[0]) if isinstance(s_, ast.Raise)]
    after = f.body[f.body.index(tr[0]) + 1:]
    rets = [r_ for r_ in after if isinstance(r_, ast.Return)]
    symv = rets[0].value.elts[1].id if rets and isinstance(rets[0].value, ast.Tuple) and len(rets[0].value.elts) == 2 and isinstance(rets[0].value.elts[1], ast.Name) else None
    ok = symv is not None
    if ok:
        r_none = explore(after, mk_atoms({'methylated is None': True}), names={symv})
        r_some = explore(after, mk_atoms({'methylated is None': False}), names={symv})
        ok = bool(r_none) and all(symv in r['env'] and src(r['env'][symv]).replace('"', "'") == "'.'" for r in r_none) and \
            bool(r_some) and all(symv in r['env'] and src(r['env'][symv]).replace('"', "'").replace(' ', '').startswith('self.context_mapping[methylated].get(context') for r in r_some)
    ctx.emit('C14-R2', ok and bool(oth), TAPS, after[0] if after else f, 'no decision -> "."; otherwise the letter is looked up in context_mapping[methylated] with "." for unknown / truncated contexts', key='symbol-selection')
    hs = [h for h in tr[0].handlers if 'ValueError' in src(h.type)]
    ok = bool(hs) and any(src(x) == 'methylated = None' for x in hs[0].body)
    ctx.emit('C14-R2', ok, TAPS, hs[0] if hs else tr[0], 'coordinates outside the reference (ValueError) give no call', key='out-of-reference', nontrivial=False)


@rule('C14', 'C14-R3', 'the G-strand context window is the reverse-complement mirror of the C-strand window: [p, p+3) <-> [p-2, p+1), '
                       'complemented with an involutive table and reversed')
def r3(ctx):
    _context_model_or_structural(ctx, 'C14-R3', _r3_structural)


def _r3_structural(ctx):
    f = ctx.fn(TAPS, 'TAPS.position_to_context')
    pos = f.args.args[2].arg
    fetches = {}
    mod = ctx.ix.module(TAPS)
    for c in walk_no_nested(f):
        if isinstance(c, ast.Call) and isinstance(c.func, ast.Attribute) and c.func.attr == 'fetch' and len(c.args) == 3:
            # the reference base under which this fetch executes: the one value of {C, G} consistent with every guard on the way to it
            conds = reach_conds(f.body, c) or []
            arms = []
            for ref in ('C', 'G'):
                vals = [(eval3(t_, {'ref_base': ref}), pol) for t_, pol in conds if 'ref_base' in names_in(t_)]
                if vals and all(v is not UNK and bool(v) == pol for v, pol in vals):
                    arms.append(ref)
            arm = arms[0] if len(arms) == 1 else None
            if arm:
                # inline simple local definitions used in the arguments
                env = {}
                for s in walk_no_nested(f):
                    if isinstance(s, ast.Assign) and isinstance(s.targets[0], ast.Name) and s.lineno < c.lineno and s.targets[0].id in names_in(c):
                        env[s.targets[0].id] = linform(s.value)
                fetches[arm] = (linform(c.args[1], env), linform(c.args[2], env), c)
    P_ = Lin({pos: 1})
    okc = 'C' in fetches and fetches['C'][0] == P_ and fetches['C'][1] == P_ + Lin(const=3)
    okg = 'G' in fetches and fetches['G'][0] == P_ - Lin(const=2) and fetches['G'][1] == P_ + Lin(const=1)
    ctx.emit('C14-R3', okc, TAPS, fetches['C'][2] if 'C' in fetches else f, f'C context window [{fetches["C"][0]}, {fetches["C"][1]})' if 'C' in fetches else 'C window not found', key='window:C')
    ctx.emit('C14-R3', okg, TAPS, fetches['G'][2] if 'G' in fetches else f, (f'G context window [{fetches["G"][0]}, {fetches["G"][1]})' if 'G' in fetches else 'G window not found') +
             ('' if okg else ' is not the mirror [p-2, p+1) of the C window'), key='window:G', what='position_to_context: G-strand window is not [p-2, p+1)')
    # complement + reverse: the G arm's context is the fetched window upper-cased, complemented once (A<->T, C<->G) and reversed once;
    # the C arm's context is the fetched window upper-cased only.  Decided on the chain of string operations between the fetch and the
    # name that is looked up in the table, wherever those operations are written (inline, local temporaries, repository helpers).
    lookup = [c for c in walk_no_nested(f) if isinstance(c, ast.Call) and isinstance(c.func, ast.Attribute) and c.func.attr == 'get' and 'context_mapping' in src(c.func.value) and c.args]
    cvar = lookup[0].args[0].id if lookup and isinstance(lookup[0].args[0], ast.Name) else 'context'
    chains = {}
    for arm, (lo, hi, c) in fetches.items():
        asg = [s_ for s_ in walk_no_nested(f) if isinstance(s_, ast.Assign) and src(s_.targets[0]) == cvar and any(n is c for n in ast.walk(s_))]
        if not asg:
            # the fetch feeds a temporary; find the assignment of the context variable under the same arm
            asg = [s_ for s_ in walk_no_nested(f) if isinstance(s_, ast.Assign) and src(s_.targets[0]) == cvar and not isinstance(s_.value, ast.Constant)
                   and _arm_consistent(reach_conds(f.body, s_) or [], arm)]
        if len(asg) == 1:
            source, ops = string_transform_chain(ctx.ix, TAPS, f, asg[0].value)
            chains[arm] = (source, ops, asg[0])
    COMP = {'A': 'T', 'T': 'A', 'G': 'C', 'C': 'G'}

    def summary(ops):
        """(complement parity, reverse parity, upper-cased at the end) or None when an operation is not understood"""
        comp = rev = 0
        upper = False
        for o in ops:
            if o == 'upper':
                upper = True
            elif o == 'lower':
                upper = False
            elif o == 'reverse':
                rev ^= 1
            elif isinstance(o, tuple) and o[0] == 'translate':
                tab = o[1]
                if not isinstance(tab, dict):
                    return None
                t_ = {chr(k): (chr(v) if isinstance(v, int) else v) for k, v in tab.items()}
                if all(t_.get(k) == v for k, v in COMP.items()):
                    comp ^= 1
                    # a table that knows only the upper-case letters complements a soft-masked (lower-case) reference only after it was upper-cased
                    if not upper and not all(t_.get(k.lower(), '').upper() == v for k, v in COMP.items()):
                        case_gap.append(True)
                elif all(t_.get(k, k) == k for k in COMP):
                    pass
                else:
                    return None
                # case is preserved by a table that maps upper to upper
            else:
                return None
        return comp, rev, upper
    case_gap = []
    sg = summary(chains['G'][1]) if 'G' in chains else None
    gap_g = bool(case_gap)
    sc = summary(chains['C'][1]) if 'C' in chains else None
    ctx.emit('C14-R3', not case_gap, TAPS, chains['G'][2] if 'G' in chains else f, 'the reference window is upper-cased before it is complemented (or the complement table covers lower case)' if not case_gap else
             f'the {"G" if gap_g else "C"} arm complements the fetched window with a table that only knows upper-case letters BEFORE upper-casing it: lower-case (soft-masked) reference bases are '
             f'not complemented, the context looked up is not the context of the reference', key='complement-after-upper', what='position_to_context: soft-masked reference bases are not complemented')
    okg2 = sg == (1, 1, True) and 'G' in fetches and chains['G'][0] is fetches['G'][2]
    okc2 = sc == (0, 0, True) and 'C' in fetches and chains['C'][0] is fetches['C'][2]
    ctx.emit('C14-R3', okg2, TAPS, chains['G'][2] if 'G' in chains else f, f'G context = fetched window through {chains["G"][1] if "G" in chains else None}: complemented once and reversed once (got parity {sg})', key='revcomp')
    ctx.emit('C14-R3', okc2, TAPS, chains['C'][2] if 'C' in chains else f, f'C context = fetched window through {[o if isinstance(o, str) else o[0] for o in chains["C"][1]] if "C" in chains else None}: neither complemented nor reversed', key='c-context-plain')
    tabs = [o[1] for arm in chains for o in chains[arm][1] if isinstance(o, tuple)]
    ok = bool(tabs) and all(isinstance(t_, dict) and all(chr(t_.get(ord(k), 0)) == v for k, v in COMP.items()) for t_ in tabs)
    ctx.emit('C14-R3', ok, TAPS, chains['G'][2] if 'G' in chains else f, 'complement table used is the involution A<->T, C<->G', key='complement-involution')
    up = sg is not None and sc is not None and sg[2] and sc[2]
    ctx.emit('C14-R3', up, TAPS, f, 'reference context is upper-cased before the table lookup', key='context-upper', nontrivial=False)


@rule('C14', 'C14-R4', 'count tags are wired to their letters (sZ<-Z, sz<-z, sX<-X, sx<-x, sH<-H, sh<-h, MC<-Z+X+H, uC<-z+x+h) and the call string has '
                       'one symbol per aligned (matches_only) pair')
def r4(ctx):
    f = ctx.fn(MOLECULE, 'Molecule.set_methylation_call_tags')
    params = [a.arg for a in f.args.args]
    defaults = {p: d.value for p, d in zip(params[len(params) - len(f.args.defaults):], f.args.defaults) if isinstance(d, ast.Constant)}
    want_default = {'bismark_call_tag': 'XM', 'total_methylated_tag': 'MC', 'total_unmethylated_tag': 'uC', 'total_methylated_CPG_tag': 'sZ', 'total_unmethylated_CPG_tag': 'sz',
                    'total_methylated_CHH_tag': 'sH', 'total_unmethylated_CHH_tag': 'sh', 'total_methylated_CHG_tag': 'sX', 'total_unmethylated_CHG_tag': 'sx'}
    ok = all(defaults.get(k) == v for k, v in want_default.items())
    ctx.emit('C14-R4', ok, MOLECULE, f, f'default tag names: { {k: defaults.get(k) for k in want_default} }', key='tag-defaults')
    want = {'total_methylated_tag': {'Z', 'X', 'H'}, 'total_unmethylated_tag': {'z', 'x', 'h'}, 'total_methylated_CPG_tag': {'Z'}, 'total_unmethylated_CPG_tag': {'z'},
            'total_methylated_CHG_tag': {'X'}, 'total_unmethylated_CHG_tag': {'x'}, 'total_methylated_CHH_tag': {'H'}, 'total_unmethylated_CHH_tag': {'h'}}
    got = {}
    counters = set()
    for c in walk_no_nested(f):
        if isinstance(c, ast.Call) and isinstance(c.func, ast.Attribute) and c.func.attr == 'set_tag' and len(c.args) == 2 and isinstance(c.args[0], ast.Name) and c.args[0].id in want:
            subs = [n for n in ast.walk(c.args[1]) if isinstance(n, ast.Subscript) and isinstance(n.value, ast.Name) and isinstance(n.slice, ast.Constant)]
            counters |= {n.value.id for n in subs}
            letters = {n.slice.value for n in subs}
            # the value is a sum of exactly these subscripts (nothing else enters it)
            terms = []

            def flat(e):
                if isinstance(e, ast.BinOp) and isinstance(e.op, ast.Add):
                    flat(e.left), flat(e.right)
                else:
                    terms.append(e)
            flat(c.args[1])
            plus_only = all(t in subs for t in terms) and len(terms) == len(letters)
            if c.args[0].id in got:
                letters, plus_only = None, False        # written twice
            got[c.args[0].id] = (letters, plus_only)
    bad = [k for k in want if got.get(k, (None, False))[0] != want[k] or not got[k][1]]
    ctx.emit('C14-R4', not bad and len(counters) == 1, MOLECULE, f, 'count tags sum exactly the letters of their class' if not bad else f'mis-wired count tags: { {k: got.get(k) for k in bad} }', key='tag-wiring',
             what='set_methylation_call_tags: a count tag sums the wrong call letters')
    cname = next(iter(counters)) if len(counters) == 1 else None
    xm = [s_ for s_ in walk_no_nested(f) if isinstance(s_, ast.Assign) and len(s_.targets) == 1 and isinstance(s_.targets[0], ast.Name) and s_.targets[0].id == cname]
    calldicts = {'self.methylation_call_dict', f.args.args[1].arg if len(f.args.args) > 1 else '?'}

    def context_lookup(e, of):
        """e is `<of>.get('context', '.')`"""
        return isinstance(e, ast.Call) and isinstance(e.func, ast.Attribute) and e.func.attr == 'get' and of(e.func.value) and len(e.args) == 2 \
            and all(isinstance(a_, ast.Constant) for a_ in e.args) and [a_.value for a_ in e.args] == ['context', '.'] and not e.keywords

    def comp_of(e):
        while isinstance(e, ast.Call) and isinstance(e.func, ast.Name) and e.func.id in ('list', 'tuple', 'iter') and len(e.args) == 1:
            e = e.args[0]
        return e if isinstance(e, (ast.ListComp, ast.GeneratorExp)) and len(e.generators) == 1 else None
    # an intermediate table position -> context letter built once from the call dictionary ({k: call.get('context', '.') for k, call in D.items()})
    letter_tables = set()
    for a_ in walk_no_nested(f):
        if isinstance(a_, ast.Assign) and len(a_.targets) == 1 and isinstance(a_.targets[0], ast.Name) and isinstance(a_.value, ast.DictComp) and len(a_.value.generators) == 1:
            g0 = a_.value.generators[0]
            if not g0.ifs and isinstance(g0.target, ast.Tuple) and len(g0.target.elts) == 2 and all(isinstance(e_, ast.Name) for e_ in g0.target.elts) and isinstance(g0.iter, ast.Call) \
                    and isinstance(g0.iter.func, ast.Attribute) and g0.iter.func.attr == 'items' and src(g0.iter.func.value) in calldicts and src(a_.value.key) == g0.target.elts[0].id \
                    and context_lookup(a_.value.value, lambda v_, nm_=g0.target.elts[1].id: isinstance(v_, ast.Name) and v_.id == nm_):
                letter_tables.add(a_.targets[0].id)
    ok = False
    if len(xm) == 1 and isinstance(xm[0].value, ast.Call) and last_name(src(xm[0].value.func)) == 'Counter' and len(xm[0].value.args) == 1:
        a0 = xm[0].value.args[0]
        if isinstance(a0, ast.Call) and isinstance(a0.func, ast.Attribute) and a0.func.attr == 'values' and not a0.args and src(a0.func.value) in letter_tables:
            ok = True
        cp = comp_of(xm[0].value.args[0]) if not ok else None
        if cp is not None:
            g_ = cp.generators[0]
            ok = not g_.ifs and isinstance(g_.target, ast.Name) and isinstance(g_.iter, ast.Call) and not g_.iter.args and isinstance(g_.iter.func, ast.Attribute) and g_.iter.func.attr == 'values' \
                and src(g_.iter.func.value) in calldicts and context_lookup(cp.elt, lambda v: isinstance(v, ast.Name) and v.id == g_.target.id)
    ctx.emit('C14-R4', ok, MOLECULE, xm[0] if xm else f, 'molecule totals are counted over the call dictionary of the molecule (one entry per called position)', key='totals-source')
    # the call string written to the call tag
    cs_calls = [c for c in walk_no_nested(f) if isinstance(c, ast.Call) and isinstance(c.func, ast.Attribute) and c.func.attr == 'set_tag' and len(c.args) == 2 and src(c.args[0]) == 'bismark_call_tag']
    ok = False
    anchor = f
    if len(cs_calls) == 1:
        v = cs_calls[0].args[1]
        rd = src(cs_calls[0].func.value)
        if isinstance(v, ast.Name):
            ds = [s_ for s_ in walk_no_nested(f) if isinstance(s_, ast.Assign) and len(s_.targets) == 1 and isinstance(s_.targets[0], ast.Name) and s_.targets[0].id == v.id]
            v = ds[0].value if len(ds) == 1 else None
            anchor = ds[0] if len(ds) == 1 else f
        if isinstance(v, ast.Call) and isinstance(v.func, ast.Attribute) and v.func.attr == 'join' and isinstance(v.func.value, ast.Constant) and v.func.value.value == '' and len(v.args) == 1:
            cp = comp_of(v.args[0])
            if cp is not None:
                g_ = cp.generators[0]
                tnames = [e.id for e in g_.target.elts] if isinstance(g_.target, ast.Tuple) and all(isinstance(e, ast.Name) for e in g_.target.elts) else []
                pairs = isinstance(g_.iter, ast.Call) and src(g_.iter.func) == f'{rd}.get_aligned_pairs' and not g_.iter.args \
                    and {k.arg: src(k.value) for k in g_.iter.keywords} == {'matches_only': 'True'}
                # filters may only drop None positions (there are none with matches_only)
                only_none = all(_drops_only_none(t, tnames) for t in g_.ifs)

                def is_site(e):
                    return isinstance(e, ast.Call) and isinstance(e.func, ast.Attribute) and e.func.attr == 'get' and src(e.func.value) in calldicts and len(e.args) == 2 \
                        and src(e.args[0]) == f'({rd}.reference_name, {tnames[1]})' and isinstance(e.args[1], ast.Dict) and not e.args[1].keys
                def guarded_lookup(e):
                    # `D[key].get('context', '.') if key in D else '.'`  ==  `D.get(key, {}).get('context', '.')`
                    if not isinstance(e, ast.IfExp) or len(tnames) != 2:
                        return False
                    key = f'({rd}.reference_name, {tnames[1]})'
                    t_, yes, no = e.test, e.body, e.orelse
                    if isinstance(t_, ast.Compare) and len(t_.ops) == 1 and isinstance(t_.ops[0], ast.NotIn):
                        t_ = ast.Compare(left=t_.left, ops=[ast.In()], comparators=t_.comparators)
                        yes, no = no, yes
                    member = isinstance(t_, ast.Compare) and len(t_.ops) == 1 and isinstance(t_.ops[0], ast.In) and src(t_.left) == key and src(t_.comparators[0]) in calldicts
                    direct = lambda v: isinstance(v, ast.Subscript) and src(v.value) in calldicts and src(v.slice).strip('()') == key.strip('()')
                    return member and isinstance(no, ast.Constant) and no.value == '.' and context_lookup(yes, direct)
                def table_lookup(e):
                    # `T.get((contig, position), '.')` on the letter table
                    return isinstance(e, ast.Call) and isinstance(e.func, ast.Attribute) and e.func.attr == 'get' and src(e.func.value) in letter_tables and len(e.args) == 2 and len(tnames) == 2 \
                        and src(e.args[0]) == f'({rd}.reference_name, {tnames[1]})' and isinstance(e.args[1], ast.Constant) and e.args[1].value == '.'
                ok = bool(pairs) and len(tnames) == 2 and only_none and (context_lookup(cp.elt, is_site) or guarded_lookup(cp.elt) or table_lookup(cp.elt))
    ctx.emit('C14-R4', ok, MOLECULE, anchor, 'call string: one symbol ("." when uncalled) per aligned pair of the read, looked up by (contig, reference position)', key='call-string')


def _arm_consistent(conds, arm):
    vals = [(eval3(t_, {'ref_base': arm}), pol) for t_, pol in conds if 'ref_base' in names_in(t_)]
    return bool(vals) and all(v is not UNK and bool(v) == pol for v, pol in vals)


def _drops_only_none(test, names):
    """the comprehension filter is a conjunction of `<target name> is not None` tests"""
    parts = test.values if isinstance(test, ast.BoolOp) and isinstance(test.op, ast.And) else [test]
    return all(isinstance(p_, ast.Compare) and len(p_.ops) == 1 and isinstance(p_.ops[0], ast.IsNot) and isinstance(p_.left, ast.Name) and p_.left.id in names
               and isinstance(p_.comparators[0], ast.Constant) and p_.comparators[0].value is None for p_ in parts)


def _window_filter_by_interpretation(ctx, g):
    from ..consteval import run_function, Raised, Unfoldable, module_scope, Instance
    try:
        env = module_scope(ctx.ix, SEQUTILS)
        pairs = [(q_, q_ + 1, 'ACGTAC'[q_]) for q_ in range(6)]       # query position q aligned to reference position q + 1

        def hook(ev, call, env_):
            if isinstance(call.func, ast.Attribute) and call.func.attr == 'get_aligned_pairs':
                return list(pairs)
            if isinstance(call.func, ast.Attribute) and call.func.attr == 'infer_query_length':
                return 6
            return NotImplemented
        read = Instance(attrs={'reference_name': 'c', 'query_sequence': 'ACGTAC', 'query_qualities': [30] * 6, 'seq': 'ACGTAC', 'qual': 'IIIIII', 'is_reverse': False})
        n = 0
        for st in (None, 0, 1, 3, 6, 8):
            for en in (None, 0, 2, 3, 6, 9):
                n += 1
                got = run_function(g, [read, st, en], env=env, call_hook=hook, budget=20000)
                gotp = sorted(k_[1] for k_ in dict(got))
                want = [r_ for _, r_, _ in pairs if (st is None or r_ >= st) and (en is None or r_ <= en)]
                if gotp != want:
                    return (False, n, {'window (start, end)': (st, en), 'aligned reference positions': [r_ for _, r_, _ in pairs], 'reported': gotp, 'expected (inclusive both sides)': want})
    except (Unfoldable, Raised):
        return None
    except Exception:
        return None
    return (True, n, None)


def _dove_window_by_interpretation(ctx, f):
    """get_consensus_dictionaries run by the abstract interpreter on model mate pairs (both inward orientations x two sets of trims x plain / dove-safe): the window handed to
    read_to_consensus_dict for BOTH mates is [left mate start + its trim, right mate end - its trim - 1], (None, None) in plain mode; same-orientation pairs and a missing
    mate are refused in dove-safe mode.  {orientation text: (ok, detail, witness)} or None outside the interpreted subset."""
    from ..consteval import run_function, Raised, Unfoldable, module_scope, Instance
    out = {}
    try:
        env = dict(module_scope(ctx.ix, SEQUTILS))
        for r1rev, text in ((True, 'R1.is_reverse and not R2.is_reverse'), (False, 'not R1.is_reverse and R2.is_reverse')):
            bad = None
            n = 0
            for (d1, d2), safe in itertools.product(((0, 0), (3, 5)), (True, False)):
                n += 1
                if r1rev:
                    R1 = Instance(attrs={'is_reverse': True, 'reference_start': 140, 'reference_end': 200, 'is_read1': True, 'is_read2': False})
                    R2 = Instance(attrs={'is_reverse': False, 'reference_start': 100, 'reference_end': 160, 'is_read1': False, 'is_read2': True})
                    want = (100 + d2, 200 - d1 - 1)
                else:
                    R1 = Instance(attrs={'is_reverse': False, 'reference_start': 100, 'reference_end': 160, 'is_read1': True, 'is_read2': False})
                    R2 = Instance(attrs={'is_reverse': True, 'reference_start': 140, 'reference_end': 200, 'is_read1': False, 'is_read2': True})
                    want = (100 + d1, 200 - d2 - 1)
                if not safe:
                    want = (None, None)
                seen = []

                def hook(ev, call, env_, seen=seen):
                    if last_name(dotted(call.func) or '') == 'read_to_consensus_dict':
                        a = []
                        for x in call.args:
                            if isinstance(x, ast.Starred):
                                a.extend(list(ev.ev(x.value, env_)))
                            else:
                                a.append(ev.ev(x, env_))
                        kw = {}
                        for k_ in call.keywords:
                            if k_.arg is None:
                                kw.update(ev.ev(k_.value, env_))
                            else:
                                kw[k_.arg] = ev.ev(k_.value, env_)
                        names = ['read', 'start', 'end']
                        rec = dict(zip(names, a))
                        rec.update(kw)
                        seen.append((rec.get('read'), rec.get('start'), rec.get('end')))
                        return {}
                    return NotImplemented
                run_function(f, [R1, R2], {'dove_safe': safe, 'dove_R1_distance': d1, 'dove_R2_distance': d2}, env=env, call_hook=hook, budget=20000)
                wins = [(s_, e_) for _, s_, e_ in seen]
                if len(seen) != 2 or {id(r_) for r_, _, _ in seen} != {id(R1), id(R2)} or any(w_ != want for w_ in wins):
                    bad = {'R1': 'reverse 140-200' if r1rev else 'forward 100-160', 'R2': 'forward 100-160' if r1rev else 'reverse 140-200', 'dove_safe': safe, 'dove_R1_distance': d1, 'dove_R2_distance': d2,
                           'windows handed to the per-read extraction': wins, 'expected for both mates': want}
                    break
            out[text] = (bad is None, n, bad)
        # refusals of the dove-safe mode
        same = Instance(attrs={'is_reverse': False, 'reference_start': 100, 'reference_end': 160, 'is_read1': True, 'is_read2': False})
        other = Instance(attrs={'is_reverse': False, 'reference_start': 140, 'reference_end': 200, 'is_read1': False, 'is_read2': True})
        for args, what in (([same, other], 'same orientation'), ([same, None], 'missing mate')):
            try:
                run_function(f, args, {'dove_safe': True}, env=env, call_hook=lambda ev, call, env_: ({} if last_name(dotted(call.func) or '') == 'read_to_consensus_dict' else NotImplemented), budget=20000)
                out['refusal:' + what] = (False, 1, {'pair': what, 'dove_safe': True, 'outcome': 'accepted'})
            except Raised as r_:
                out['refusal:' + what] = (r_.name == 'ValueError', 1, None if r_.name == 'ValueError' else {'pair': what, 'raised': r_.name})
    except (Unfoldable, Raised):
        return None
    except Exception:
        return None
    return out



@rule('C14', 'C14-R5', 'only bases inside the mate-overlap-safe span are called: the dove-safe window is [left mate start + d, right mate end - d - 1] '
                       '(inclusive) in both orientations, symmetric under swapping the mates, and the per-read filter is start <= pos <= end')
def r5(ctx):
    f = ctx.fn(SEQUTILS, 'get_consensus_dictionaries')
    dw = _dove_window_by_interpretation(ctx, f)
    if dw is not None:
        for text, (ok_, n_, wit_) in dw.items():
            ctx.counters['interpreted_cases'] = ctx.counters.get('interpreted_cases', 0) + n_
            if text.startswith('refusal:'):
                ctx.emit('C14-R5', ok_, SEQUTILS, f, f'dove-safe mode refuses a pair with {text[8:]} (ValueError)' if ok_ else f'dove-safe mode: {wit_}', key=f'dove-window:{text}', witness=wit_, nontrivial=False)
            else:
                ctx.emit('C14-R5', ok_, SEQUTILS, f, f'orientation `{text}`: both mates are extracted with [left start + trim, right end - trim - 1] ({n_} interpreted settings; (None, None) in plain mode)' if ok_ else
                         f'orientation `{text}`: {wit_}', key=f'dove-window:{text}', witness=wit_,
                         what='get_consensus_dictionaries: dove-safe window end is not reference_end - distance - 1 in one orientation')
        _r5_rest(ctx)
        return
    # the window handed to the per-read extraction: 2nd and 3rd argument of the read_to_consensus_dict calls
    from ..util import arg as _arg
    rcalls = [c for c in walk_no_nested(f) if isinstance(c, ast.Call) and last_name(dotted(c.func) or '') == 'read_to_consensus_dict' and _arg(c, 1, 'start') is not None and _arg(c, 2, 'end') is not None]
    star = None
    if not rcalls:
        # the window handed over as one tuple: read_to_consensus_dict(read, *window, ..)
        scalls = [c for c in walk_no_nested(f) if isinstance(c, ast.Call) and last_name(dotted(c.func) or '') == 'read_to_consensus_dict' and len(c.args) == 2
                  and isinstance(c.args[1], ast.Starred) and isinstance(c.args[1].value, ast.Name)]
        if scalls and len({c.args[1].value.id for c in scalls}) == 1:
            star = scalls[0].args[1].value.id
            rcalls = scalls
    if not rcalls or (star is None and any(not (isinstance(_arg(c, 1, 'start'), ast.Name) and isinstance(_arg(c, 2, 'end'), ast.Name)) for c in rcalls)):
        raise AnalysisError('get_consensus_dictionaries: the window arguments of read_to_consensus_dict are not locals')
    wins = {(_arg(c, 1, 'start').id, _arg(c, 2, 'end').id) for c in rcalls} if star is None else {(star + '[0]', star + '[1]')}
    if len(wins) != 1:
        ctx.emit('C14-R5', False, SEQUTILS, rcalls[0], f'the two mates are extracted with different windows {sorted(wins)}', key='dove-window:same-window')
    sv, evn = sorted(wins)[0]
    want = {
        (True, False): ('R1.is_reverse and not R2.is_reverse', Lin({'R2.reference_start': 1, 'dove_R2_distance': 1}), Lin({'R1.reference_end': 1, 'dove_R1_distance': -1}, -1)),
        (False, True): ('not R1.is_reverse and R2.is_reverse', Lin({'R1.reference_start': 1, 'dove_R1_distance': 1}), Lin({'R2.reference_end': 1, 'dove_R2_distance': -1}, -1)),
    }
    n = 0
    for (r1, r2), (kk, ws, we) in want.items():
        facts = {'dove_safe': True, 'R1.is_reverse': r1, 'R2.is_reverse': r2, 'R1 is None': False, 'R2 is None': False, 'R1 is not None': True, 'R2 is not None': True}
        paths = [r_['env'] for r_ in explore(f.body, lambda e: facts.get(src(e), UNK), names=None, upto=rcalls[0]) if r_['kind'] == 'upto']
        n += 1

        def resolved(env, nm):
            # the window expression with the locals it mentions written out (a mate picked into a local: `left = R2; start = left.reference_start + d`)
            from ..util import _subst_names
            e = env.get(nm)
            for _ in range(4):
                if e is None:
                    break
                sub = {k_: v_ for k_, v_ in env.items() if k_ != nm and k_ in names_in(e) and isinstance(v_, (ast.Name, ast.Attribute, ast.Constant, ast.BinOp))}
                if not sub:
                    break
                e = _subst_names(e, sub)
            return e
        if star is not None:
            # the two elements of the window tuple stand for the two window locals
            paths2 = []
            for env in paths:
                w_ = env.get(star)
                if isinstance(w_, ast.Tuple) and len(w_.elts) == 2:
                    env = dict(env)
                    env[sv], env[evn] = w_.elts
                paths2.append(env)
            paths = paths2
        got = {(str(linform(resolved(env, sv))) if sv in env else None, str(linform(resolved(env, evn))) if evn in env else None) for env in paths}
        ok = bool(paths) and got == {(str(ws), str(we))}
        ctx.emit('C14-R5', ok, SEQUTILS, rcalls[0], f'orientation `{kk}`: safe window {sorted(got, key=str)} on {len(paths)} path(s)' +
                 ('' if ok else f' (expected [{ws}, {we}] inclusive: the last base of the right mate is reference_end - 1)'), key=f'dove-window:{kk}',
                 what='get_consensus_dictionaries: dove-safe window end is not reference_end - distance - 1 in one orientation')
    _r5_rest(ctx)


def _r5_rest(ctx):
    g = ctx.fn(SEQUTILS, 'read_to_consensus_dict')
    sem = _window_filter_by_interpretation(ctx, g)
    em = dict_emission(g) if sem is None else None
    ok = False
    comp = [em['node']] if em else []
    if sem is not None:
        ctx.counters['abstract_cases'] += sem[1]
        ctx.emit('C14-R5', sem[0], SEQUTILS, g, f'read_to_consensus_dict interpreted on {sem[1]} (window start, window end) settings over a model read: exactly the aligned positions with start <= position <= end '
                 '(either bound absent = unbounded) are reported' if sem[0] else f'window filter differs: {sem[2]}', key='window-filter', witness=sem[2])
        comp, ok = [g], sem[0]
    if em:
        conds = em['conds']
        window = [v for v in conds if names_in(v) & {'start', 'end'} and 'refpos' in names_in(v)]
        if len(window) == 2:
            pred = ast.BoolOp(op=ast.And(), values=window)
            ncase, bad = check_pred(pred, lambda e: (e['ns'] or e['p'] >= e['s']) and (e['ne'] or e['p'] <= e['e']), symbols=['p', 's', 'e'],
                                    atom_name=lambda x: {'refpos': 'p', 'start': 's', 'end': 'e', 'start is None': 'ns', 'end is None': 'ne'}.get(src(x)), extra_bools=['ns', 'ne'])
            ctx.counters['abstract_cases'] += ncase
            ok = not bad
            ctx.emit('C14-R5', ok, SEQUTILS, comp[0], f'per-read window filter over {ncase} cases == start <= refpos <= end (inclusive both sides)' if ok else f'window filter differs: {bad[0]}', key='window-filter')
    if not comp or not ok and not any(o.construct.endswith('window-filter') for o in ctx.obligations):
        ctx.emit('C14-R5', False, SEQUTILS, g, 'window filter of read_to_consensus_dict not found', key='window-filter', undecided=True)
    # the TAPS caller requests the safe window unless unsafe calls are allowed, and restricts to the convertible reference base
    m = ctx.fn(TAPS, 'TAPSMolecule.obtain_methylation_calls')
    calls = [c for c in walk_no_nested(m) if isinstance(c, ast.Call) and src(c.func) == 'self.get_consensus']
    kws = [{k.arg: k.value for k in c.keywords} for c in calls]
    refvars = {src(k.get('only_include_refbase')) for k in kws if k.get('only_include_refbase') is not None}
    ok = bool(calls) and all(k.get('dove_safe') is not None and pred_is(k['dove_safe'], lambda e: not e['u'], {'self.allow_unsafe_base_calls': 'u'}, bools=['u']) for k in kws) \
        and len(refvars) == 1 and all(k.get('only_include_refbase') is not None for k in kws)
    ctx.emit('C14-R5', ok, TAPS, calls[0] if calls else m, 'methylation calling uses the dove-safe consensus restricted to the convertible reference base', key='taps-consensus-arguments')
    tab = {}
    if len(refvars) == 1 and calls:
        rv = calls[0].keywords[[k.arg for k in calls[0].keywords].index('only_include_refbase')].value
        cls = ctx.ix.cls(TAPS, 'TAPSMolecule')
        methods = {x.name: x for x in cls.body if isinstance(x, ast.FunctionDef)}
        for strand in (False, True):
            for ts in ('F', 'R'):
                env = {'self.strand': strand, 'self.taps_strand': ts}
                if isinstance(rv, ast.Name):
                    v = eval_local(m, rv.id, env, methods=methods, stop_at=calls[0])
                else:
                    v = eval_local(ast.FunctionDef(name='_', args=m.args, body=[ast.Assign(targets=[ast.Name(id='__v', ctx=ast.Store())], value=rv)], decorator_list=[]), '__v', env, methods=methods)
                tab[(strand, ts)] = v
    want_t = {(False, 'F'): 'C', (True, 'F'): 'G', (False, 'R'): 'G', (True, 'R'): 'C'}
    ctx.emit('C14-R5', tab == want_t, TAPS, calls[0] if calls else m, f'convertible reference base per (reverse strand, TAPS strand): {tab}', key='convertible-base')
    # the consensus fed in is the tie-free majority consensus (C13-R1)
    from . import C13
    sub = Ctx(ctx.ix, 'C13', ctx.tier)
    C13.r1(sub)
    for o in sub.obligations:
        o.construct = o.construct.replace('C13-R1', 'C14-R5:C13-R1')
        o.detail = '[C13-R1] ' + o.detail
        o.rule = 'C14-R5'
        ctx.obligations.append(o)
    ctx.counters['abstract_cases'] += sub.counters['abstract_cases']
    # ... computed from the current fragments (C13-R6), from arbitrated fragment calls (C13-R7), with the safe-span request applied as given (C13-R8)
    from ..core import include
    include(ctx, C13, [C13.r2, C13.r6, C13.r7, C13.r8, C13.r9], 'C14-R5')


@rule('C14', 'C14-R6', 'the reference the contexts are read from is the reference: a class of the TAPS module that stands in for the reference handle (it has a `fetch` method and is built '
                       'from a reference handle and a window) returns, for every request inside its window, exactly what the handle itself returns - evaluated for windows that start '
                       'before, at and after the contig start')
def r6(ctx):
    from ..consteval import run_function, Raised, Unfoldable, module_scope, Instance, LocalClass
    mod = ctx.ix.module(TAPS)
    wrappers = [c for c in mod.tree.body if isinstance(c, ast.ClassDef) and any(isinstance(m_, ast.FunctionDef) and m_.name == 'fetch' for m_ in c.body)
                and any(isinstance(m_, ast.FunctionDef) and m_.name == '__init__' and len(m_.args.args) >= 4 for m_ in c.body)]
    if not wrappers:
        ctx.emit('C14-R6', True, TAPS, None, 'no class of the TAPS module stands in for the reference handle', key='reference-wrappers', nontrivial=False)
        return
    seq = 'ACGTTGCAACGGCCAT'

    def hook(ev, call, env_):
        if isinstance(call.func, ast.Attribute) and call.func.attr == 'fetch':
            try:
                base = ev.ev(call.func.value, env_)
            except Unfoldable:
                return NotImplemented
            if base == '<reference>':
                a = [ev.ev(x, env_) for x in call.args]
                if a[1] < 0 or a[2] < 0:
                    raise Raised('ValueError', 'start out of range')
                return seq[a[1]:a[2]]
        return NotImplemented
    env = module_scope(ctx.ix, TAPS)
    for c in wrappers:
        cls = env.get(c.name)
        bad, n = None, 0
        try:
            if not isinstance(cls, LocalClass):
                raise Unfoldable('class not in scope')
            init = cls.method('__init__')[0]
            fetch = cls.method('fetch')[0]
            sc = dict(cls.scope)
            sc['__class__'] = cls
            for s_ in range(-3, 4):
                for e_ in range(max(s_, 0) + 1, 10):
                    inst = Instance(cls)
                    try:
                        run_function(init, [inst, '<reference>', 'chr', s_, e_], env=sc, call_hook=hook, budget=20000)
                    except Raised:
                        continue
                    for a in range(max(0, s_), e_):
                        for b in range(a + 1, e_ + 1):
                            n += 1
                            try:
                                got = run_function(fetch, [inst, 'chr', a, b], env=sc, call_hook=hook, budget=20000)
                            except Raised as r_:
                                got = f'raises {r_.name}'
                            if got != seq[a:b] and bad is None:
                                bad = {'window the stand-in was built for': (s_, e_), 'request': (a, b), 'stand-in returns': got, 'reference holds': seq[a:b]}
        except (Unfoldable, Exception) as e_:
            ctx.emit('C14-R6', False, TAPS, c, f'{c.name} stands in for the reference handle and is outside the interpreted subset ({type(e_).__name__}: {str(e_)[:80]})', key=f'reference-wrappers:{c.name}', undecided=True)
            continue
        ctx.counters['interpreted_cases'] += n
        ctx.emit('C14-R6', bad is None, TAPS, c, f'{c.name}: {n} requests inside its window return what the reference returns' if bad is None else
                 f'{c.name} does not return the reference for a request inside its window: {bad} - every context read through it is shifted', key=f'reference-wrappers:{c.name}', witness=bad,
                 what=f'{c.name}: a stand-in for the reference handle returns other bases than the reference')


META = {
    'text': ('Decides clause-level necessary conditions: the context table (folded from the constructor) has exactly the 16 contexts C[ACGT][ACGT] with '
             'their Bismark classes and the methylated table is its upper-case image; the methylated table is chosen iff the consensus shows C>T / G>A, the '
             'unmethylated iff unconverted, otherwise "."; the G window [p-2, p+1) is the reverse-complement mirror of the C window [p, p+3) with an involutive '
             'complement table; count tags sum exactly the letters of their class and the call string has one symbol per aligned pair; calls use the dove-safe '
             'consensus whose window is [left start + d, right end - d - 1] inclusive in both orientations with filter start <= pos <= end, restricted to the '
             'convertible reference base, built from the tie-free consensus (C13-R1). Does NOT decide calls against a simulated methylome.'),
    'technique': 'static analysis: constant folding of the context / complement tables, path enumeration of the polarity table, linear forms of context and dove-safe windows, tag wiring set comparison; small-scope abstract execution of position_to_context against a model reference, of the window filter of read_to_consensus_dict, and of every class that stands in for the reference handle, and of the dove-safe window on model mate pairs',
    'design_ref': 'DESIGN.md section 5, C14',
}


from . import shared as _shared
_shared.register('C14', 'C14')
