"""C16 - feature lookups never reflect a stale earlier state (cache-invalidation typestate of memoised lookups)."""
import ast

from ..core import rule
from ..index import AnalysisError, dotted, src, walk_no_nested, PKG, names_in
from ..cfg import CFG, UNK, eval3
from ..util import node_calls, own_expr, reach_expr, pred_is, arg, last_name as last_name_
from ..domains import linform
from .slots import FEATURES, MOLECULE, FRAGMENT, P

CLS = 'FeatureContainer'
MUTATING_CALLS = {'append', 'extend', 'insert', 'pop', 'remove', 'clear', 'sort', 'reverse', 'update', 'add', 'discard',
                  'setdefault', 'popitem'}
IGNORED_FIELDS = {'debug', 'verbose'}     # reporting switches: do not influence lookup results (confirmed by reading)


def is_memo_decorator(d):
    t = dotted(d.func if isinstance(d, ast.Call) else d) or ''
    return t.split('.')[-1] in ('lru_cache', 'cache')


def class_methods(ix, relpath, cls):
    c = ix.cls(relpath, cls)
    return {n.name: n for n in c.body if isinstance(n, (ast.FunctionDef, ast.AsyncFunctionDef))}


def self_field(node):
    """Field name F when `node` is an access path rooted at self.F (self.F, self.F[..], self.F[..][..], self.F.x)."""
    n = node
    while isinstance(n, (ast.Subscript, ast.Attribute, ast.Call)):
        if isinstance(n, ast.Call):
            # self.F.setdefault(k, []) / self.F.get(k) denote an element of self.F
            if isinstance(n.func, ast.Attribute) and n.func.attr in ('setdefault', 'get'):
                n = n.func.value
                continue
            return None
        if isinstance(n, ast.Attribute) and isinstance(n.value, ast.Name) and n.value.id == 'self':
            return n.attr
        n = n.value
    return None


def fields_read(f):
    out = set()
    for n in walk_no_nested(f):
        if isinstance(n, ast.Attribute) and isinstance(n.value, ast.Name) and n.value.id == 'self' and isinstance(n.ctx, ast.Load):
            out.add(n.attr)
    return out


def self_calls(f, methods):
    out = set()
    for n in walk_no_nested(f):
        if isinstance(n, ast.Call) and isinstance(n.func, ast.Attribute) and isinstance(n.func.value, ast.Name) \
                and n.func.value.id == 'self' and n.func.attr in methods:
            out.add(n.func.attr)
    return out


def write_nodes(f):
    """AST statements of f that write a field of self: (stmt, field)."""
    out = []
    for n in walk_no_nested(f):
        if isinstance(n, (ast.Assign, ast.AugAssign, ast.AnnAssign)):
            targets = n.targets if isinstance(n, ast.Assign) else [n.target]
            for t in targets:
                for tt in (t.elts if isinstance(t, (ast.Tuple, ast.List)) else [t]):
                    fl = self_field(tt)
                    if fl:
                        out.append((n, fl))
        elif isinstance(n, ast.Delete):
            for t in n.targets:
                fl = self_field(t)
                if fl:
                    out.append((n, fl))
        elif isinstance(n, ast.Call) and isinstance(n.func, ast.Attribute) and n.func.attr in MUTATING_CALLS:
            fl = self_field(n.func.value)
            if fl:
                out.append((n, fl))
    return out



def bind_consts(fdef, call, caller_env):
    """param name -> constant for the parameters of `fdef` bound by `call` (constants, or names constant in caller_env,
    or constant defaults)."""
    from ..cfg import UNK
    params = [a.arg for a in fdef.args.args]
    env = {}
    defaults = fdef.args.defaults
    for p_, d in zip(params[len(params) - len(defaults):], defaults):
        if isinstance(d, ast.Constant):
            env[p_] = d.value

    def val(e):
        if isinstance(e, ast.Constant):
            return e.value
        if isinstance(e, ast.Name) and e.id in caller_env:
            return caller_env[e.id]
        return UNK
    pos = params[1:] if params and params[0] == 'self' else params
    for p_, a in zip(pos, call.args):
        v = val(a)
        if v is UNK:
            env.pop(p_, None)
        else:
            env[p_] = v
    for k in call.keywords:
        if k.arg is None:
            return {}
        v = val(k.value)
        if v is UNK:
            env.pop(k.arg, None)
        else:
            env[k.arg] = v
    return env


def fields_read_spec(methods, name, env, _seen=None):
    """fields of self read by methods[name] (and the self-methods it calls) when its parameters have the constants in env;
    branches whose test folds to a constant under env are pruned."""
    from ..cfg import eval3, UNK, const_env_step
    _seen = _seen if _seen is not None else set()
    key = (name, tuple(sorted((k, repr(v)) for k, v in env.items())))
    if key in _seen or name not in methods:
        return set()
    _seen.add(key)
    f = methods[name]
    if write_nodes(f):
        return set()     # a mutator reached from a lookup (lazy re-index): its reads are not dependencies of the answer
    assigned = {t.id for n in walk_no_nested(f) if isinstance(n, (ast.Assign, ast.AugAssign, ast.For)) for t in ast.walk(n.targets[0] if isinstance(n, ast.Assign) else n.target) if isinstance(t, ast.Name)}
    env = {k: v for k, v in env.items() if k not in assigned}
    cfg = CFG(f.body, exceptions=False)
    live = {cfg.entry}
    st = [cfg.entry]
    while st:
        x = st.pop()
        nd = cfg.nodes[x]
        for y, label in cfg.succ[x]:
            if nd.kind == 'test' and label in ('true', 'false') and isinstance(nd.ast, ast.If):
                v = eval3(nd.ast.test, env)
                if v is not UNK and bool(v) != (label == 'true'):
                    continue
            if y not in live:
                live.add(y)
                st.append(y)
    out = set()
    for i in live:
        nd = cfg.nodes[i]
        e = own_expr(nd)
        if e is None:
            continue
        for n in walk_no_nested(e):
            if isinstance(n, ast.Attribute) and isinstance(n.value, ast.Name) and n.value.id == 'self' and isinstance(n.ctx, ast.Load):
                out.add(n.attr)
            if isinstance(n, ast.Call) and isinstance(n.func, ast.Attribute) and isinstance(n.func.value, ast.Name) \
                    and n.func.value.id == 'self' and n.func.attr in methods:
                out |= fields_read_spec(methods, n.func.attr, bind_consts(methods[n.func.attr], n, env), _seen)
    return out


def write_nodes_of_fields(f, fields):
    """assignments of `f` to one of the named self fields (re-indexers write the index, they are not readers)"""
    out = []
    for n in walk_no_nested(f):
        if isinstance(n, (ast.Assign, ast.AugAssign)):
            for t in (n.targets if isinstance(n, ast.Assign) else [n.target]):
                if self_field(t) in fields:
                    out.append(n)
    return out


def analyse_class(ctx, relpath, cls, rid):
    ix = ctx.ix
    methods = class_methods(ix, relpath, cls)
    memo = {name: f for name, f in methods.items() if any(is_memo_decorator(d) for d in f.decorator_list)}
    if not memo:
        return None
    # --- read closure of each memoised method (through self.<method>() calls; mutators reached are not readers)
    reads = {}
    for name, f in memo.items():
        seen, todo, flds = set(), [name], set()
        while todo:
            m = todo.pop()
            if m in seen or m not in methods:
                continue
            if m != name and write_nodes(methods[m]):
                continue     # mutators reached from a lookup (lazy re-index) are not readers
            seen.add(m)
            flds |= fields_read(methods[m])
            todo.extend(self_calls(methods[m], methods))
        reads[name] = (flds - set(methods) - IGNORED_FIELDS, seen)
    # --- helpers that clear a memo cache
    def clears_in(f):
        out = set()
        for n in walk_no_nested(f):
            if isinstance(n, ast.Call) and isinstance(n.func, ast.Attribute) and n.func.attr == 'cache_clear':
                t = n.func.value
                if isinstance(t, ast.Attribute) and isinstance(t.value, ast.Name) and t.value.id == 'self' and t.attr in memo:
                    out.add(t.attr)
        return out
    inlined_helpers = {h_.split(':')[-1] for _c, h_, _how in (getattr(ix.module(relpath), 'inlined', None) or [])}
    helper = {name: clears_in(f) for name, f in methods.items()}
    # straight-line helpers only: a helper counts when the clear is unconditional (top-level statement)
    for name, f in methods.items():
        top = set()
        for s in f.body:
            if isinstance(s, ast.Expr):
                for n in walk_no_nested(s):
                    if isinstance(n, ast.Call) and isinstance(n.func, ast.Attribute) and n.func.attr == 'cache_clear' \
                            and src(n.func.value).startswith('self.') and n.func.value.attr in memo:
                        top.add(n.func.value.attr)
        helper[name] = top
    results = []
    for mname, mf in memo.items():
        rfields, closure = reads[mname]
        for wname, wf in methods.items():
            if wname == '__init__' or wname in memo:
                continue
            if wname.startswith('_') and f'{cls}.{wname}' in inlined_helpers:
                continue        # a private helper whose body was analysed inside every method that calls it
            writes = [(n, fl) for n, fl in write_nodes(wf) if fl in rfields]
            if not writes:
                continue
            cfg = CFG(wf.body, exceptions=False)
            write_ast = {id(n): fl for n, fl in writes}

            def events(node):
                """ordered cache events of one CFG node: lookups (RHS) first, then clears, then writes"""
                ev = []
                e = own_expr(node)
                if e is None:
                    return ev
                for c in node_calls(node):
                    if isinstance(c.func, ast.Attribute) and isinstance(c.func.value, ast.Name) and c.func.value.id == 'self' and c.func.attr in memo:
                        ev.append(('lookup', c))
                for c in node_calls(node):
                    if isinstance(c.func, ast.Attribute) and c.func.attr == 'cache_clear' and src(c.func.value) == f'self.{mname}':
                        ev.append(('clear', c))
                    elif isinstance(c.func, ast.Attribute) and isinstance(c.func.value, ast.Name) and c.func.value.id == 'self' \
                            and mname in helper.get(c.func.attr, set()) and c.func.attr != wname:
                        ev.append(('clear', c))
                for x in walk_no_nested(e):
                    if id(x) in write_ast:
                        ev.append(('write', x))
                return ev

            def partitioned(loop):
                """all writes / lookups inside the loop are keyed by the loop variable (disjoint partitions per iteration)"""
                if not isinstance(loop.target, ast.Name):
                    return False
                v = loop.target.id
                for n, fl in writes:
                    if any(x is n for x in walk_no_nested(loop)):
                        tgt = None
                        if isinstance(n, ast.Assign):
                            tgt = n.targets[0]
                        elif isinstance(n, ast.AugAssign):
                            tgt = n.target
                        elif isinstance(n, ast.Call):
                            tgt = n.func.value
                        t = tgt
                        okp = False
                        while isinstance(t, (ast.Subscript, ast.Attribute)):
                            if isinstance(t, ast.Subscript) and isinstance(t.value, ast.Attribute) and src(t.value) == f'self.{fl}' and src(t.slice) == v:
                                okp = True
                            t = t.value
                        if not okp:
                            return False
                for c in walk_no_nested(loop):
                    if isinstance(c, ast.Call) and isinstance(c.func, ast.Attribute) and isinstance(c.func.value, ast.Name) \
                            and c.func.value.id == 'self' and c.func.attr in memo:
                        if not (c.args and src(c.args[0]) == v):
                            return False
                return True

            ALL = None   # entries of unknown provenance: may depend on every field the memoised method reads
            problems = []

            def step(state, node, label):
                deps, stale = state      # deps: set of fields the cached entries may depend on (ALL = unknown), stale flag
                for kind, x in events(node):
                    if kind == 'lookup':
                        if stale:
                            problems.append(f'memoised lookup at line {x.lineno} can return an entry cached before a write')
                        r = fields_read_spec(methods, x.func.attr, bind_consts(methods[x.func.attr], x, {})) - set(methods) - IGNORED_FIELDS
                        deps = ALL if deps is ALL else frozenset(deps | r)
                    elif kind == 'clear':
                        deps, stale = frozenset(), False
                    elif kind == 'write':
                        fl = write_ast[id(x)]
                        if deps is ALL or fl in deps:
                            stale = True
                if node.kind == 'for' and label == 'true' and not stale and deps is not ALL and partitioned(node.ast):
                    deps = frozenset()   # entries of earlier iterations belong to other partitions (keys) than this iteration writes
                return (deps, stale)

            has_lookup = False
            n_paths = 0
            for pth, (deps_, st) in cfg.paths(state0=(ALL, False), step=step, loop_visits=3, max_paths=100000):
                if cfg.nodes[pth[-1][0]].info not in ('fall', 'return'):
                    continue
                n_paths += 1
                if st:
                    problems.append('a path returns with entries cached before its last write still in the cache')
            ctx.counters['paths_enumerated'] += n_paths
            results.append((mname, wname, sorted({fl for _, fl in writes}), not problems, sorted(set(problems)), wf, n_paths))
    return memo, reads, results


def container_model(ctx):
    """FeatureContainer run by the abstract interpreter (numpy and the lru_cache semantics of its memoised lookups included) through add / query histories: features
    with coordinates 0..6 (nested, identical and zero-length ones) are added in three batches; after every batch every point (all strands, all four lookup variants)
    and every short range is queried TWICE and compared with the plain definition over the features added so far.  (ok, queries, witness) / None.  Cached per run."""
    if hasattr(ctx, '_container_model'):
        return ctx._container_model
    import itertools
    from ..consteval import run_function, Raised, Unfoldable, module_scope, Instance
    ctx._container_model = None
    try:
        env = module_scope(ctx.ix, FEATURES)
        cls = env.get(CLS)
        if cls is None:
            return None
    except Exception:
        return None

    def hook(ev, call, env_):
        d = dotted(call.func) or ''
        if d == 'locals':
            return {}
        if d.endswith('debugMsg') or d == 'print':
            return None
        return NotImplemented

    def call(inst, name, *a, **kw):
        m = cls.method(name)
        sc = dict(m[1].scope)
        sc['__class__'] = m[1]
        sc['self'] = inst
        return run_function(m[0], [inst] + list(a), kw, env=sc, call_hook=hook, budget=400000)
    histories = [
        # two contigs that share feature starts, the contig indexed later holding the longer enclosing feature (a per-contig index must not see the other contig)
        [[(2, 3, '+', 'c'), (5, 5, '+', 'c')], [(0, 6, '+', 'd'), (2, 3, '-', 'd'), (5, 6, '+', 'd')], [(1, 1, '+', 'c')]],
        [[(1, 3, '+')], [(2, 2, '-'), (0, 5, '+')], [(4, 6, '-')]],
        [[(2, 4, '+'), (2, 4, '-')], [(0, 0, '+')], [(3, 3, '+'), (5, 6, '+')]],
        [[(0, 1, '+'), (3, 4, '+'), (6, 6, '-')], [(2, 2, '+')], [(1, 5, '-')]],
        [[(5, 6, '+')], [(0, 6, '-')], [(1, 1, '+'), (1, 1, '+')]],
    ]
    n = 0
    try:
        for hist in histories:
            for c in itertools.chain.from_iterable(cl.memo.clear() or [] for cl in [cls] + list(cls.bases)):
                pass
            inst = Instance(cls)
            call(inst, '__init__')
            have_all = {}
            k = 0
            for batch in hist:
                for item in batch:
                    a, b, st = item[:3]
                    cg = item[3] if len(item) > 3 else 'c'
                    k += 1
                    call(inst, 'addFeature', cg, a, b, f'f{k}', strand=st)
                    have_all.setdefault(cg, []).append((a, b, f'f{k}', st, None))
                for cg, have in sorted(have_all.items()):
                  for rep in (1, 2):
                      for lo, hi in [(x, y) for x in range(0, 7) for y in range(x, min(x + 3, 7))]:
                          for strand in (None, '+'):
                              n += 1
                              got = sorted(tuple(x) for x in call(inst, 'findFeaturesBetween', cg, lo, hi, strand))
                              want = sorted(ft for ft in have if ft[0] <= hi and ft[1] >= lo and (strand is None or ft[3] == strand))
                              if got != want:
                                  ctx._container_model = (False, n, {'features added so far (start, end, strand)': [(f_[0], f_[1], f_[3]) for f_ in have], 'query': f'findFeaturesBetween({cg}, {lo}, {hi}, strand={strand})',
                                                                     'asked for the': f'{rep}. time after the last add', 'returned': [(g_[0], g_[1], g_[3]) for g_ in got], 'overlapping': [(w_[0], w_[1], w_[3]) for w_ in want]})
                                  return ctx._container_model
                      for p_ in range(0, 7):
                          for strand in (None, '+', '-'):
                              for optim in (None, 'nb', 'optim', 'plain'):
                                  if optim is not None and (strand == '-' or rep == 2):
                                      continue
                                  n += 1
                                  kw = {} if optim is None else {'optim': optim}
                                  got = sorted(tuple(x) for x in call(inst, 'findFeaturesAt', cg, p_, strand, **kw))
                                  want = sorted(ft for ft in have if ft[0] <= p_ <= ft[1] and (strand is None or ft[3] == strand))
                                  if got != want:
                                      ctx._container_model = (False, n, {'features added so far (start, end, strand)': [(f_[0], f_[1], f_[3]) for f_ in have], 'query': f'findFeaturesAt({cg}, {p_}, strand={strand}' + (f', optim={optim})' if optim else ')'),
                                                                         'asked for the': f'{rep}. time after the last add', 'returned': [(g_[0], g_[1], g_[3]) for g_ in got], 'containing': [(w_[0], w_[1], w_[3]) for w_ in want]})
                                      return ctx._container_model
    except (Unfoldable, Raised):
        return None
    except Exception:
        return None
    ctx._container_model = (True, n, None)
    return ctx._container_model


@rule('C16', 'C16-R1', 'no memoised lookup outlives a mutation: every method of FeatureContainer that writes a field a '
                       'memoised lookup (transitively) reads clears that lookup\'s cache after its last write on every path '
                       '(or, for re-indexers that query while rebuilding, before its first write and first internal lookup)')
def r1(ctx):
    return _r1_impl(ctx)


def _hand_written_memos(ctx):
    """a lookup table a method fills itself (`hit = self.T.get(key)` ... `self.T[key] = value`): the stored value may depend only on what the key contains -
    an argument that shapes the value but is missing from the key makes every later request with another value of that argument get the answer of the first"""
    methods = class_methods(ctx.ix, FEATURES, CLS)
    n = 0
    for name, f in methods.items():
        params = {a.arg for a in f.args.args + f.args.kwonlyargs} - {'self'}
        defs = {}
        for s_ in walk_no_nested(f):
            if isinstance(s_, ast.Assign) and len(s_.targets) == 1 and isinstance(s_.targets[0], ast.Name):
                defs.setdefault(s_.targets[0].id, []).append(s_.value)

        def deps(e, seen=()):
            out = set()
            for n_ in names_in(e):
                if n_ in params:
                    out.add(n_)
                elif n_ in defs and n_ not in seen:
                    for v_ in defs[n_]:
                        out |= deps(v_, seen + (n_,))
            return out
        for s_ in walk_no_nested(f):
            if not (isinstance(s_, ast.Assign) and len(s_.targets) == 1 and isinstance(s_.targets[0], ast.Subscript) and isinstance(s_.targets[0].value, ast.Attribute)
                    and isinstance(s_.targets[0].value.value, ast.Name) and s_.targets[0].value.value.id == 'self'):
                continue
            tab, key = s_.targets[0].value.attr, s_.targets[0].slice
            ktxt = src(key)
            looked = [c for c in walk_no_nested(f) if (isinstance(c, ast.Call) and isinstance(c.func, ast.Attribute) and c.func.attr == 'get' and src(c.func.value) == f'self.{tab}' and c.args and src(c.args[0]) == ktxt)
                      or (isinstance(c, ast.Compare) and len(c.ops) == 1 and isinstance(c.ops[0], (ast.In, ast.NotIn)) and src(c.left) == ktxt and src(c.comparators[0]) == f'self.{tab}')]
            if not looked:
                continue
            n += 1
            kd, vd = deps(key), deps(s_.value)
            extra = sorted(vd - kd)
            ctx.emit('C16-R1', not extra, FEATURES, s_, f'{CLS}.{name} memoises in self.{tab} under `{ktxt}` ' + ('(key covers every argument the stored value depends on)' if not extra else
                     f'(= {sorted(kd)}), but the stored value is computed from {sorted(vd)}: it depends on {extra}, which the key lacks - a later request with another `{extra[0]}` is answered with the entry '
                     f'of the first request (a subset / superset of the right features)'), key=f'{name}:memo-key-complete:{tab}', what=f'{CLS}.{name}: hand-written lookup cache keyed without {extra}')
    return n


def _r1_impl(ctx):
    n_hand = _hand_written_memos(ctx)
    res = analyse_class(ctx, FEATURES, CLS, 'C16-R1')
    if res is None:
        # no memoised method left: nothing can be stale
        ctx.emit('C16-R1', True, FEATURES, ctx.ix.cls(FEATURES, CLS), 'FeatureContainer has no memoised lookup methods', nontrivial=False)
        return
    memo, reads, results = res
    for m, (flds, closure) in reads.items():
        ctx.info(f'memoised {m}: reads fields {sorted(flds)} through {sorted(closure)}')
        ctx.counters['functions_analysed'].update(f'{FEATURES}:{CLS}.{c}' for c in closure)
    n = 0
    for mname, wname, fields, ok, problems, wf, n_paths in results:
        n += 1
        ctx.emit('C16-R1', ok, FEATURES, wf,
                 f'{CLS}.{wname} writes {fields} read by memoised {mname}: ' +
                 (f'on all {n_paths} paths no entry cached before a write survives it (cache typestate empty/valid/stale)' if ok else
                  '; '.join(problems) + ' -> a later lookup can return the answer of the previous state'),
                 key=f'{wname}:clears:{mname}',
                 what=f'{CLS}.{wname} mutates {fields} without clearing the lru_cache of {mname}')
    ctx.need('C16-R1', n, 2 * len(memo), 'mutator x memoised-lookup pairs')


@rule('C16', 'C16-R2', 'adding a feature marks the container unsorted on every path and every index-based lookup re-indexes first when unsorted')
def r2(ctx):
    ix = ctx.ix
    methods = class_methods(ix, FEATURES, CLS)
    add = methods.get('addFeature')
    if add is None:
        raise AnalysisError('FeatureContainer.addFeature not found')
    cfg = CFG(add.body, exceptions=False)
    app = [n.id for n in cfg.nodes if any(isinstance(c.func, ast.Attribute) and c.func.attr == 'append' and self_field(c.func.value) == 'features' for c in node_calls(n))]
    uns = {n.id for n in cfg.nodes if n.kind == 'stmt' and isinstance(n.ast, ast.Assign) and src(n.ast) == 'self.sorted = False'}
    pd = cfg.dominators(reverse=True, roots=[t for k, t in cfg.terms.items() if k in ('fall', 'return')])
    ok = bool(app) and all(pd[a] & uns for a in app)
    ctx.emit('C16-R2', ok, FEATURES, add, 'addFeature: the append is followed by self.sorted = False on every path', key='add-marks-unsorted')
    # lookups that read the index re-sort first
    index_fields = {'startCoordinates', 'endCoordinates', 'fastIndex', 'endIndexes', 'endIndexLookup', 'maxFeatureSizes'}
    n = 0
    # every method that reads an index array: the queries named in the property first, then whatever else consults the index
    readers = [name for name, f in methods.items() if name.lstrip('_').startswith('find') and not write_nodes_of_fields(f, index_fields)
               and any(isinstance(x, ast.Attribute) and isinstance(x.value, ast.Name) and x.value.id == 'self' and x.attr in index_fields and isinstance(x.ctx, ast.Load) for x in walk_no_nested(f))]
    for name in sorted(set(['_findFeaturesAt', 'findNearestLeftFeature', 'findNearestRightFeature']) | set(readers)):
        f = methods.get(name)
        if f is None:
            continue
        n += 1
        cfg = CFG(f.body, exceptions=False)
        dom = cfg.dominators()
        guard = set()
        for nd in cfg.nodes:
            if nd.kind == 'stmt' and any(src(c.func) == 'self.sort' for c in node_calls(nd)):
                guard.add(nd.id)
        tests = {nd.id for nd in cfg.nodes if nd.kind == 'test' and src(nd.ast.test) == 'not self.sorted'}
        bad = []
        for nd in cfg.nodes:
            e = own_expr(nd)
            if e is None or nd.id in tests:
                continue
            uses = [x for x in walk_no_nested(e) if isinstance(x, ast.Attribute) and isinstance(x.value, ast.Name) and x.value.id == 'self' and x.attr in index_fields]
            if uses and not (dom[nd.id] & tests):
                bad.append(nd)
        ctx.emit('C16-R2', not bad and bool(guard) and bool(tests), FEATURES, f,
                 f'{name}: every read of the index arrays is dominated by `if not self.sorted: self.sort()`' if not bad and guard else
                 f'{name}: index arrays read without the re-sort guard at {bad[:2]}', key=f'{name}:resort-guard')
    ctx.need('C16-R2', n, 3, 'index based lookups')


@rule('C16', 'C16-R3', 'cross-reference: every functools cache in the package (informational, one line each)', tier='thorough')
def r3(ctx):
    n = 0
    for m in ctx.ix.all_modules():
        for q, ds in m.defs.items():
            for d in ds:
                if isinstance(d, (ast.FunctionDef, ast.AsyncFunctionDef)) and any(is_memo_decorator(x) for x in d.decorator_list):
                    n += 1
                    is_method = '.' in q and d.args.args and d.args.args[0].arg == 'self'
                    ctx.emit('C16-R3', True, m.relpath, d, f'memoised {"method" if is_method else "function"} {q}' +
                             (' (keyed on a mutable instance; outside the FeatureContainer call graph -> cross-reference only)' if is_method and m.relpath != FEATURES else ''),
                             key=f'memo-site:{q}', nontrivial=False)
    ctx.need('C16-R3', n, 2, 'functools cache sites in the package')


FEATMOL = P + 'molecule/featureannotatedmolecule.py'


@rule('C16', 'C16-R6', 'read annotation queries closed intervals: every range handed to findFeaturesBetween by the annotation code is an inclusive block - either '
                       'taken from get_aligned_blocks() (inclusive first/last position) or a pysam get_blocks() block with its exclusive end reduced by one')
def r6(ctx):
    n = 0
    for rel in (FRAGMENT, FEATMOL, FEATURES):
        if not ctx.ix.exists(rel):
            continue
        m = ctx.ix.module(rel)
        for q, defs in sorted(m.defs.items()):
            for f in defs:
                if not isinstance(f, (ast.FunctionDef, ast.AsyncFunctionDef)):
                    continue
                for c in walk_no_nested(f):
                    if not (isinstance(c, ast.Call) and isinstance(c.func, ast.Attribute) and c.func.attr == 'findFeaturesBetween'):
                        continue
                    endarg = arg(c, 2, 'sampleEnd')
                    startarg = arg(c, 1, 'sampleStart')
                    if endarg is None or startarg is None:
                        continue
                    # where do (start, end) come from: the innermost enclosing loop / comprehension that binds the names used in the end argument
                    binder = None
                    p_ = m.parent.get(c)
                    while p_ is not None and p_ is not f:
                        if isinstance(p_, ast.For) and names_in(endarg) & {x.id for x in ast.walk(p_.target) if isinstance(x, ast.Name)}:
                            binder = p_.iter
                            break
                        if isinstance(p_, (ast.ListComp, ast.SetComp, ast.GeneratorExp, ast.DictComp)):
                            for g_ in p_.generators:
                                if names_in(endarg) & {x.id for x in ast.walk(g_.target) if isinstance(x, ast.Name)}:
                                    binder = g_.iter
                            if binder is not None:
                                break
                        p_ = m.parent.get(p_)
                    if binder is None:
                        # not a block loop.  The caller may pass its own coordinates through - but the read / molecule annotation may not query the *span* of a
                        # fragment or molecule in place of its aligned blocks: the span runs from the R1 5' end to the far mate, aligned bases of dove-tailed
                        # or same-orientation mates lie outside it
                        spanish = sorted(n_ for e_ in (startarg, endarg) for n_ in {src(x) for x in ast.walk(e_) if isinstance(x, (ast.Attribute, ast.Call))}
                                         if n_ in ('self.spanStart', 'self.spanEnd', 'self.get_span()', 'self.span'))
                        if spanish and f.name in ('annotate', '_iter_block_hits', 'annotate_features'):
                            n += 1
                            ctx.emit('C16-R6', False, rel, c, f'{q}: `{src(c)[:100]}` queries the span {spanish} instead of the aligned blocks: features that overlap aligned bases outside the span '
                                     f'(dove-tailed pairs, same-orientation mates) are never candidates and are missing from the annotation', key=f'{q}:annotation-queries-blocks',
                                     what=f'{q}: the annotation queries the molecule span, not the aligned blocks')
                        continue
                    bsrc = src(binder)
                    if isinstance(binder, ast.Name):
                        # the block list is a local: every definition of it has to be a block source
                        dd = [a_.value for a_ in walk_no_nested(f) if isinstance(a_, ast.Assign) and len(a_.targets) == 1 and src(a_.targets[0]) == binder.id]
                        spans = [d_ for d_ in dd if 'get_blocks' not in src(d_) and 'get_aligned_blocks' not in src(d_)]
                        blocky = [d_ for d_ in dd if 'get_blocks' in src(d_) or 'get_aligned_blocks' in src(d_)]
                        if dd and not blocky and not any(x in src(d_) for d_ in dd for x in ('reference_start', 'reference_end')):
                            continue        # not a walk over the blocks of a read
                        if dd and spans:
                            n += 1
                            span_like = any(x in src(spans[0]) for x in ('reference_start', 'reference_end', 'span'))
                            ctx.emit('C16-R6', False, rel, c, f'{q}: the ranges queried come from `{binder.id} = {src(spans[0])[:70]}`' + (': the reference span of the read, which includes deleted / skipped '
                                     'reference bases no aligned base covers - features lying inside a deletion are reported' if span_like else ': not the aligned blocks of the read'),
                                     key=f'{q}:blocks-are-aligned-blocks', undecided=not span_like, what=f'{q}: annotation queries the reference span instead of the aligned blocks')
                            continue
                        if dd:
                            bsrc = ' | '.join(sorted({src(d_) for d_ in dd}))
                    if 'get_blocks' in bsrc:
                        n += 1
                        lf = linform(endarg)
                        ok = lf is not None and lf.const == -1 and len(lf.coef) == 1
                        ctx.emit('C16-R6', ok, rel, c, f'{q}: blocks of `{bsrc[:50]}` are half-open [start, end); the closed query is given end `{src(endarg)}`' +
                                 ('' if ok else ' - a feature that starts on the first base after the block is reported although the read does not cover it'),
                                 key=f'{q}:closed-block-end', what=f'{q}: half-open pysam block passed to the closed-interval range query')
                    elif 'get_aligned_blocks' in bsrc:
                        n += 1
                        lf = linform(endarg)
                        ok = lf is not None and lf.const == 0 and len(lf.coef) == 1
                        ctx.emit('C16-R6', ok, rel, c, f'{q}: blocks of get_aligned_blocks() are inclusive; the closed query is given end `{src(endarg)}`', key=f'{q}:closed-block-end')
    ctx.need('C16-R6', n, 2, 'block-wise range queries of the annotation code')


@rule('C16', 'C16-R7', 'strand handling and the point-lookup accelerator: the strand filter is off exactly when the molecule is unstranded (stranded is None), '
                       'every point lookup of a range query carries the query strand, and the per-feature start index of sort() is the lowest start among '
                       'the features overlapping the feature start')
def r7(ctx):
    from ..util import explore, mk_atoms
    # (a) strand selection of the annotation: decision table over stranded in {None, False, True}
    f = ctx.fn(FEATMOL, 'FeatureAnnotatedMolecule.annotate')
    table = {}
    for val in (None, False, True):
        facts = {'self.stranded is None': val is None, 'self.stranded is not None': val is not None, 'self.stranded': bool(val), 'not self.stranded': not bool(val),
                 'self.stranded is True': val is True, 'self.stranded is False': val is False, 'self.stranded == True': val is True, 'self.stranded == False': val is False}
        base = mk_atoms(facts)

        def at(e, base=base, facts=facts):
            v = base(e)
            if v is UNK and isinstance(e, ast.UnaryOp) and isinstance(e.op, ast.Not) and src(e.operand) in facts:
                return not facts[src(e.operand)]
            return v
        rs = explore(f.body, at, names=('strand',), max_paths=4000)
        outs = set()
        for r in rs:
            e_ = r['env'].get('strand')
            for _ in range(3):
                if isinstance(e_, ast.IfExp):
                    t_ = eval3(e_.test, {}, at)
                    if t_ is UNK:
                        break
                    e_ = e_.body if t_ else e_.orelse
            outs.add('None' if (isinstance(e_, ast.Constant) and e_.value is None) else ('unset' if e_ is None else ('?' if isinstance(e_, ast.IfExp) else 'strand')))
        table[val] = outs
    want = {None: {'None'}, False: {'strand'}, True: {'strand'}}
    ok = all(table[v] == want[v] for v in want)
    ctx.emit('C16-R7', ok, FEATMOL, f, f'annotation strand filter by stranded: {({str(k): sorted(v) for k, v in table.items()})}' + ('' if ok else
             ' - expected: no filter only for stranded=None; stranded=False means "same strand as the molecule"'), key='strand-filter-selection',
             what='FeatureAnnotatedMolecule.annotate: stranded=False is treated as unstranded')
    ctx.counters['abstract_cases'] += 3
    # (b) sibling agreement: every findFeaturesAt of findFeaturesBetween is given the strand of the query
    ms = class_methods(ctx.ix, FEATURES, CLS)
    fb = ms.get('findFeaturesBetween')
    sp = [a_.arg for a_ in fb.args.args if a_.arg == 'strand']
    calls = [c for c in walk_no_nested(fb) if isinstance(c, ast.Call) and isinstance(c.func, ast.Attribute) and c.func.attr == 'findFeaturesAt']
    at_def = ms.get('findFeaturesAt')
    pos_index = [a_.arg for a_ in at_def.args.args].index('strand') - 1 if at_def is not None and 'strand' in [a_.arg for a_ in at_def.args.args] else None
    bad = []
    for c in calls:
        given = next((src(k.value) for k in c.keywords if k.arg == 'strand'), None)
        if given is None and pos_index is not None and len(c.args) > pos_index:
            given = src(c.args[pos_index])
        if not sp or given != sp[0]:
            bad.append(c)
    ctx.emit('C16-R7', bool(calls) and not bad, FEATURES, bad[0] if bad else fb, f'all {len(calls)} point lookups of findFeaturesBetween carry the query strand' if calls and not bad else
             f'point lookup `{src(bad[0])[:70] if bad else None}` of findFeaturesBetween does not pass the query strand: features of the other strand covering that edge are returned',
             key='range-edge-lookups-stranded', what='findFeaturesBetween: an edge lookup ignores the strand')
    # (c) the accelerator
    srt = ms.get('sort')
    st_ = [s_ for s_ in walk_no_nested(srt) if isinstance(s_, ast.Assign) and any(src(t_).startswith('self.fastIndex[') for t_ in s_.targets)]
    ok, why, und = False, 'self.fastIndex is not filled per contig', False
    if len(st_) == 1:
        v = st_[0].value
        if isinstance(v, ast.Call) and last_name_(dotted(v.func) or '') == 'searchsorted' and len(v.args) >= 2:
            low = v.args[1]
            if isinstance(low, ast.Name):
                dd = [a_.value for a_ in walk_no_nested(srt) if isinstance(a_, ast.Assign) and len(a_.targets) == 1 and src(a_.targets[0]) == low.id]
                low = dd[-1] if dd else low
            txt = src(low)
            side = src(v.args[2]) if len(v.args) > 2 else next((src(k.value) for k in v.keywords if k.arg == 'side'), "'left'")
            ok = 'min(' in txt and 'findFeaturesAt(' in txt and "optim='nb'" in txt.replace('"', "'") and side.replace('"', "'") == "'left'" and src(v.args[0]).startswith('self.startCoordinates[')
            why = 'fastIndex = position (left) of the lowest start among the features overlapping each feature start' if ok else f'fastIndex is searchsorted over `{txt[:70]}` (side {side})'
            und = not ok
        else:
            # a sweep over the start-sorted features: the end of the current overlap group must grow with every member
            loops = [l for l in walk_no_nested(srt) if isinstance(l, ast.For) and any(isinstance(a_, ast.Assign) and any(isinstance(t_, ast.Subscript) and src(t_.value) == src(v) for t_ in a_.targets) for a_ in walk_no_nested(l))] \
                if isinstance(v, ast.Name) else []
            if loops:
                l = min(loops, key=lambda x: sum(1 for _ in walk_no_nested(x)))
                grows = any(isinstance(c_, ast.Call) and dotted(c_.func) in ('max', 'np.maximum') for a_ in walk_no_nested(l) if isinstance(a_, (ast.Assign, ast.AugAssign)) for c_ in ast.walk(a_.value))
                if not grows:
                    ok, why = False, 'fastIndex is built by a sweep whose overlap-group end is never extended by later members: a feature outliving the first one of its group is skipped by lookups to its right'
                else:
                    ok, why, und = False, 'fastIndex is built by a sweep (not decided)', True
            else:
                why, und = f'fastIndex is computed as `{src(v)[:60]}` (not understood)', True
    ctx.emit('C16-R7', ok, FEATURES, st_[0] if st_ else srt, 'sort(): ' + why, key='fast-index-derivation', undecided=und and not ok,
             what='FeatureContainer.sort: the start index of the point lookup skips overlapping features')


@rule('C16', 'C16-R8', 'a molecule is annotated by the positions its reads cover: get_aligned_blocks returns the maximal runs of matched reference positions of all reads '
                       '(shared with C15-R6) - a feature under the tail of a long read is found although a shorter read is nested inside it')
def r8(ctx):
    from . import C15
    C15.aligned_blocks_rule(ctx, 'C16-R8')


@rule('C16', 'C16-R9', 'the container as a whole, run by the abstract interpreter through add / query histories (numpy and the lru_cache of the memoised lookups modelled): after every '
                       'batch of added features every range query and every point query (all strands, all lookup variants), asked twice, returns exactly the features of the plain '
                       'definition over everything added so far - nothing stale, nothing missing, also directly after an add and for nested, identical and zero-length features')
def r9(ctx):
    c = ctx.ix.cls(FEATURES, CLS)
    m = container_model(ctx)
    if m is None:
        ctx.emit('C16-R9', True, FEATURES, c, 'FeatureContainer uses constructs outside the interpreted subset: decided by the structural rules only', key='container-model', nontrivial=False)
        return
    ok, n, wit = m
    ctx.counters['interpreted_cases'] += n
    ctx.emit('C16-R9', ok, FEATURES, c, f'{n} queries over 4 add / query histories: every answer equals the plain definition over the features added so far' if ok else f'query differs from the definition: {wit}',
             key='container-model', witness=wit, what='FeatureContainer: a query returns something other than the overlapping / containing features of the current state')


@rule('C16', 'C16-R10', 'the per-base annotation asks the container about every aligned base: in the loop over the aligned pairs of a read the point lookup is made for each pair, at the '
                        'reference position of that pair - hits of an earlier base are not carried over (a feature that starts inside another one is found only by asking at its own bases)')
def r10(ctx):
    from ..util import reach_conds
    from .shared import MOL_FEAT
    try:
        f = ctx.fn(MOL_FEAT, 'FeatureAnnotatedMolecule.annotate')
    except AnalysisError:
        ctx.emit('C16-R10', True, MOL_FEAT, None, 'no per-base annotation method', key='per-base-lookup', nontrivial=False)
        return
    loops = [l for l in ast.walk(f) if isinstance(l, ast.For) and isinstance(l.iter, ast.Call) and isinstance(l.iter.func, ast.Attribute) and l.iter.func.attr == 'get_aligned_pairs']
    n = 0
    for k, l in enumerate(loops):
        calls = [c for c in ast.walk(l) if isinstance(c, ast.Call) and isinstance(c.func, ast.Attribute) and c.func.attr in ('findFeaturesAt', '_findFeaturesAt')]
        if not calls:
            continue
        n += 1
        tnames = {x.id for x in ast.walk(l.target) if isinstance(x, ast.Name)}
        c = calls[0]
        conds = reach_conds(l.body, c) or []
        coord = [a for a in list(c.args) + [kw.value for kw in c.keywords if kw.arg in ('lookupCoordinate', 'coordinate', 'pos')] if isinstance(a, ast.Name) and a.id in tnames]
        ok = not conds and bool(coord)
        ctx.emit('C16-R10', ok, MOL_FEAT, c, 'the point lookup is made for every aligned pair, at its reference position' if ok else
                 (f'the point lookup is skipped under `{src(conds[0][0])[:60]}`: bases for which it is skipped inherit the hits of an earlier base, a feature starting inside the current one is never found'
                  if conds else 'the point lookup is not made at the reference position of the pair'), key=f'per-base-lookup:{k}',
                 witness={'features': ['outer 100-200', 'nested 120-130'], 'read': 'covers 100-150', 'found': ['outer']} if not ok else None,
                 what='FeatureAnnotatedMolecule.annotate: the per-base lookup is not made for every aligned base')
    if not n:
        ctx.emit('C16-R10', True, MOL_FEAT, f, 'no per-base lookup loop in annotate', key='per-base-lookup', nontrivial=False)


META = {
    'text': ('Decides the history clause: for every method of FeatureContainer that writes a field which a functools-memoised '
             'lookup (findFeaturesAt, findNearestFeature; computed, not listed) transitively reads, the lookup\'s cache is cleared '
             'after the last write on every path (or, for the re-indexer, before its first write and first internal lookup); adding a '
             'feature always marks the container unsorted and every index-based lookup re-indexes first. Hence no query result can '
             'stem from an earlier add/sort state. Does NOT decide exactness of the interval queries themselves.'),
    'technique': 'static analysis: field read-closure of memoised methods, computed mutator set, dominator/post-dominator check of cache_clear placement; small-scope abstract execution of findFeaturesBetween (sorted feature lists of <= 3 features over coordinates 0..5, every range and strand) where the structural reading cannot decide; the whole container through add / query histories (numpy and lru_cache semantics modelled, every query asked twice after every batch of adds; rule R9), hand-written memo keys by dataflow',
    'design_ref': 'DESIGN.md section 5, C16',
}


@rule('C16', 'C16-R4', 'interval predicates of the range / point queries are the closed-interval ones: overlap test, scan stop, strand filter, '
                       'start bound (features with start <= coordinate) and end filter (end >= coordinate)')
def r4(ctx):
    from ..core import Ctx, VIOLATED, UNDECIDED
    sub = Ctx(ctx.ix, 'C16', ctx.tier)
    err = None
    try:
        _r4_structural(sub)
    except AnalysisError as e_:
        err = e_
    except Exception as e_:
        err = AnalysisError(f'structural reading failed ({type(e_).__name__}: {e_})')
    for k_, v_ in sub.counters.items():
        ctx.counters[k_] = (ctx.counters.get(k_, set()) | v_) if isinstance(v_, set) else ctx.counters.get(k_, 0) + v_
    open_ = [o for o in sub.obligations if o.status in (VIOLATED, UNDECIDED)]
    if err is None and not open_:
        ctx.obligations.extend(sub.obligations)
        return
    m = container_model(ctx)
    if m is None or not m[0]:
        ctx.obligations.extend(sub.obligations)       # the model's own finding is reported by C16-R9
        if err is not None:
            raise err
        return
    ctx.obligations.extend([o for o in sub.obligations if o not in open_])
    ctx.emit('C16-R4', True, FEATURES, ctx.ix.cls(FEATURES, CLS), f'interval predicates decided by the container model ({m[1]} queries equal the closed-interval definition); the structural reading did not follow '
             f'{len(open_)} construct(s) of the restructured lookups', key='predicates-by-model')


def _r4_structural(ctx):
    from ..domains import check_pred, linform, Lin
    methods = class_methods(ctx.ix, FEATURES, CLS)
    f = methods.get('findFeaturesBetween')
    if f is None:
        raise AnalysisError('findFeaturesBetween not found')
    try:
        _r4_between_structural(ctx, methods, f)
    except AnalysisError:
        sem = _between_by_interpretation(ctx, f)
        if sem is None:
            raise
        okb, ncase, wit = sem
        ctx.counters['abstract_cases'] += ncase
        ctx.emit('C16-R4', okb, FEATURES, f, f'findFeaturesBetween interpreted on {ncase} (sorted feature list, range, strand) cases with coordinates 0..5 (zero-length features and ranges included): ' +
                 ('reports exactly the features whose closed interval overlaps the closed range and whose strand matches' if okb else f'differs: {wit}'), key='between:overlap-predicate', witness=wit,
                 what='findFeaturesBetween: reported features differ from the closed-interval overlap')
    _r4_point(ctx, methods)


def _between_by_interpretation(ctx, f):
    import itertools
    from ..consteval import run_function, Unfoldable, Raised
    par = [x.arg for x in f.args.args]
    coords = range(0, 6)
    spans = [(a, b) for a in coords for b in coords if a <= b and b - a <= 3]
    n = 0
    try:
        for k in (0, 1, 2, 3):
            for combo in itertools.combinations(spans, k):
                feats = sorted((a, b, f'f{i}', '+' if i % 2 else '-', None) for i, (a, b) in enumerate(combo))
                for qs, qe in [(a, b) for a in coords for b in coords if a <= b and b - a <= 2]:
                    if k == 3 and (qs + qe) % 2:
                        continue
                    for strand in (None, '+'):
                        n += 1

                        def hook(ev, call, env, feats=feats):
                            d = dotted(call.func) or ''
                            if d in ('self.findFeaturesAt', 'self._findFeaturesAt'):
                                a_ = [ev.ev(x, env) for x in call.args]
                                kw_ = {k_.arg: ev.ev(k_.value, env) for k_ in call.keywords}
                                c_ = a_[1] if len(a_) > 1 else kw_.get('lookupCoordinate')
                                st_ = a_[2] if len(a_) > 2 else kw_.get('strand')
                                return [ft for ft in feats if ft[0] <= c_ <= ft[1] and (st_ is None or ft[3] == st_)]
                            if d in ('self.debugMsg', 'print', 'self.sort'):
                                return None
                            return NotImplemented
                        env = {'self.features': {'c': list(feats)}, 'self.startCoordinates': {'c': [ft[0] for ft in feats]}, 'self.endCoordinates': {'c': sorted(ft[1] for ft in feats)},
                               'self.debug': False, 'self.sorted': True, 'self.verbose': False, 'self.maxFeatureSizes': {'c': max([ft[1] - ft[0] for ft in feats] or [0])}}
                        if not feats:
                            env['self.startCoordinates'] = {}
                            env['self.endCoordinates'] = {}
                            env['self.features'] = {}
                        got = run_function(f, ['<self>', 'c', qs, qe, strand][:len(par)], env=env, budget=60000, call_hook=hook)
                        got = sorted(set(tuple(x) for x in (got or [])))
                        want = sorted(ft for ft in feats if ft[0] <= qe and ft[1] >= qs and (strand is None or ft[3] == strand))
                        if got != want:
                            return (False, n, {'features (start, end, strand)': [(ft[0], ft[1], ft[3]) for ft in feats], 'range': (qs, qe), 'strand': strand,
                                               'reported': [(x[0], x[1]) for x in got], 'overlapping': [(x[0], x[1]) for x in want]})
    except (Unfoldable, Raised):
        return None
    except Exception:
        return None
    return (True, n, None)


def _r4_between_structural(ctx, methods, f):
    from ..domains import check_pred, linform, Lin
    a = [x.arg for x in f.args.args]
    ss, se = a[2], a[3]
    unpack = [s for s in walk_no_nested(f) if isinstance(s, ast.Assign) and isinstance(s.targets[0], ast.Tuple) and len(s.targets[0].elts) == 5]
    if len(unpack) != 1:
        raise AnalysisError('findFeaturesBetween: feature tuple unpacking not found')
    hs, he, _n, hstrand, _d = [e.id for e in unpack[0].targets[0].elts]
    ren = {ss: 'ss', se: 'se', hs: 'hs', he: 'he'}
    cons = lambda e: e['ss'] <= e['se'] and e['hs'] <= e['he']
    # the result set is the local the function returns (whatever it is called)
    returned = {n for r in walk_no_nested(f) if isinstance(r, ast.Return) and r.value is not None for n in names_in(r.value)}
    adds = [c for c in walk_no_nested(f) if isinstance(c, ast.Call) and isinstance(c.func, ast.Attribute) and c.func.attr == 'add' and isinstance(c.func.value, ast.Name) and c.func.value.id in returned]
    hitsvar = adds[0].func.value.id if adds else None
    mod = ctx.ix.module(FEATURES)
    if len(adds) != 1:
        raise AnalysisError('findFeaturesBetween: hits.add not found')
    # the scan loop and the condition under which a scanned feature is reported: the reach condition of the `add` inside one iteration must
    # be (closed intervals overlap) and (no strand requested or same strand) - nested ifs, one combined test or continue guards alike
    wl = None
    p = mod.parent[adds[0]]
    while p is not None and p is not f:
        if isinstance(p, (ast.While, ast.For)):
            wl = p
            break
        p = mod.parent.get(p)
    if wl is None:
        raise AnalysisError('findFeaturesBetween: scan loop not found')
    E = reach_expr(wl.body, adds[0])

    def atomE(x):
        t = src(x)
        if t == 'strand is None':
            return 'none'
        if t in (f'strand == {hstrand}', f'{hstrand} == strand'):
            return 'same'
        if isinstance(x, ast.Compare):
            return None
        return ren.get(t)
    try:
        ncase, bad = check_pred(E, lambda e: (not (e['he'] < e['ss'] or e['hs'] > e['se'])) and (e['none'] or e['same']), symbols=['ss', 'se', 'hs', 'he'],
                                constraint=cons, atom_name=atomE, extra_bools=['none', 'same'])
        ctx.counters['abstract_cases'] += ncase
        ctx.emit('C16-R4', not bad, FEATURES, adds[0], f'findFeaturesBetween reports a scanned feature iff `{src(E)}`: over {ncase} orderings (incl. zero-length features and ranges) ' +
                 ('== closed intervals overlap and the strand matches' if not bad else f'differs at {bad[0]["case"]}: a feature ' + ('is missed' if not bad[0]['code'] else 'is reported although it should not')),
                 key='between:overlap-predicate', witness=bad[0] if bad else None, what='findFeaturesBetween: overlap test is not the closed-interval overlap')
        ctx.emit('C16-R4', not bad, FEATURES, adds[0], 'strand filter == no strand requested or same strand (part of the report condition)', key='between:strand-filter', nontrivial=False)
    except AnalysisError as ex:
        ctx.emit('C16-R4', False, FEATURES, adds[0], f'findFeaturesBetween: report condition `{src(E)}` not interpretable: {ex}', key='between:overlap-predicate', undecided=True)
    # the scan stops (break, or the loop flag is cleared) exactly when the feature starts behind the range (features are sorted by start)
    flagnames = names_in(wl.test) if isinstance(wl, ast.While) else set()
    stops = [x for x in walk_no_nested(wl) if isinstance(x, ast.Break)] + \
        [x for x in walk_no_nested(wl) if isinstance(x, ast.Assign) and isinstance(x.targets[0], ast.Name) and x.targets[0].id in flagnames and isinstance(x.value, ast.Constant) and x.value.value is False]
    if len(stops) == 1:
        S = reach_expr(wl.body, stops[0])
        oks = pred_is(S, lambda e: e['hs'] > e['se'], {hs: 'hs', se: 'se'})
        ctx.emit('C16-R4', oks, FEATURES, stops[0], f'scan stops when `{src(S)}`' + (' == feature start > range end (features are sorted by start)' if oks else ' - differs from "feature start > range end"'), key='between:scan-stop')
    ends = [c for c in walk_no_nested(f) if isinstance(c, ast.Call) and isinstance(c.func, ast.Attribute) and c.func.attr == 'update' and src(c.func.value) == hitsvar]
    pts = sorted(src(c.args[0]) for c in ends)
    ok = len(ends) == 2 and any(ss in p_ for p_ in pts) and any(se in p_ for p_ in pts)
    ctx.emit('C16-R4', ok, FEATURES, f, 'range query also unions the point queries at both ends of the range', key='between:end-point-union', nontrivial=False)


def _r4_point(ctx, methods):
    from ..domains import check_pred, linform, Lin
    # point query
    g = methods.get('_findFeaturesAt')
    coord = g.args.args[2].arg
    ssx = [s for s in walk_no_nested(g) if isinstance(s, ast.Assign) and isinstance(s.value, ast.Call) and (dotted(s.value.func) or '').endswith('searchsorted')
           and len(s.value.args) >= 2 and coord in names_in(s.value.args[1]) and 'startCoordinates' in src(s.value.args[0])]
    okall = bool(ssx)
    for s_ in ssx:
        c = s_.value
        side = [k.value.value for k in c.keywords if k.arg == 'side' and isinstance(k.value, ast.Constant)] or [x.value for x in c.args[2:3] if isinstance(x, ast.Constant)]
        lf = linform(c.args[1])
        good = ('startCoordinates' in src(c.args[0])) and ((lf == Lin({coord: 1}, 1) and side == ['left']) or (lf == Lin({coord: 1}) and side == ['right']))
        okall = okall and good
    ctx.emit('C16-R4', okall, FEATURES, ssx[0] if ssx else g, f'point query: candidate range ends at the number of features with start <= coordinate ({len(ssx)} searchsorted sites)', key='at:start-bound')
    # left end of the candidate window: the first feature with start >= coordinate - longest feature (side 'left': a feature starting exactly
    # there can still reach the coordinate); this branch also builds the fast index in sort()
    ldefs = {}
    for s_ in walk_no_nested(g):
        if isinstance(s_, ast.Assign) and len(s_.targets) == 1 and isinstance(s_.targets[0], ast.Name):
            ldefs.setdefault(s_.targets[0].id, []).append(s_.value)
    lefts = []
    for c in walk_no_nested(g):
        if isinstance(c, ast.Call) and (dotted(c.func) or '').endswith('searchsorted') and len(c.args) >= 2 and 'startCoordinates' in src(c.args[0]):
            a1 = c.args[1]
            if isinstance(a1, ast.Name) and ldefs.get(a1.id) and len({src(d_) for d_ in ldefs[a1.id]}) == 1:
                a1 = ldefs[a1.id][0]
            lf = linform(a1)
            if lf is not None and lf.coef.get(coord) == 1 and any(v == -1 and 'maxFeatureSize' in k for k, v in lf.coef.items()):
                side = [k.value.value for k in c.keywords if k.arg == 'side' and isinstance(k.value, ast.Constant)] or [x.value for x in c.args[2:3] if isinstance(x, ast.Constant)]
                lefts.append((c, side, lf.const))
    okl = bool(lefts) and all(side == ['left'] and const <= 0 for c, side, const in lefts)
    ctx.emit('C16-R4', okl, FEATURES, lefts[0][0] if lefts else g, f'point query: candidate window starts at searchsorted(starts, coordinate - longest feature, side={[s_ for c, s_, k in lefts]})' +
             ('' if okl else " - with side='right' a longest feature that starts exactly at coordinate - longest is skipped"), key='at:window-left-bound')
    flt = [c for c in walk_no_nested(g) if isinstance(c, ast.Compare) and len(c.ops) == 1 and coord in names_in(c) and
           (src(c.left).endswith('[1]') or src(c.comparators[0]).endswith('[1]'))]
    n = 0
    okf = True
    for c in flt:
        n += 1
        ncase, bad = check_pred(c, lambda e: e['end'] >= e['c'], symbols=['end', 'c'], atom_name=lambda x: None if isinstance(x, ast.Compare) else ('c' if src(x) == coord else ('end' if src(x).endswith('[1]') else None)))
        okf = okf and not bad
    ctx.emit('C16-R4', okf and n >= 3, FEATURES, flt[0] if flt else g, f'point query: {n} end filters, all `feature end >= coordinate` (closed interval)', key='at:end-filter')


@rule('C16', 'C16-R5', 'index arrays combined element-wise in sort() are in the same order: an array re-ordered by an argsort permutation is never '
                       'combined with an array in feature order')
def r5(ctx):
    methods = class_methods(ctx.ix, FEATURES, CLS)
    f = methods.get('sort')
    order = {}      # source text of array -> order tag
    problems = []
    stmts = [s for s in walk_no_nested(f) if isinstance(s, ast.Assign)]
    stmts.sort(key=lambda s: s.lineno)
    perms = {}
    # expressions denoting the (sorted) feature list of the contig at hand: self.features[key], the value variable of an items() loop,
    # locals bound to either
    feature_lists = set()
    for l_ in [x for x in walk_no_nested(f) if isinstance(x, ast.For)]:
        it = src(l_.iter)
        if it in ('self.features.keys()', 'self.features') and isinstance(l_.target, ast.Name):
            feature_lists.add(f'self.features[{l_.target.id}]')
        elif it == 'self.features.items()' and isinstance(l_.target, ast.Tuple) and len(l_.target.elts) == 2 and all(isinstance(e_, ast.Name) for e_ in l_.target.elts):
            feature_lists |= {l_.target.elts[1].id, f'self.features[{l_.target.elts[0].id}]'}
    for s_ in stmts:
        if isinstance(s_.targets[0], ast.Name) and src(s_.value) in feature_lists:
            feature_lists.add(s_.targets[0].id)

    def tag_of(e):
        """order tag of an array-valued expression"""
        t = src(e)
        if t in order:
            return order[t]
        if isinstance(e, ast.Subscript) and src(e.slice) in perms and src(e.value) in order:
            return 'perm:' + src(e.slice)
        if isinstance(e, ast.Call) and (dotted(e.func) or '').split('.')[-1] in ('fromiter', 'array') and any(
                isinstance(c_, (ast.GeneratorExp, ast.ListComp)) and src(c_.generators[0].iter) in feature_lists for c_ in ast.walk(e)):
            return 'feature-order'
        if isinstance(e, ast.Call) and (dotted(e.func) or '').split('.')[-1] == 'argsort':
            return 'permutation'
        return None
    for s in stmts:
        tgt = src(s.targets[0])
        # element-wise combinations inside the value
        for b in walk_no_nested(s.value):
            if isinstance(b, ast.BinOp) and isinstance(b.op, (ast.Sub, ast.Add)):
                tl, tr = tag_of(b.left), tag_of(b.right)
                if tl and tr and tl != tr and 'permutation' not in (tl, tr):
                    problems.append(f'line {b.lineno}: `{src(b)}` combines arrays in different orders ({tl} vs {tr})')
        tg = tag_of(s.value)
        if tg == 'permutation':
            perms[tgt] = True
            order[tgt] = 'permutation'
        elif tg:
            order[tgt] = tg
    ctx.emit('C16-R5', not problems and len(order) >= 3, FEATURES, f, f'sort(): {len(order)} index arrays tracked ({sorted(set(order.values()))}); ' +
             ('no element-wise combination of differently ordered arrays' if not problems else '; '.join(problems)), key='sort:array-order', undecided=(not problems and len(order) < 3),
             what='FeatureContainer.sort combines a re-ordered array element-wise with an array in feature order')
    # the longest feature is computed per feature tuple (end - start of the same tuple)
    mxs = [s_ for s_ in stmts if src(s_.targets[0]).startswith('self.maxFeatureSizes[')]
    mxv = mxs[0].value if len(mxs) == 1 else None
    if isinstance(mxv, ast.Name):
        ds = [s_ for s_ in stmts if isinstance(s_.targets[0], ast.Name) and s_.targets[0].id == mxv.id]
        mxv = ds[0].value if len(ds) == 1 else None
    ok = False
    if isinstance(mxv, ast.Call) and (dotted(mxv.func) or '').split('.')[-1] == 'max' and mxv.args and isinstance(mxv.args[0], (ast.ListComp, ast.GeneratorExp)):
        c_ = mxv.args[0]
        g_ = c_.generators[0]
        ok = len(c_.generators) == 1 and not g_.ifs and isinstance(g_.target, ast.Name) and src(g_.iter) in feature_lists and src(c_.elt) == f'{g_.target.id}[1] - {g_.target.id}[0]'
        if not ok and len(c_.generators) == 1 and not g_.ifs and isinstance(g_.target, ast.Tuple) and len(g_.target.elts) >= 2 and all(isinstance(e_, ast.Name) for e_ in g_.target.elts[:2]):
            # the feature tuple unpacked in the loop target: (start, end, ...)
            ok = src(g_.iter) in feature_lists and src(c_.elt) == f'{g_.target.elts[1].id} - {g_.target.elts[0].id}'
    mx = mxs
    ctx.emit('C16-R5', ok, FEATURES, mx[0] if mx else f, f'longest feature: `{src(mxv)[:80] if mxv is not None else None}`', key='sort:max-feature-size', nontrivial=False)


from . import shared as _shared
_shared.register('C16', 'C16')
