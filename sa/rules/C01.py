"""C01 - demultiplexing conserves every read pair (demultiplexed XOR rejected), structural clauses."""
import ast
import itertools

from ..core import rule
from ..index import AnalysisError, dotted, src, walk_no_nested, names_in
from ..cfg import CFG, const_env_step, eval3, UNK, OTHER
from ..domains import linform, Lin
from ..consteval import fold
from ..util import explore, mk_atoms, eval_local, reach_conds, interval_of_name_at, reach_expr, pred_is, node_calls, own_expr, last_name, calls_named, assigned_names, returned_names, is_call_to, enclosing_loops, loop_targets
from .slots import LOADER, BASEDEMUX, FQITER, FQHANDLE, HANDLELIM, DEMUXMODS, P

DEMUX = P + 'modularDemultiplexer/demux.py'
LOADER_FN = 'DemultiplexingStrategyLoader.demultiplex'


def loader_loops(ctx):
    f = ctx.fn(LOADER, LOADER_FN)
    outer = [l for l in f.body if isinstance(l, ast.For) and 'FastqIterator' in src(l.iter)]
    if len(outer) != 1:
        raise AnalysisError('loader: read loop over FastqIterator not found')
    inner = [l for l in outer[0].body if isinstance(l, ast.For)]
    if len(inner) != 1:
        raise AnalysisError('loader: per-strategy loop not found')
    return f, outer[0], inner[0]


def yield_counter(f, ctx=None):
    """the per-strategy yield counter(s) of the loader: locals created as a Counter() that the function returns.  The reported counter
    must be created in the call itself (a counter that outlives the call reports the records of earlier calls as well)."""
    rets = {x for t in returned_names(f) for x in t}
    c = [n for n in assigned_names(f, lambda v: is_call_to(v, 'Counter', 'defaultdict')) if n in rets]
    if not c:
        # the second element of the returned pair is the counter; it is decided (not refused) when it is a local bound to something
        # that is not a fresh counter
        seconds = {t[1] for t in returned_names(f) if len(t) >= 2}
        for n in sorted(seconds):
            defs = [s_ for s_ in walk_no_nested(f) if isinstance(s_, ast.Assign) and len(s_.targets) == 1 and isinstance(s_.targets[0], ast.Name) and s_.targets[0].id == n]
            if defs and ctx is not None:
                ctx.emit('C01-R1', False, LOADER, defs[0], f'the reported per-strategy counter `{n}` is bound to `{src(defs[0].value)[:60]}`, not to a counter created in this call: '
                         'the reported counts include records of earlier calls', key='counter-fresh', what='loader.demultiplex: reported yield counter is not created per call')
                return {n}
        raise AnalysisError('loader.demultiplex: no returned Counter() local (the per-strategy yield counter) found')
    if ctx is not None:
        multi = [n for n in c if len([s_ for s_ in walk_no_nested(f) if isinstance(s_, ast.Assign) and any(isinstance(t, ast.Name) and t.id == n for t in s_.targets)]) != 1]
        ctx.emit('C01-R1', not multi, LOADER, f, 'the reported per-strategy counter is a Counter created once in the call', key='counter-fresh')
    return set(c)


def processed_counter(f):
    """the processed-pairs counter: the first element of the returned tuple"""
    rets = returned_names(f)
    firsts = {t[0] for t in rets if len(t) >= 2}
    if len(firsts) != 1:
        raise AnalysisError(f'loader.demultiplex: returns {rets}, expected (processed, yields)')
    return firsts.pop()


def shape_fields(e, env=None):
    """Shape of a string expression as number of newline-terminated fields, or None when unknown.
    Returns (n_fields_terminated, trailing_open) where trailing_open tells that text follows the last newline."""
    env = env or {}
    pieces = flatten(e, env)
    if pieces is None:
        return None
    n = 0
    open_ = False
    for kind, val in pieces:
        if kind == 'lit':
            for ch in val:
                if ch == '\n':
                    n += 1
                    open_ = False
                else:
                    open_ = True
        else:
            open_ = True
    return n, open_


def flatten(e, env):
    """list of ('lit', text) / ('val', src) pieces of a string expression; None when not interpretable."""
    if isinstance(e, ast.Constant) and isinstance(e.value, str):
        return [('lit', e.value)]
    if isinstance(e, ast.JoinedStr):
        out = []
        for v in e.values:
            if isinstance(v, ast.Constant):
                out.append(('lit', v.value))
            else:
                out.append(('val', src(v)))
        return out
    if isinstance(e, ast.BinOp) and isinstance(e.op, ast.Add):
        l, r = flatten(e.left, env), flatten(e.right, env)
        if l is None or r is None:
            return None
        return l + r
    if isinstance(e, ast.Call) and isinstance(e.func, ast.Attribute) and e.func.attr == 'join' and isinstance(e.func.value, ast.Constant) \
            and isinstance(e.func.value.value, str) and len(e.args) == 1 and isinstance(e.args[0], (ast.Tuple, ast.List)):
        sep = e.func.value.value
        out = []
        for i, el in enumerate(e.args[0].elts):
            if i:
                out.append(('lit', sep))
            sub = flatten(el, env)
            out.extend(sub if sub is not None else [('val', src(el))])
        return out
    if isinstance(e, ast.Name) and e.id in env:
        return flatten(env[e.id], env)
    if isinstance(e, (ast.Name, ast.Attribute, ast.Subscript, ast.Call)):
        return [('val', src(e))]
    return None


# ------------------------------------------------------------------------------------------------
@rule('C01', 'C01-R1', 'sink partition and counter: on every path of one (read pair, strategy) iteration - including every '
                       'exception edge - exactly one sink write completes (accepted XOR rejected) when both handles are given, '
                       'and the yield counter moves iff the pair was accepted, for all 8 handle/probe configurations')
def r1(ctx):
    ix = ctx.ix
    f, outer, inner = loader_loops(ctx)
    params = {a.arg for a in f.args.args}
    for need in ('targetFile', 'rejectHandle', 'probe'):
        if need not in params:
            raise AnalysisError(f'loader.demultiplex has no parameter {need}')
    strat = inner.target.id if isinstance(inner.target, ast.Name) else None
    ycount = yield_counter(f, ctx)

    def may_raise(kind, a):
        if kind in ('with_exit', 'except') or isinstance(a, ast.Raise):
            return set()
        tgt = a.test if kind == 'test' else a.iter if kind == 'for' else a
        toks = set()
        for n in walk_no_nested(tgt):
            if isinstance(n, ast.Call):
                toks.add(OTHER)
                if isinstance(n.func, ast.Attribute) and n.func.attr == 'demultiplex':
                    toks.add('NonMultiplexable')
        return toks

    cfg = CFG(inner.body, may_raise=may_raise, is_subclass=ix.is_subclass_name)
    total_paths = 0
    results = []
    for tf, rj, pr in itertools.product((True, False), repeat=3):
        def atoms(e, tf=tf, rj=rj, pr=pr):
            t = src(e)
            if t == 'targetFile is not None':
                return tf
            if t == 'targetFile is None':
                return not tf
            if t == 'rejectHandle is not None':
                return rj
            if t == 'rejectHandle is None':
                return not rj
            if t == 'probe':
                return pr
            return UNK

        def step(state, node, label, atoms=atoms):
            env, ev = state
            if node.kind == 'test' and label in ('true', 'false') and isinstance(node.ast, ast.If):
                v = eval3(node.ast.test, env, atoms)
                if v is not UNK and bool(v) != (label == 'true'):
                    return None
            if label.startswith('exc:'):
                return (env, ev)
            env = const_env_step(env, node)
            new = []
            for c in node_calls(node):
                d = src(c.func)
                if d == 'targetFile.write':
                    new.append('accept-write')
                elif d == 'rejectHandle.write':
                    new.append('reject-write')
                elif isinstance(c.func, ast.Attribute) and c.func.attr == 'demultiplex' and isinstance(c.func.value, ast.Name) and c.func.value.id == strat:
                    new.append('demux-ok')
            if node.kind == 'stmt' and isinstance(node.ast, ast.AugAssign) and isinstance(node.ast.target, ast.Subscript) \
                    and src(node.ast.target.value) in ycount:
                new.append('count')
            return (env, ev + tuple(new))

        paths = cfg.paths(state0=({}, ()), step=step, max_paths=300000)
        total_paths += len(paths)
        for p, (env, ev) in paths:
            term = cfg.nodes[p[-1][0]].info
            if term == 'raise':
                # an uncaught exception aborts the run loudly.  That is acceptable for a failing rejects write (nothing is left to try), not for
                # a failure of the strategy or of serialising the accepted record: such a pair has to end in the rejects (with the handles
                # given), otherwise it and every pair after it is neither demultiplexed nor rejected
                excs = [cfg.nodes[nid] for nid, lab in p if lab.startswith('exc:')]
                origin = excs[-1] if excs else None          # the exception that actually escapes (an earlier one was caught)
                if origin is not None and tf and rj and not pr and ev.count('reject-write') == 0:
                    oc = [src(c.func) for c in node_calls(origin)]
                    if any(d == 'targetFile.write' or (d.endswith('.demultiplex') and d.split('.')[0] == strat) for d in oc):
                        results.append(((tf, rj, pr), [f'an exception raised by `{[d for d in oc if d == "targetFile.write" or d.endswith(".demultiplex")][0]}` leaves the loop: the pair is neither written nor rejected and the run stops'], cfg.fmt_path(p)))
                continue
            acc_w, rej_w, cnt, dm = ev.count('accept-write'), ev.count('reject-write'), ev.count('count'), ev.count('demux-ok')
            accepted = dm >= 1 and (not tf or acc_w == 1)
            problems = []
            if tf and rj and not pr and acc_w + rej_w != 1:
                problems.append(f'{acc_w} accepted + {rej_w} rejected writes (expected exactly one)')
            if acc_w > 1 or rej_w > 1:
                problems.append('written twice to one sink')
            if acc_w and rej_w:
                problems.append('written to both sinks')
            if (cnt == 1) != accepted or cnt > 1:
                problems.append(f'yield counter moved {cnt}x although the pair was {"" if accepted else "not "}accepted')
            if problems:
                results.append(((tf, rj, pr), problems, cfg.fmt_path(p)))
    ctx.counters['paths_enumerated'] += total_paths
    ctx.need('C01-R1', total_paths, 40, 'paths through the per-strategy loop body')
    if not results:
        ctx.emit('C01-R1', True, LOADER, inner, f'{total_paths} paths over 8 configurations (targetFile/rejectHandle/probe): exactly one completed sink write '
                 'when both handles are present, never both, counter <=> accepted', key='sink-partition')
    seen = set()
    for cfgk, problems, path in results:
        k = (tuple(problems),)
        if k in seen:
            continue
        seen.add(k)
        ctx.emit('C01-R1', False, LOADER, inner, f'configuration targetFile={cfgk[0]} rejectHandle={cfgk[1]} probe={cfgk[2]}: ' + '; '.join(problems) +
                 ' on path: ' + path[-700:], key='sink-partition:' + '|'.join(sorted(p.split(' (')[0][:40] for p in problems)),
                 witness={'configuration': dict(zip(('targetFile', 'rejectHandle', 'probe'), cfgk)), 'path': path},
                 what='loader.demultiplex: a read pair is neither written nor rejected (or counted without being written) on an exception path')
    ctx.exhaustive['C01-R1'] = True
    # the loop variable holding the reads must not be rebound inside the strategy loop (later strategies would see other objects)
    rv = outer.target.elts[1].id if isinstance(outer.target, ast.Tuple) and len(outer.target.elts) == 2 and isinstance(outer.target.elts[1], ast.Name) else None
    reb = [s for s in walk_no_nested(inner) if isinstance(s, (ast.Assign, ast.AugAssign)) and rv in
           {n.id for t in (s.targets if isinstance(s, ast.Assign) else [s.target]) for n in ast.walk(t) if isinstance(n, ast.Name) and isinstance(n.ctx, ast.Store)}]
    ctx.emit('C01-R1', not reb, LOADER, reb[0] if reb else inner, f'the read tuple `{rv}` is ' + ('re-bound inside the per-strategy loop' if reb else 'never re-bound inside the per-strategy loop'),
             key='reads-not-rebound', nontrivial=False)


@rule('C01', 'C01-R3', 'the quality -> header-letter map is total: every index into the letter table is clamped into [0, len(table)-1], '
                       'and encoder and decoder use the same table and offset')
def r3(ctx):
    f = ctx.fn(BASEDEMUX, 'phredToFastqHeaderSafeQualities')
    subs = [n for n in walk_no_nested(f) if isinstance(n, ast.Subscript) and src(n.value) in ('string.ascii_letters',) ]
    if not subs or any(isinstance(c, ast.Call) and isinstance(c.func, ast.Attribute) and c.func.attr == 'translate' for c in walk_no_nested(f)):
        # other encoder idioms (constant translation table) are handled by the codec rule C04-R1
        from ..core import Ctx
        from . import C04
        sub = Ctx(ctx.ix, 'C04', ctx.tier)
        C04.r1(sub)
        for o in sub.obligations:
            o.construct = o.construct.replace('C04-R1', 'C01-R3')
            o.rule = 'C01-R3'
            ctx.obligations.append(o)
        return
    for sub in subs:
        table = src(sub.value)
        lo, hi = bounds(sub.slice, table)
        tl = table_len(table)
        if isinstance(sub.slice, ast.Name) and tl is not None:
            # the index is a local clamped by if-tests (or min/max) before the lookup: path-sensitive interval analysis over the function
            def vb(e):
                b_ = bounds(e, table)
                if isinstance(e, ast.Call) and dotted(e.func) == 'ord':
                    return (0, None)
                cv = lambda x: x.const if x is not None and x.is_const() else None
                lo_, hi_ = cv(b_[0]), cv(b_[1])
                if isinstance(e, ast.BinOp) and isinstance(e.op, (ast.Add, ast.Sub)) and isinstance(e.left, ast.Call) and dotted(e.left.func) == 'ord' and isinstance(e.right, ast.Constant):
                    k_ = e.right.value if isinstance(e.op, ast.Add) else -e.right.value
                    return (k_, None)
                return (lo_, hi_)
            ivs = interval_of_name_at(f.body, sub.slice.id, sub, vb)
            if ivs:
                los = [iv[0] for iv in ivs]
                his = [iv[1] for iv in ivs]
                lo = Lin(const=min(los)) if all(x is not None for x in los) else None
                hi = Lin(const=max(his)) if all(x is not None for x in his) else None
        N = Lin(const=tl) if tl is not None else Lin({'N': 1})
        ok_lo = lo is not None and lo.is_const() and lo.const >= 0
        ok_hi = hi is not None and (hi - (N - Lin(const=1))).is_const() and (hi - (N - Lin(const=1))).const <= 0
        ctx.emit('C01-R3', ok_lo and ok_hi, BASEDEMUX, sub, f'index `{src(sub.slice)}` into {table} (len {tl}): range [{lo}, {hi}] ' +
                 ('is inside [0, N-1]' if ok_lo and ok_hi else 'can leave [0, N-1] -> IndexError / wrong letter for some quality character'),
                 key='encoder-index-in-table', witness=None if ok_lo and ok_hi else {'abstract': f'upper bound {hi} vs N-1'},
                 what='phredToFastqHeaderSafeQualities: letter-table index not clamped into the table')
        # offset
        off_roots = [sub.slice]
        if isinstance(sub.slice, ast.Name):
            off_roots = [s_.value for s_ in walk_no_nested(f) if isinstance(s_, ast.Assign) and len(s_.targets) == 1 and src(s_.targets[0]) == sub.slice.id]
        off = [n for r_ in off_roots for n in walk_no_nested(r_) if isinstance(n, ast.BinOp) and isinstance(n.op, ast.Sub) and 'ord(' in src(n.left) and isinstance(n.right, ast.Constant)]
        off += [r_ for r_ in off_roots if isinstance(r_, ast.BinOp) and isinstance(r_.op, ast.Sub) and 'ord(' in src(r_.left) and isinstance(r_.right, ast.Constant) and not any(r_ is o_ for o_ in off)]
        g = ctx.fn(BASEDEMUX, 'fastqHeaderSafeQualitiesToPhred')
        dec = [n for n in walk_no_nested(g) if isinstance(n, ast.BinOp) and isinstance(n.op, ast.Add) and '.index(' in src(n.left) and isinstance(n.right, ast.Constant)]
        dtab = [src(c.func.value) for c in walk_no_nested(g) if isinstance(c, ast.Call) and isinstance(c.func, ast.Attribute) and c.func.attr == 'index']
        ok = len(off) == 1 and len(dec) == 1 and off[0].right.value == dec[0].right.value == 33 and dtab == [table]
        ctx.emit('C01-R3', ok, BASEDEMUX, g, f'encoder offset {off[0].right.value if off else None} / decoder offset {dec[0].right.value if dec else None}, tables {table} / {dtab}',
                 key='codec-table-agreement')
    # the default method used by addTagByTag is the letter table method (3)
    d = f.args.defaults
    ctx.emit('C01-R3', bool(d) and isinstance(d[-1], ast.Constant) and d[-1].value == 3, BASEDEMUX, f, 'default encoding method is the letter table (3)', key='default-method', nontrivial=False)


def table_len(table):
    """length of a standard-library string constant (library interface, not repository code)"""
    import string as _s
    if table.startswith('string.') and hasattr(_s, table.split('.', 1)[1]) and isinstance(getattr(_s, table.split('.', 1)[1]), str):
        return len(getattr(_s, table.split('.', 1)[1]))
    return None


def bounds(e, table):
    """(lo, hi) as Lin over symbol N = len(table); None = unbounded."""
    if isinstance(e, ast.Constant) and isinstance(e.value, int):
        return Lin(const=e.value), Lin(const=e.value)
    if isinstance(e, ast.Call) and dotted(e.func) == 'len' and e.args and src(e.args[0]) == table:
        n = table_len(table)
        if n is not None:
            return Lin(const=n), Lin(const=n)
        return Lin({'N': 1}), Lin({'N': 1})
    if isinstance(e, ast.BinOp) and isinstance(e.op, (ast.Add, ast.Sub)):
        l, r = bounds(e.left, table), bounds(e.right, table)
        if isinstance(e.op, ast.Add):
            return (l[0] + r[0] if l[0] is not None and r[0] is not None else None, l[1] + r[1] if l[1] is not None and r[1] is not None else None)
        return (l[0] - r[1] if l[0] is not None and r[1] is not None else None, l[1] - r[0] if l[1] is not None and r[0] is not None else None)
    if isinstance(e, ast.Call) and dotted(e.func) in ('min', 'max') and len(e.args) == 2:
        a, b = bounds(e.args[0], table), bounds(e.args[1], table)
        pick_small = lambda x, y: x if y is None else y if x is None else (x if (x - y).is_const() and (x - y).const <= 0 else y if (x - y).is_const() else None)
        pick_big = lambda x, y: x if y is None else y if x is None else (x if (x - y).is_const() and (x - y).const >= 0 else y if (x - y).is_const() else None)

        def both(fn, x, y):
            if x is None or y is None:
                return None
            return fn(x, y)
        if dotted(e.func) == 'min':
            # min <= each argument: any finite upper bound is valid (take the tighter comparable one); lower bound needs both
            return both(pick_small, a[0], b[0]), pick_small(a[1], b[1])
        return pick_big(a[0], b[0]), both(pick_big, a[1], b[1])
    return None, None


@rule('C01', 'C01-R4', 'every string handed to a sink is a complete 4-line FASTQ record (4 newline-terminated fields); the '
                       'fallback reject records carry the original sequence and qualities')
def r4(ctx):
    ix = ctx.ix
    # asFastq
    a = ctx.fn(BASEDEMUX, 'TaggedRecord.asFastq')
    rets = [r for r in walk_no_nested(a) if isinstance(r, ast.Return) and r.value is not None]
    n = 0
    for r in rets:
        sh = shape_fields(r.value)
        ok = sh == (4, False)
        pieces = flatten(r.value, {})
        starts = bool(pieces) and pieces[0][0] == 'lit' and pieces[0][1].startswith('@')
        n += 1
        ctx.emit('C01-R4', ok and starts, BASEDEMUX, r, f'asFastq returns {src(r.value)[:80]}: shape {sh} ' + ('(4 terminated lines, starts with @)' if ok and starts else '- not a complete FASTQ record'),
                 key='asFastq-shape')
    # serialisation refuses a record only for a field that is None (or an over-long header): an EMPTY sequence / quality string is a legal
    # record; refusing it after the first mate was written already leaves the pair half written and rejected as well
    def bare_operands(e):
        if isinstance(e, ast.UnaryOp) and isinstance(e.op, ast.Not):
            return bare_operands(e.operand)
        if isinstance(e, ast.BoolOp):
            return [x for v in e.values for x in bare_operands(v)]
        return [e] if isinstance(e, (ast.Name, ast.Attribute, ast.Subscript)) else []
    fields = {x.arg for x in a.args.args[1:4]} | {'self.sequence', 'self.plus', 'self.qualities'}
    truthy = [(t_, x) for t_ in walk_no_nested(a) if isinstance(t_, (ast.If, ast.IfExp)) for x in bare_operands(t_.test) if src(x) in fields]
    ctx.emit('C01-R4', not truthy, BASEDEMUX, truthy[0][0] if truthy else a, 'asFastq tests its fields with `is None` only (an empty string is serialised, not refused)' if not truthy else
             f'asFastq tests `{src(truthy[0][1])}` for truth: an empty sequence / quality string raises while the mate written before it stays in the output',
             key='asFastq-refuses-only-None', what='asFastq refuses records with an empty (not missing) field')
    # __repr__ -> asFastq (FastqHandle writes str(record))
    rp = ctx.fn(BASEDEMUX, 'TaggedRecord.__repr__')
    ok = any(isinstance(r, ast.Return) and src(r.value) == 'self.asFastq()' for r in walk_no_nested(rp))
    ctx.emit('C01-R4', ok, BASEDEMUX, rp, 'str(TaggedRecord) is asFastq()', key='repr-is-asFastq', nontrivial=False)
    # inline fallback records of the loader
    f, outer, inner = loader_loops(ctx)
    k = 0
    for c in walk_no_nested(inner):
        if isinstance(c, ast.Call) and src(c.func) == 'rejectHandle.write' and c.args:
            arg = c.args[0]
            val = arg
            if isinstance(arg, ast.Name):
                defs = [s for s in walk_no_nested(inner) if isinstance(s, ast.Assign) and len(s.targets) == 1 and src(s.targets[0]) == arg.id]
                if len(defs) >= 1:
                    # the definition closest before the call
                    defs = sorted([d for d in defs if d.lineno <= c.lineno], key=lambda d: d.lineno)
                    val = defs[-1].value if defs else arg
            if isinstance(val, (ast.ListComp, ast.GeneratorExp)):
                k += 1
                sh = shape_fields(val.elt)
                pieces = flatten(val.elt, {}) or []
                vals = [v for kind, v in pieces if kind == 'val']
                gen = val.generators[0]
                rd = gen.target.id if isinstance(gen.target, ast.Name) else '?'
                orig = f'{rd}.sequence' in vals and f'{rd}.qual' in vals and vals and vals[0] == f'{rd}.header'
                ok = sh == (4, False)
                ctx.emit('C01-R4', ok and orig, LOADER, c, f'fallback reject record `{src(val.elt)[:70]}...`: shape {sh}' +
                         (' (4 terminated lines, original header/sequence/qualities)' if ok and orig else ' - not a complete record of the original read'),
                         key=f'fallback-reject-shape:{k}', what='loader: fallback reject record is not newline terminated / incomplete')
            elif isinstance(val, ast.Call) and isinstance(val.func, ast.Attribute) and val.func.attr == 'demultiplex':
                k += 1
                ctx.emit('C01-R4', True, LOADER, c, f'reject record produced by {src(val.func)} (serialised by asFastq)', key=f'reject-via-base:{k}', nontrivial=False)
            else:
                k += 1
                ctx.emit('C01-R4', False, LOADER, c, f'reject sink receives a value of unknown shape: {src(arg)}', key=f'reject-unknown:{k}', undecided=True)
    ctx.need('C01-R4', k, 2, 'reject-sink writes in the loader')
    # IlluminaBaseDemultiplexer.demultiplex (non-inherited arm) serialises with the original sequence / qualities
    b = ctx.fn(BASEDEMUX, 'IlluminaBaseDemultiplexer.demultiplex')
    calls = [c for c in walk_no_nested(b) if isinstance(c, ast.Call) and isinstance(c.func, ast.Attribute) and c.func.attr == 'asFastq']
    def orig_fields(c):
        a_ = c.args
        return len(a_) == 3 and all(isinstance(x, ast.Attribute) and isinstance(x.value, ast.Name) for x in a_) and len({x.value.id for x in a_}) == 1 \
            and [x.attr for x in a_] == ['sequence', 'plus', 'qual']
    ok = len(calls) >= 1 and all(orig_fields(c) for c in calls)
    ctx.emit('C01-R4', ok, BASEDEMUX, b, 'base demultiplexer (reject path) serialises the original sequence, plus line and qualities: ' + (src(calls[0])[-60:] if calls else '-'), key='base-demux-original-fields')
    # FastqHandle.write writes str(record)
    w = ctx.fn(FQHANDLE, 'FastqHandle.write')
    wr = [c for c in walk_no_nested(w) if isinstance(c, ast.Call) and isinstance(c.func, ast.Attribute) and c.func.attr == 'write']
    def writes_str_of_loopvar(c):
        lv = {n for l in enclosing_loops(w, c) for n in loop_targets(l.target)}
        return any(isinstance(x, ast.Call) and dotted(x.func) == 'str' and len(x.args) == 1 and isinstance(x.args[0], ast.Name) and x.args[0].id in lv
                   for a in list(c.args) + [k.value for k in c.keywords] for x in ast.walk(a))
    ok = len(wr) == 2 and all(writes_str_of_loopvar(c) for c in wr)
    ctx.emit('C01-R4', ok, FQHANDLE, w, 'FastqHandle.write hands str(record) to the file for every record', key='fastqhandle-writes-str', nontrivial=False)


@rule('C01', 'C01-R5', 'lock-step reader: exactly four readline() per handle feed header/sequence/plus/qualities in order, the record '
                       'tuple is built for all handles before the end-of-file test, and end of file is detected on the header line only')
def r5(ctx):
    f = ctx.fn(FQITER, 'FastqIterator._readFastqRecord')
    h = f.args.args[1].arg
    calls = [c for c in walk_no_nested(f) if isinstance(c, ast.Call) and isinstance(c.func, ast.Attribute) and c.func.attr == 'readline' and src(c.func.value) == h]
    calls.sort(key=lambda c: (c.lineno, c.col_offset))
    ctor = [c for c in walk_no_nested(f) if isinstance(c, ast.Call) and dotted(c.func) == 'FastqRecord']
    ok = len(calls) == 4 and len(ctor) == 1 and len(ctor[0].args) == 4 and all(any(x is c for x in walk_no_nested(a)) for a, c in zip(ctor[0].args, calls))
    detail = f'_readFastqRecord: {len(calls)} readline() calls feeding the {len(ctor[0].args) if ctor else 0} FastqRecord fields positionally'
    wit = None
    if True:
        # whatever the shape (four calls, a comprehension over range(4), keyword construction ...): the method is run on a model handle that hands out numbered lines,
        # the last of them without a line terminator (a file that does not end in a newline)
        try:
            from ..consteval import module_scope, Evaluator, Instance
            env = module_scope(ctx.ix, FQITER)
            # (the second record is a read of length zero: its sequence and quality lines are blank and still are lines of the record)
            lines = ['@L1 \n', 'L2\n', 'L3\n', 'L4\n', '@M1\n', '\n', '+\n', '\n', '@N1\n', 'N2\n', '+\n', 'N4']
            state = {'k': 0}

            def hook(ev, call, env_):
                if isinstance(call.func, ast.Attribute) and call.func.attr == 'readline' and src(call.func.value) == h:
                    state['k'] += 1
                    return lines[state['k'] - 1] if state['k'] <= len(lines) else ''
                return NotImplemented
            it = Instance(env['FastqIterator'], attrs={})
            e = dict(env)
            e['it'] = it
            e[h] = '<handle>'
            recs = [Evaluator(e, budget=5000, call_hook=hook).ev(ast.parse(f'it._readFastqRecord({h})', mode='eval').body, e) for _ in range(3)]
            got = [tuple(getattr(r_, k_, None) if not hasattr(r_, 'attrs') else r_.attrs.get(k_) for k_ in ('header', 'sequence', 'plus', 'qual')) for r_ in recs]
            want = [('@L1', 'L2', 'L3', 'L4'), ('@M1', '', '+', ''), ('@N1', 'N2', '+', 'N4')]
            ok = got == want and state['k'] == 12
            detail = f'_readFastqRecord interpreted on a model handle: three calls consume {state["k"]} lines and give {got}' + ('' if ok else f', expected {want} from 12 lines')
            wit = None if ok else {'lines of the handle': lines, 'records': got, 'lines consumed': state['k']}
        except Exception as e_:
            if not ok:
                detail += f' (and the method is outside the interpreted subset: {type(e_).__name__}: {str(e_)[:60]})'
    ctx.emit('C01-R5', ok, FQITER, f, detail, key='four-readlines', witness=wit)
    m = ctx.ix.module(FQITER)
    nt = [s for s in ast.walk(m.tree) if isinstance(s, ast.Assign) and src(s.targets[0]) == 'FastqRecord']
    okf = len(nt) == 1 and "'header sequence plus qual'" in src(nt[0].value)
    ctx.emit('C01-R5', okf, FQITER, nt[0] if nt else f, 'FastqRecord fields are (header, sequence, plus, qual) in file order', key='record-field-order', nontrivial=False)
    g = ctx.fn(FQITER, 'FastqIterator.__next__')
    # every handle is read exactly once per call (one comprehension over self.handles, no filter), before end-of-file is decided
    def reading_comps(node):
        out = []
        for gexp in ast.walk(node):
            if isinstance(gexp, (ast.GeneratorExp, ast.ListComp)) and len(gexp.generators) == 1 and src(gexp.generators[0].iter) == 'self.handles' \
                    and not gexp.generators[0].ifs and isinstance(gexp.generators[0].target, ast.Name) and isinstance(gexp.elt, ast.Call) \
                    and last_name(dotted(gexp.elt.func) or '') == '_readFastqRecord' and [src(a) for a in gexp.elt.args] == [gexp.generators[0].target.id]:
                out.append(gexp)
        return out
    comps = reading_comps(g)
    okall = len(comps) == 1
    raises = [x for x in walk_no_nested(g) if isinstance(x, ast.Raise) and 'StopIteration' in src(x)]
    okeof = False
    detail = 'no StopIteration test'
    if len(raises) == 1 and okall:
        conds = reach_conds(g.body, raises[0]) or []
        tests = [t_ for t_, pol in conds]
        # an enclosing loop over the records contributes nothing but the iteration itself
        fields = {n.attr for t_ in tests for n in ast.walk(t_) if isinstance(n, ast.Attribute) and n.attr in ('header', 'sequence', 'plus', 'qual')}
        idx = {src(n.slice) for t_ in tests for n in ast.walk(t_) if isinstance(n, ast.Subscript) and isinstance(n.slice, ast.Constant)}
        before = comps[0].lineno <= raises[0].lineno
        okeof = bool(tests) and (fields == {'header'} or (not fields and idx == {'0'})) and before
        detail = f'end of file is raised under `{" and ".join(src(t_) for t_ in tests)}` which inspects {sorted(fields) or sorted(idx)}'
    ctx.emit('C01-R5', okall and okeof, FQITER, g, f'__next__: all handles are read before the test; {detail}' +
             ('' if okeof else ' - a read with an empty sequence (or a short file) would end or desynchronise the iteration'), key='eof-on-header',
             what='FastqIterator.__next__: end-of-file test does not inspect the header line of every mate')
    # handles are opened in argument order
    i = ctx.fn(FQITER, 'FastqIterator.__init__')
    va = i.args.vararg.arg if i.args.vararg else None
    ok = any(isinstance(s, ast.Assign) and src(s.targets[0]) == 'self.handles' and
             any(isinstance(g, (ast.ListComp, ast.GeneratorExp)) and len(g.generators) == 1 and src(g.generators[0].iter) == va and not g.generators[0].ifs
                 for g in ast.walk(s.value)) for s in walk_no_nested(i))
    ctx.emit('C01-R5', ok, FQITER, i, 'input handles are opened in argument order (R1, R2)', key='handles-in-order', nontrivial=False)


@rule('C01', 'C01-R6', 'positional pairing of mates and files: the joint writer opens R1 before R2 and zips handles with records; '
                       'the per-cell writer pairs ("R1","R2") with the records positionally; the loader passes the records of one pair in one write')
def r6(ctx):
    i = ctx.fn(FQHANDLE, 'FastqHandle.__init__')
    # the joint writer opens the mates in the order R1, R2 (paired) / R1 (single end): decided on the paths of the constructor for both
    # settings, whether the handles are listed literally or built by a comprehension over the mate names
    okorder = True
    seen_orders = {}
    for paired in (True, False):
        facts = {'self.sc': False, 'single_cell': False, 'pairedEnd': paired, 'self.pe': paired}
        rs = [r for r in explore(i.body, mk_atoms(facts), env0={'pairedEnd': paired, 'single_cell': False}) if r['kind'] in ('fall', 'return')]
        orders = set()
        for r in rs:
            hv = [v for t, v, k in r['stores'] if t == 'self.handles']
            if not hv:
                orders.add(None)
                continue
            stmts_h = [x for x in walk_no_nested(i) if isinstance(x, ast.Assign) and src(x.targets[0]) == 'self.handles' and src(x.value) == hv[-1]]
            val = stmts_h[0].value if stmts_h else None
            names = None
            if isinstance(val, ast.List):
                names = []
                for e in val.elts:
                    lits = [c.value for c in ast.walk(e) if isinstance(c, ast.Constant) and isinstance(c.value, str) and 'fastq' in c.value]
                    names.append(lits[0][:2] if lits else '?')
            elif isinstance(val, (ast.ListComp, ast.GeneratorExp)) and len(val.generators) == 1 and not val.generators[0].ifs:
                it = val.generators[0].iter
                if isinstance(it, ast.Attribute) and isinstance(it.value, ast.Name) and it.value.id == 'self':
                    # an attribute the constructor set earlier on this path
                    prev = [v_ for t_, v_, k_ in r['stores'] if t_ == src(it)]
                    seq = fold(ast.parse(prev[-1], mode='eval').body, {'pairedEnd': paired, 'single_cell': False}) if prev else None
                else:
                    seq = fold(it) if not isinstance(it, ast.Name) else eval_local(i, it.id, {'pairedEnd': paired, 'single_cell': False, 'self.sc': False}, stop_at=val)
                if isinstance(seq, (tuple, list)) and all(isinstance(x, str) for x in seq):
                    names = [x[:2] for x in seq]
            orders.add(tuple(names) if names is not None else None)
        seen_orders[paired] = sorted(orders, key=str)
        okorder = okorder and orders == {('R1', 'R2') if paired else ('R1',)}
    ctx.emit('C01-R6', okorder, FQHANDLE, i, f'joint writer opens {seen_orders.get(True)} (paired) / {seen_orders.get(False)} (single end)', key='open-order')
    w = ctx.fn(FQHANDLE, 'FastqHandle.write')
    loops = [l for l in walk_no_nested(w) if isinstance(l, ast.For)]
    recs = w.args.args[1].arg if len(w.args.args) > 1 else '?'
    sigs = sorted(src(l.iter) for l in loops)
    from . import C19
    labs, sc_loop = C19.mate_labels(ctx)
    joint = [l for l in loops if l is not sc_loop and isinstance(l.iter, ast.Call) and dotted(l.iter.func) == 'zip' and len(l.iter.args) == 2
             and src(l.iter.args[0]) == 'self.handles' and src(l.iter.args[1]) == recs]
    if labs is None or any(v is None for v in labs.values()):
        ctx.emit('C01-R6', False, FQHANDLE, w, f'writer loops {sigs}: per-cell mate labels not evaluated', key='zip-pairing', undecided=True)
    else:
        ok = all(tuple(v[:2]) == ('R1', 'R2') for v in labs.values()) and src(sc_loop.iter.args[1]) == recs and len(joint) == 1
        ctx.emit('C01-R6', ok, FQHANDLE, w, f'writer pairs records positionally: per-cell labels {labs[True]} / {labs[False]} (pairedEnd on / off), joint files zip(self.handles, {recs})' +
                 ('' if ok else ' - the records are not paired with (R1, R2) / the open handles in order'), key='zip-pairing')
    # mode: the joint files are opened truncating exactly once, text mode
    modes = sorted({c.args[1].value for c in walk_no_nested(i) if isinstance(c, ast.Call) and dotted(c.func) == 'gzip.open' and len(c.args) > 1 and isinstance(c.args[1], ast.Constant)})
    ctx.emit('C01-R6', modes == ['wt'], FQHANDLE, i, f'joint writer open modes {modes}', key='joint-open-mode', nontrivial=False)


@rule('C01', 'C01-R7', 'the maxReadPairs cut-off is tested after all strategies processed the pair (never half-processed); the processed '
                       'counter is the number of pairs read; the driver closes both handles')
def r7(ctx):
    f, outer, inner = loader_loops(ctx)
    # the cut-off: a `break` of the read loop (not inside the per-strategy loop); its reach condition within one iteration must be
    # "a limit is given and processed >= limit", and it must come after the per-strategy loop
    brks = [x for st in outer.body if st is not inner for x in walk_no_nested(st) if isinstance(x, ast.Break)]
    inner_brk = any(isinstance(x, ast.Break) for x in walk_no_nested(inner))
    top = [st for st in outer.body if brks and any(x is brks[0] for x in ast.walk(st))]
    ok = len(brks) == 1 and bool(top) and outer.body.index(top[0]) > outer.body.index(inner) and not inner_brk
    ctx.emit('C01-R7', ok, LOADER, brks[0] if brks else outer, 'cut-off `break` sits in the read loop after the per-strategy loop' if ok else 'cut-off is not placed after the per-strategy loop', key='cutoff-placement')
    pc = processed_counter(f)
    # the reported counter may be a per-iteration copy of the counter that drives the loop (`processed = pairsObtained` right after `pairsObtained += 1`)
    before0 = outer.body[:outer.body.index(inner)]
    copies = [s for s in before0 if isinstance(s, ast.Assign) and len(s.targets) == 1 and src(s.targets[0]) == pc and isinstance(s.value, ast.Name)]
    driver = None
    if len(copies) == 1 and sum(1 for s in walk_no_nested(outer) if isinstance(s, (ast.Assign, ast.AugAssign)) and src(s.targets[0] if isinstance(s, ast.Assign) else s.target) == pc) == 1:
        k_ = copies[0].value.id
        kst = [s for s in before0[:before0.index(copies[0])] if isinstance(s, (ast.Assign, ast.AugAssign)) and src(s.targets[0] if isinstance(s, ast.Assign) else s.target) == k_]
        init_pc = [s_ for s_ in f.body if isinstance(s_, ast.Assign) and src(s_.targets[0]) == pc and isinstance(s_.value, ast.Constant) and s_.value.value == 0 and s_.lineno <= outer.lineno]
        if len(kst) == 1 and init_pc:
            driver = k_
    same = {pc: 'n'}
    if driver:
        same[driver] = 'n'
    if len(brks) == 1:
        t = reach_expr(outer.body[outer.body.index(inner) + 1:], brks[0])
        okp = t is not None and pred_is(t, lambda e: e['max'] and e['n'] >= e['m'], dict(same, **{'maxReadPairs': 'm', 'maxReadPairs is not None': 'max', 'maxReadPairs is None': 'nomax'}), bools=['max'])
        if t is not None and not okp:
            # spelled with `is None`
            okp = pred_is(t, lambda e: (not e['nomax']) and e['n'] >= e['m'], dict(same, **{'maxReadPairs': 'm', 'maxReadPairs is None': 'nomax'}), bools=['nomax'])
        ctx.emit('C01-R7', okp, LOADER, brks[0], f'cut-off condition `{src(t) if t is not None else None}` ' + ('== (limit given and processed >= limit)' if okp else 'differs from (limit given and processed >= limit)'), key='cutoff-predicate')
    # the processed counter counts the pairs read: before the per-strategy loop either `pc = <enumerate index> + 1` or `pc += 1` (initialised 0)
    before = outer.body[:outer.body.index(inner)]
    if driver:
        pc = driver          # the copy was checked above: the counting itself is done on the driving counter
    cnt = [s for s in before if isinstance(s, (ast.Assign, ast.AugAssign)) and src(s.targets[0] if isinstance(s, ast.Assign) else s.target) == pc]
    others = [s for s in walk_no_nested(outer) if isinstance(s, (ast.Assign, ast.AugAssign)) and src(s.targets[0] if isinstance(s, ast.Assign) else s.target) == pc and s not in cnt]
    ok = False
    if not cnt and not others and isinstance(outer.iter, ast.Call) and dotted(outer.iter.func) == 'enumerate' and isinstance(outer.target, ast.Tuple) \
            and isinstance(outer.target.elts[0], ast.Name) and outer.target.elts[0].id == pc:
        # the counter IS the enumeration index, started at 1: `for processed, reads in enumerate(it, 1)`
        st = (outer.iter.args[1] if len(outer.iter.args) > 1 else next((k.value for k in outer.iter.keywords if k.arg == 'start'), None))
        init = [s_ for s_ in f.body if isinstance(s_, ast.Assign) and src(s_.targets[0]) == pc and isinstance(s_.value, ast.Constant) and s_.value.value == 0 and s_.lineno < outer.lineno]
        ok = isinstance(st, ast.Constant) and st.value == 1 and len(init) == 1
        cnt = [outer]
    elif len(cnt) == 1 and not others:
        c0 = cnt[0]
        if isinstance(c0, ast.Assign):
            en = isinstance(outer.iter, ast.Call) and dotted(outer.iter.func) == 'enumerate' and len(outer.iter.args) == 1 and not outer.iter.keywords
            idx = outer.target.elts[0].id if isinstance(outer.target, ast.Tuple) and isinstance(outer.target.elts[0], ast.Name) else None
            ok = en and idx is not None and linform(c0.value) == Lin({idx: 1}, 1)
        else:
            init = [s for s in f.body if isinstance(s, ast.Assign) and src(s.targets[0]) == pc and isinstance(s.value, ast.Constant) and s.value.value == 0 and s.lineno < outer.lineno]
            ok = isinstance(c0.op, ast.Add) and isinstance(c0.value, ast.Constant) and c0.value.value == 1 and len(init) == 1
    ctx.emit('C01-R7', ok, LOADER, cnt[0] if cnt else outer, f'processed counter `{pc}` is advanced once per pair before the strategies run ({src(cnt[0])[:60] if cnt else None})', key='processed-counter')
    if ctx.ix.exists(DEMUX):
        m = ctx.ix.module(DEMUX)
        closes = [src(c.func) for c in ast.walk(m.tree) if isinstance(c, ast.Call) and isinstance(c.func, ast.Attribute) and c.func.attr == 'close']
        # the handles are the values the driver passes as targetFile= / rejectHandle= to the loader
        passed = {k.arg: src(k.value) for c in ast.walk(m.tree) if isinstance(c, ast.Call) and isinstance(c.func, ast.Attribute) and c.func.attr == 'demultiplex'
                  for k in c.keywords if k.arg in ('targetFile', 'rejectHandle') and isinstance(k.value, ast.Name)}
        ok = len(passed) == 2 and all(v + '.close' in closes for v in passed.values())
        ctx.emit('C01-R7', ok, DEMUX, None, f'driver closes the output and reject handles ({[c for c in closes if "andle" in c]})', key='driver-closes', nontrivial=False)


@rule('C01', 'C01-R11', 'every rejected pair carries its rejection reason: what the loader hands to the rejects tagger for a NonMultiplexable - also one raised without a message - '
                        'passes the test under which TaggedRecord stores the RR tag, and the base strategy forwards it to every record it builds')
def r11(ctx):
    from ..consteval import Evaluator, Unfoldable
    f, outer, inner = loader_loops(ctx)
    arms = [h for t in walk_no_nested(inner) if isinstance(t, ast.Try) for h in t.handlers if h.type is not None and last_name(dotted(h.type) or '') == 'NonMultiplexable' and h.name]
    calls = [(h, c) for h in arms for c in walk_no_nested(h) if isinstance(c, ast.Call) and (dotted(c.func) or '').endswith('.demultiplex') and any(k.arg == 'reason' for k in c.keywords)]
    ctx.need('C01-R11', len(calls), 1, 'rejects-tagger calls in the NonMultiplexable arm of the loader')
    init = ctx.fn(BASEDEMUX, 'TaggedRecord.__init__')
    stores = [st for st in walk_no_nested(init) if isinstance(st, ast.Assign) and any(isinstance(t, ast.Subscript) and isinstance(t.slice, ast.Constant) and t.slice.value == 'RR' for t in st.targets)]
    ctx.need('C01-R11', len(stores), 1, 'statements storing the RR tag in TaggedRecord.__init__')
    rparam = 'reason'
    conds = [(t, pol) for t, pol in (reach_conds(init.body, stores[0]) or []) if rparam in names_in(t)]
    for k, (h, c) in enumerate(calls):
        e = [kw.value for kw in c.keywords if kw.arg == 'reason'][0]
        bad = None
        try:
            for exc in (Exception(), Exception('barcode not in whitelist')):
                env = {h.name: exc}
                v = Evaluator(dict(env)).ev(e, env)
                env2 = {rparam: v}
                stored = all(bool(Evaluator(dict(env2)).ev(t, env2)) == pol for t, pol in conds)
                if not stored and bad is None:
                    bad = {'rejection': 'NonMultiplexable(%s)' % (repr(exc.args[0]) if exc.args else ''), 'reason handed to the rejects tagger': repr(v), 'RR stored under': ' and '.join(('' if pol else 'not ') + src(t) for t, pol in conds), 'RR tag written': False}
        except (Unfoldable, Exception) as e_:
            ctx.emit('C01-R11', False, LOADER, c, f'the reason expression `{src(e)}` / the RR guard is outside the interpreted subset ({type(e_).__name__}: {str(e_)[:60]})', key=f'reason-reaches-RR:{k}', undecided=True)
            continue
        ctx.emit('C01-R11', bad is None, LOADER, c, f'`{src(e)}` passes the RR guard of TaggedRecord.__init__ for rejections with and without a message' if bad is None else
                 f'a rejected pair is written without its reason: {bad}', key=f'reason-reaches-RR:{k}', witness=bad, what='rejected reads are written without the RR tag')
    # the base strategy forwards its reason parameter to every TaggedRecord it builds
    g = ctx.fn(BASEDEMUX, 'IlluminaBaseDemultiplexer.demultiplex')
    # (construction, name that holds the reason there): in demultiplex itself, or in a helper method of the class that is handed the reason
    trs = [(c, 'reason') for c in ast.walk(g) if isinstance(c, ast.Call) and last_name(dotted(c.func) or '') == 'TaggedRecord']
    for hc in [c for c in ast.walk(g) if isinstance(c, ast.Call) and isinstance(c.func, ast.Attribute) and src(c.func.value) == 'self']:
        try:
            hf = ctx.fn(BASEDEMUX, f'IlluminaBaseDemultiplexer.{hc.func.attr}')
        except AnalysisError:
            continue
        hp = [a.arg for a in hf.args.args][1:]
        got = [hp[i] for i, a in enumerate(hc.args) if isinstance(a, ast.Name) and a.id == 'reason' and i < len(hp)] + [k_.arg for k_ in hc.keywords if isinstance(k_.value, ast.Name) and k_.value.id == 'reason']
        for c in ast.walk(hf):
            if isinstance(c, ast.Call) and last_name(dotted(c.func) or '') == 'TaggedRecord':
                trs.append((c, got[0] if got else None))
    ctx.need('C01-R11', len(trs), 1, 'TaggedRecord constructions of the rejects tagger')
    for k, (c, holder) in enumerate(trs):
        kw = [x.value for x in c.keywords if x.arg == 'reason']
        ok = bool(kw) and isinstance(kw[0], ast.Name) and kw[0].id == holder
        ctx.emit('C01-R11', ok, BASEDEMUX, c, 'the rejects tagger gives its reason to the record it builds' if ok else f'TaggedRecord is built with reason={src(kw[0]) if kw else "<missing>"}: the reason of the rejection is lost',
                 key=f'reason-forwarded:{k}', witness={'reason': src(kw[0]) if kw else None} if not ok else None, what='the rejects tagger drops the rejection reason')


@rule('C01', 'C01-R12', 'chunked runs lose no chunk: the per-chunk jobs of the command line (group ids counted from 0) write under a name the glue step collects - the output prefix, '
                        'evaluated for the group ids None / 0 / 1 / 12, is empty only without a group id and otherwise carries the marker the `cat ... > final` commands match')
def r12(ctx):
    from ..consteval import Evaluator, Unfoldable
    m = ctx.ix.module(DEMUX)
    binds = [st for st in ast.walk(m.tree) if isinstance(st, ast.Assign) and len(st.targets) == 1 and isinstance(st.targets[0], ast.Name) and st.targets[0].id == 'prefix']
    glue = sorted({p_ for c in ast.walk(m.tree) if isinstance(c, ast.Constant) and isinstance(c.value, str) for p_ in __import__('re').findall(r'\*(_[A-Z]+_)[A-Za-z]', c.value)})
    # the statement that decides the prefix: the assignment itself, or the if-statement whose arms assign it (the canonical form of a conditional expression)
    top = None
    if binds:
        top = binds[0]
        while len(binds) > 1 and top is not None and not all(any(x is b for x in ast.walk(top)) for b in binds):
            top = m.parent.get(top)
    if top is None or isinstance(top, ast.Module) or len(glue) != 1 or 'args.g' not in src(top):
        ctx.emit('C01-R12', False, DEMUX, None, f'chunk prefix assignment ({len(binds)}) / glue pattern ({glue}) not found in their known form', key='chunk-prefix', undecided=True)
        return
    marker = glue[0]
    bad = None
    fn = ast.FunctionDef(name='_prefix', args=ast.arguments(posonlyargs=[], args=[], kwonlyargs=[], kw_defaults=[], defaults=[]), decorator_list=[], type_params=[],
                         body=[top, ast.Return(value=ast.Name(id='prefix', ctx=ast.Load()))])
    ast.fix_missing_locations(fn)
    try:
        from ..consteval import run_function
        for g_ in (None, 0, 1, 12):
            v = run_function(fn, [], env={'args.g': g_}, budget=2000)
            ok = (v == '') if g_ is None else (isinstance(v, str) and v.endswith(marker) and str(g_) in v)
            if not ok and bad is None:
                bad = {'group id (-g)': g_, 'output prefix': v, 'glue collects': f'*{marker}*'}
    except (Unfoldable, Exception) as e_:
        ctx.emit('C01-R12', False, DEMUX, binds[0], f'the chunk prefix is outside the interpreted subset ({type(e_).__name__}: {str(e_)[:60]})', key='chunk-prefix', undecided=True)
        return
    ctx.emit('C01-R12', bad is None, DEMUX, binds[0], f'every chunk id gives a prefix ending in {marker}, which the glue commands match' if bad is None else
             f'{bad}: the files of that chunk are written under the final names, are not matched by the glue step and are overwritten by its redirection - the reads of the chunk are in no output',
             key='chunk-prefix', witness=bad, what='demux.py: the first chunk writes without the temporary prefix')


@rule('C01', 'C01-R13', 'the read-pair budget of `-n` is a budget per library: the counter the remaining budget is computed from (`args.n - <counter>`) is set to zero inside the loop over the '
                        'libraries - a counter that survives from one library to the next cuts every later library short, its reads are in no output')
def r13(ctx):
    m = ctx.ix.module(DEMUX)
    uses = [b for b in ast.walk(m.tree) if isinstance(b, ast.BinOp) and isinstance(b.op, ast.Sub) and src(b.left) == 'args.n' and isinstance(b.right, ast.Name)]
    ctx.need('C01-R13', len(uses), 1, 'remaining-budget expressions `args.n - <counter>` in demux.py')
    for k, u in enumerate(uses):
        cnt = u.right.id
        loops = []
        n_ = u
        while n_ in m.parent:
            n_ = m.parent[n_]
            if isinstance(n_, ast.For) and 'librar' in src(n_.iter):
                loops.append(n_)
        if not loops:
            ctx.emit('C01-R13', False, DEMUX, u, f'`{src(u)}` is not inside a loop over the libraries', key=f'budget-per-library:{k}', undecided=True)
            continue
        lib = loops[-1]          # the outermost: the loop over the libraries themselves (the lanes of one library share its budget)
        zero = [a for a in ast.walk(m.tree) if isinstance(a, ast.Assign) and any(isinstance(t, ast.Name) and t.id == cnt for t in a.targets) and isinstance(a.value, ast.Constant) and a.value.value == 0]
        inside = [a for a in zero if any(x is a for x in ast.walk(lib))]
        ok = bool(inside)
        ctx.emit('C01-R13', ok, DEMUX, inside[0] if inside else (zero[0] if zero else u), f'`{cnt}` is reset for every library (line {inside[0].lineno})' if ok else
                 f'`{cnt}` is set to zero once, outside the loop over the libraries (line {zero[0].lineno if zero else "?"}): with -n the second library gets the budget the first one left over',
                 key=f'budget-per-library:{k}', witness={'libraries': 2, '-n': 4, 'second library': 'maxReadPairs = 4 - 4 = 0'} if not ok else None,
                 what='demux.py: the -n counter is not reset per library')


META = {
    'text': ('Decides, for the loader loop on every control-flow path of one (read pair, strategy) iteration including every exception edge and '
             'all 8 targetFile/rejectHandle/probe configurations: exactly one sink write completes when both handles are present (never both, never '
             'neither), the yield counter moves iff the pair was accepted; every string reaching a sink is a complete 4-line record built from '
             'the original header/sequence/qualities; the quality->letter map is total (index clamped into the table, encoder/decoder agree); '
             'the reader performs four readline() per handle for all handles before an end-of-file test on the header line only; mates and files '
             'are paired positionally (R1 before R2); the cut-off is tested after all strategies ran. Does NOT decide that written bytes equal the '
             'input bases (C02), gzip validity, per-cell routing (C19) or the cluster submission path.'),
    'technique': 'static analysis: exception-aware path enumeration with 3-valued guard evaluation over configuration atoms, interval analysis of table indices, string-shape analysis of serialisers; interpretation of the rejection-reason expressions and of the chunk prefix on every group id',
    'design_ref': 'DESIGN.md section 5, C01',
}


@rule('C01', 'C01-R8', 'one-file-per-cell output: the handle limiter the per-cell writer delegates to keeps every record (shared with C19: '
                       'key typestate, truncate-once, already-written set only grows, record written exactly once)')
def r8(ctx):
    from ..core import Ctx
    from . import C19
    sub = Ctx(ctx.ix, 'C19', ctx.tier)
    for fn in (C19.r1, C19.r2, C19.r2b, C19.r5):
        fn(sub)
    for o in sub.obligations:
        o.construct = o.construct.replace(o.rule, 'C01-R8:' + o.rule)
        o.detail = f'[{o.rule}] ' + o.detail
        o.rule = 'C01-R8'
        ctx.obligations.append(o)
    for k, v in sub.counters.items():
        if isinstance(v, set):
            ctx.counters[k] |= v
        else:
            ctx.counters[k] += v


@rule('C01', 'C01-R9', 'one-file-per-cell output keeps mates together: the tags the per-cell writer builds the file name from are given to every '
                       'mate of a pair - a strategy stores such a tag through the variable of a loop over the records inside that loop, or for every mate index')
def r9(ctx):
    w = ctx.fn(FQHANDLE, 'FastqHandle.write')
    # the routing tags: what the per-cell branch reads from record.tags to build the path
    routing = set()
    for c in walk_no_nested(w):
        if isinstance(c, ast.Call) and isinstance(c.func, ast.Attribute) and c.func.attr == 'get' and isinstance(c.func.value, ast.Attribute) and c.func.value.attr == 'tags' \
                and c.args and isinstance(c.args[0], ast.Constant):
            routing.add(c.args[0].value)
        if isinstance(c, ast.Subscript) and isinstance(c.value, ast.Attribute) and c.value.attr == 'tags' and isinstance(c.slice, ast.Constant):
            routing.add(c.slice.value)
    ctx.need('C01-R9', len(routing), 2, 'tags the per-cell writer names the file after')
    files = [BASEDEMUX] + [p for p in ctx.ix.pyfiles() if p.startswith(DEMUXMODS)]
    nsites = 0
    bad = []
    for rel in files:
        mod = ctx.ix.module(rel)
        for q, defs in mod.defs.items():
            for f in defs:
                if not isinstance(f, (ast.FunctionDef, ast.AsyncFunctionDef)):
                    continue
                loops = [l for l in walk_no_nested(f) if isinstance(l, ast.For)]
                sites = []      # (receiver expr, tag, node)
                for n in walk_no_nested(f):
                    if isinstance(n, ast.Assign):
                        for t in n.targets:
                            if isinstance(t, ast.Subscript) and isinstance(t.value, ast.Attribute) and t.value.attr == 'tags' and isinstance(t.slice, ast.Constant) and t.slice.value in routing:
                                sites.append((t.value.value, t.slice.value, n))
                    if isinstance(n, ast.Call) and isinstance(n.func, ast.Attribute) and n.func.attr == 'addTagByTag' and n.args and isinstance(n.args[0], ast.Constant) and n.args[0].value in routing:
                        sites.append((n.func.value, n.args[0].value, n))
                by_index = {}
                for recv, tag, node in sites:
                    if isinstance(recv, ast.Name) and recv.id == 'self':
                        continue
                    nsites += 1
                    if isinstance(recv, ast.Name):
                        own = [l for l in loops if any(isinstance(x, ast.Name) and x.id == recv.id for x in ast.walk(l.target))]
                        if own and not any(any(y is node for y in ast.walk(b)) for l in own for b in l.body):
                            bad.append((rel, node, f'{q}: `{src(node)[:60]}` stores the routing tag {tag!r} through the loop variable `{recv.id}` after its loop: only the last mate receives it, '
                                                   f'the mates of one pair are routed to different per-cell files'))
                    elif isinstance(recv, ast.Subscript) and isinstance(recv.slice, ast.Constant) and isinstance(recv.slice.value, int):
                        by_index.setdefault((src(recv.value), tag), {})[recv.slice.value] = node
                for (base, tag), idx in by_index.items():
                    # every mate index the function addresses on that record list must receive the tag
                    used = {s_.slice.value for s_ in walk_no_nested(f) if isinstance(s_, ast.Subscript) and src(s_.value) == base and isinstance(s_.slice, ast.Constant) and isinstance(s_.slice.value, int)
                            and s_.slice.value >= 0}
                    missing = sorted(used - set(idx))
                    if missing:
                        node = list(idx.values())[0]
                        bad.append((rel, node, f'{q}: routing tag {tag!r} is stored on {base}[{sorted(idx)[0]}] but not on mate index {missing}: the mates of one pair are routed to different per-cell files'))
    ctx.need('C01-R9', nsites, 3, 'stores of a routing tag onto a record in the strategy modules')
    if bad:
        for rel, node, msg in bad:
            ctx.emit('C01-R9', False, rel, node, msg, key='routing-tags-on-all-mates', what=msg)
    else:
        ctx.emit('C01-R9', True, BASEDEMUX, ctx.fn(FQHANDLE, 'FastqHandle.write'), f'{nsites} stores of the routing tags {sorted(routing)} all reach every mate (loop over the records / every index)', key='routing-tags-on-all-mates')


@rule('C01', 'C01-R10', 'a read the rejects writer cannot tag falls back to the raw record: the loader catches NonMultiplexable around the rejects tagger, '
                        'so every exception the record construction (fromRawFastq and the header parsers it calls) raises explicitly is a NonMultiplexable or a re-raise')
def r10(ctx):
    f, outer, inner = loader_loops(ctx)
    # the fallback exists: a try around the rejects tagger inside the NonMultiplexable arm, catching NonMultiplexable, whose handler writes to the rejects
    arms = [h for t in walk_no_nested(inner) if isinstance(t, ast.Try) for h in t.handlers if h.type is not None and last_name(dotted(h.type) or '') == 'NonMultiplexable']
    inner_try = [t for h in arms for t in walk_no_nested(h) if isinstance(t, ast.Try) and any(isinstance(c, ast.Call) and (dotted(c.func) or '').endswith('.demultiplex') for b in t.body for c in ast.walk(b))]
    fb = [h for t in inner_try for h in t.handlers if h.type is not None and last_name(dotted(h.type) or '') in ('NonMultiplexable', 'Exception', 'BaseException')
          and any(isinstance(c, ast.Call) and src(c.func) == 'rejectHandle.write' for c in ast.walk(h))]
    ctx.emit('C01-R10', bool(fb), LOADER, inner_try[0] if inner_try else inner, 'the rejects arm falls back to writing the raw record when the rejects tagger raises ' +
             (f'{sorted({last_name(dotted(h.type)) for h in fb})}' if fb else '- fallback not found'), key='rejects-fallback', undecided=not fb)
    caught_all = any(last_name(dotted(h.type) or '') in ('Exception', 'BaseException') for h in fb)
    # the closure of the record construction inside the class
    cls = 'TaggedRecord'
    mod = ctx.ix.module(BASEDEMUX)
    seen, todo = set(), ['fromRawFastq']
    raises = []
    while todo:
        m = todo.pop()
        if m in seen:
            continue
        seen.add(m)
        for g in mod.defs.get(f'{cls}.{m}', []):
            for n in walk_no_nested(g):
                if isinstance(n, ast.Call) and isinstance(n.func, ast.Attribute) and isinstance(n.func.value, ast.Name) and n.func.value.id == 'self' and f'{cls}.{n.func.attr}' in mod.defs:
                    todo.append(n.func.attr)
                if isinstance(n, ast.Raise) and n.exc is not None:
                    e = n.exc.func if isinstance(n.exc, ast.Call) else n.exc
                    raises.append((g, n, last_name(dotted(e) or '?')))
    ctx.need('C01-R10', len(seen), 3, 'methods in the record-construction closure of TaggedRecord.fromRawFastq')
    bad = [(g, n, t) for g, n, t in raises if not caught_all and not ctx.ix.is_subclass_name(t, 'NonMultiplexable')]
    if bad:
        for g, n, t in bad:
            ctx.emit('C01-R10', False, BASEDEMUX, n, f'{cls}.{g.name} raises {t}: the rejects arm of the loader only falls back on NonMultiplexable, so a rejected read whose header cannot be parsed '
                     f'aborts the run instead of being written to the rejects', key='construction-raises-nonmultiplexable', what=f'{cls}.{g.name}: raise {t} escapes the rejects fallback')
    else:
        ctx.emit('C01-R10', True, BASEDEMUX, mod.defs[f'{cls}.fromRawFastq'][0], f'{len(raises)} explicit raise(s) in {sorted(seen)}: all NonMultiplexable (bare re-raises keep the active exception)',
                 key='construction-raises-nonmultiplexable')


from . import shared as _shared
_shared.register('C01', 'C01')
