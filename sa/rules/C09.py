"""C09 - cut-site coordinates are correct and strand-symmetric (linear forms of the site on every path)."""
import ast
import itertools

from ..core import rule
from ..index import AnalysisError, dotted, src, walk_no_nested, names_in
from ..domains import Lin, linform
from ..cfg import eval3, UNK
from ..symexec import SymExec
from ..util import explore, mk_atoms
from .slots import FRAG_NLA, FRAG_CHIC, P

SYMBOLS = {
    'R1.reference_start': 'rs', 'R1.reference_end': 're',
    'R1.cigartuples[0][1]': 'hc', 'R1.cigartuples[-1][1]': 'tc',
    # pysam identities (library semantics): leading soft clip == query_alignment_start, trailing == query_length - query_alignment_end
    'R1.query_alignment_start': 'hc', 'R1.query_alignment_end': 'qae', 'R1.query_length': 'qlen', 'R1.query_alignment_length': 'qal',
    'R1.infer_query_length()': 'qlen',
}


def normalise(l, headclip, tailclip):
    """apply the pysam identities and the facts `no leading clip -> hc = 0`, `no trailing clip -> tc = 0`"""
    if not isinstance(l, Lin):
        return l
    coef = dict(l.coef)
    const = l.const
    out = Lin(const=const)
    for k, v in coef.items():
        if k == 'qlen':
            out = out + Lin({'tc': v, 'qae': v})
        elif k == 'qal':
            out = out + Lin({'qae': v, 'hc': -v})
        else:
            out = out + Lin({k: v})
    c2 = dict(out.coef)
    if not headclip:
        c2.pop('hc', None)
    if not tailclip:
        c2.pop('tc', None)
    return Lin(c2, out.const)


def run_protocol(ctx, relpath, cls, extra_atoms, atom_space, negations=False):
    f = ctx.fn(relpath, f'{cls}.identify_site')
    results = []
    for combo in itertools.product(*[[(k, v) for v in vals] for k, vals in atom_space]):
        a = dict(combo)
        atoms = {
            'R1.is_reverse': a['REV'], 'not R1.is_reverse': not a['REV'],
            'self.no_umi_cigar_processing': a['NOUMI'], 'not self.no_umi_cigar_processing': not a['NOUMI'],
            'R1.cigartuples[-1][0] == 4': a['TAILCLIP'], 'R1.cigartuples[0][0] == 4': a['HEADCLIP'],
            'R1 is None': False, 'R1.is_unmapped': False, 'R1 is None or R1.is_unmapped': False,
        }
        atoms.update({k: (a[v] if isinstance(v, str) else v) for k, v in extra_atoms.items()})
        if negations:
            for k, v in list(atoms.items()):
                if isinstance(v, bool) and ' == ' in k:
                    atoms.setdefault(k.replace(' == ', ' != '), not v)
                atoms.setdefault(f'not {k}', not v) if isinstance(v, bool) and not k.startswith('not ') else None
        se = SymExec(atoms, SYMBOLS, record=('set_site',))
        states = se.run(f.body)
        ctx.counters['paths_enumerated'] += len(states)
        for st in states:
            for name, args, guards, line in st.events:
                site = args.get('site_pos', args.get(1))
                valid = args.get('valid', True)
                results.append({'atoms': a, 'guards': guards, 'site': normalise(site, a['HEADCLIP'], a['TAILCLIP']) if isinstance(site, Lin) else site,
                                'valid': valid, 'strand_src': args.get('src:site_strand'), 'strand': args.get('site_strand'), 'line': line,
                                'returned': st.returned, 'found_valid_field': st.fields.get('found_valid_site')})
    return f, results


def anchor(a):
    if a['REV']:
        return Lin({'re': 1}) + (Lin({'tc': 1}) if (not a['NOUMI'] and a['TAILCLIP']) else Lin())
    return Lin({'rs': 1}) - (Lin({'hc': 1}) if (not a['NOUMI'] and a['HEADCLIP']) else Lin())


def check_table(ctx, rid, relpath, f, results, classify, table, w, proto):
    """table: arm kind -> (fwd offset, rev offset) relative to the clip-corrected anchor."""
    by = {}
    for r in results:
        kind = classify(r)
        if kind is None:
            continue
        by.setdefault((kind, r['atoms']['REV']), []).append(r)
    for kind, (off_f, off_r) in table.items():
        for rev, want_off in ((False, off_f), (True, off_r)):
            rs_ = by.get((kind, rev), [])
            strand = 'reverse' if rev else 'forward'
            if not rs_:
                ctx.emit(rid, False, relpath, f, f'{proto} {kind} arm, {strand} strand: no path sets a site (arm missing or guarded by an un-mirrored condition)', key=f'{proto}:{kind}:{strand}:site',
                         what=f'{proto}: no {strand}-strand {kind} arm')
                continue
            bad = []
            for r in rs_:
                want = anchor(r['atoms']) + Lin(const=want_off)
                if not isinstance(r['site'], Lin) or r['site'] != want:
                    bad.append((r, want))
            ex = rs_[0]
            ctx.emit(rid, not bad, relpath, f,
                     f'{proto} {kind} arm, {strand} strand ({len(rs_)} paths over clip / no_umi_cigar_processing combinations): site == clip-corrected ' +
                     ('reference_end' if rev else 'reference_start') + f' {want_off:+d}' if not bad else
                     f'{proto} {kind} arm, {strand} strand: site `{bad[0][0]["site"]}` != expected `{bad[0][1]}` for {bad[0][0]["atoms"]} (line {bad[0][0]["line"]})',
                     key=f'{proto}:{kind}:{strand}:site', witness=None if not bad else {'atoms': bad[0][0]['atoms'], 'site': str(bad[0][0]['site']), 'expected': str(bad[0][1]), 'guards': bad[0][0]['guards']},
                     what=f'{proto} {kind} arm ({strand}): site is not the clip-corrected anchor {want_off:+d}')
        # mirror symmetry from the code's own forms (independent of the table)
        fw, rv = by.get((kind, False), []), by.get((kind, True), [])
        offs_f = {str(r['site'] - anchor(r['atoms'])) for r in fw if isinstance(r['site'], Lin)}
        offs_r = {str(r['site'] - anchor(r['atoms'])) for r in rv if isinstance(r['site'], Lin)}
        ok = False
        detail = f'offsets fwd {sorted(offs_f)}, rev {sorted(offs_r)}'
        if len(offs_f) == 1 and len(offs_r) == 1:
            try:
                of, orr = int(list(offs_f)[0]), int(list(offs_r)[0])
                ok = orr == -w - of
                detail = f'fwd offset {of:+d}, rev offset {orr:+d}: rev == -{w} - fwd ' + ('holds' if ok else 'FAILS (the two orientations of one cut get different sites)')
            except ValueError:
                detail += ' (not constants: the site depends on something besides the clip-corrected anchor)'
        ctx.emit('C09-R2', ok, relpath, f, f'{proto} {kind} arm mirror symmetry: {detail}', key=f'{proto}:{kind}:mirror', what=f'{proto} {kind} arm: strand mirror symmetry broken')


def _set_site_by_interpretation(ss):
    from ..consteval import run_function, Raised, Unfoldable
    try:
        for valid in (True, False, None):
            for inv in (False, True):
                metas = []

                def hook(ev, call, env, metas=metas):
                    d = dotted(call.func) or ''
                    if d == 'self.set_meta':
                        metas.append(tuple(ev.ev(x, env) for x in call.args))
                        return None
                    if d == 'self.set_strand':
                        return None
                    return NotImplemented
                out = {}
                kw = {'site_chrom': 'chr1', 'site_pos': 77, 'site_strand': True}
                if valid is not None:
                    kw['valid'] = valid
                run_function(ss, ['<self>'], kw, env={'self.invert_strand': inv, 'self.found_valid_site': False}, call_hook=hook, out_scope=out, budget=5000)
                fv = out.get('self.found_valid_site', False)
                ds = [m for m in metas if m and m[0] == 'DS']
                want_valid = valid is not False
                if bool(fv) != want_valid or (want_valid and ds != [('DS', 77)]) or (not want_valid and ds):
                    return (False, f'valid={valid}: found_valid_site={fv}, DS stores {ds}')
                if out.get('self.site_location') != ('chr1', 77):
                    return (False, f'site_location = {out.get("self.site_location")} for site (chr1, 77)')
    except (Unfoldable, Raised):
        return None
    except Exception:
        return None
    return (True, None)


def nla_site_model(ctx):
    """NlaIIIFragment.identify_site (overhang layout) run by the abstract interpreter on model reads: both strands x soft clip at the read start present / absent x
    cigar processing on / off x check_motif x allow_cycle_shift x what the two ends of the read show (CATG, the cycle-shifted motif, nothing).  Required: with the
    motif (or without checking) the recorded site is the clip-corrected read start +0 / -4, with the shifted motif and cycle shift allowed -1 / -3, otherwise the site
    is recorded invalid at +0 / -4 and None is returned.  (ok, cases, witness), or None when outside the interpreted subset.  Cached per run."""
    if hasattr(ctx, '_nla_site_model'):
        return ctx._nla_site_model
    from ..consteval import run_function, Raised, Unfoldable, LocalFn
    from .C04 import module_consts
    from ..consteval import TOP
    ctx._nla_site_model = None
    f = ctx.fn(FRAG_NLA, 'NlaIIIFragment.identify_site')
    mod = ctx.ix.module(FRAG_NLA)
    mc = {k: v for k, v in module_consts(mod, ctx.ix).items() if v is not TOP}
    helpers = {q: d[0] for q, d in mod.defs.items() if '.' not in q and isinstance(d[0], ast.FunctionDef)}
    n = 0
    # what an end of the read shows (as its first four / last four bases): the full motif, the cycle-shifted motif, three quarters of the motif (must not count),
    # a near miss of the shifted motif (must not count), nothing
    ends = {'full': ('CATG', 'CATG'), 'shift': ('ATGA', 'ACAT'), 'near': ('CATT', 'GATG'), 'near2': ('GATG', 'CATT'), 'nearshift': ('ATTA', 'ATAT'), 'none': ('TTTT', 'TTTT')}
    try:
        for rev, clip, noumi, chk, shift, own, far in itertools.product((False, True), (0, 3), (False, True), (True, False), (False, True), ('full', 'shift', 'near', 'near2', 'nearshift', 'none'), ('full', 'shift', 'none')):
            n += 1
            head = ends[own][0] if not rev else ends[far][0]
            tail = ends[own][1] if rev else ends[far][1]
            seq = head + 'GGGG' + tail
            cig = ([(4, clip)] if clip and not rev else []) + [(0, 50)] + ([(4, clip)] if clip and rev else [])
            calls = []

            def hook(ev, call, env, calls=calls):
                d = dotted(call.func) or ''
                if d in ('self.set_site', 'self.set_recognized_sequence', 'self.set_rejection_reason'):
                    kw = {k_.arg: ev.ev(k_.value, env) for k_ in call.keywords}
                    calls.append((d[5:], [ev.ev(x, env) for x in call.args], kw))
                    return None
                if isinstance(call.func, ast.Name) and call.func.id in helpers:
                    return run_function(helpers[call.func.id], [ev.ev(x, env) for x in call.args], {k_.arg: ev.ev(k_.value, env) for k_ in call.keywords}, env=dict(mc), budget=20000, call_hook=hook)
                return NotImplemented
            env = dict(mc)
            env.update({'self.reads': ['<R1>', '<R2>'], 'self.no_overhang': False, 'self.check_motif': chk, 'self.allow_cycle_shift': shift, 'self.no_umi_cigar_processing': noumi,
                        'self.found_valid_site': False, 'R1.is_unmapped': False, 'R1.is_reverse': rev, 'R1.seq': seq, 'R1.query_sequence': seq, 'R1.reference_start': 100, 'R1.reference_end': 150,
                        'R1.reference_name': 'chr1', 'R1.cigartuples': cig, 'self.cut_location_offset': -4})
            out = {}
            ret = run_function(f, ['<self>'], env=env, call_hook=hook, budget=20000, out_scope=out)
            sites = [c for c in calls if c[0] == 'set_site']
            anchor_ = (150 + (clip if not noumi else 0)) if rev else (100 - (clip if not noumi else 0))
            if not chk or own == 'full':
                want = (anchor_ + (-4 if rev else 0), True)
            elif shift and own == 'shift':
                want = (anchor_ + (-3 if rev else -1), True)
            else:
                want = (anchor_ + (-4 if rev else 0), False)
            case = {'reverse': rev, 'soft clip at the read start': clip, 'no_umi_cigar_processing': noumi, 'check_motif': chk, 'allow_cycle_shift': shift, 'own end shows': own, 'other end shows': far}
            if len(sites) != 1:
                ctx._nla_site_model = (False, n, dict(case, problem=f'set_site called {len(sites)} times'))
                return ctx._nla_site_model
            kw = dict(sites[0][2])
            for name_, val_ in zip(('site_chrom', 'site_pos', 'site_strand', 'valid'), sites[0][1]):
                kw[name_] = val_
            got = (kw.get('site_pos'), kw.get('valid', True) is not False)
            if got != want or kw.get('site_strand') != rev or kw.get('site_chrom') != 'chr1':
                ctx._nla_site_model = (False, n, dict(case, problem=f'site recorded as (position, valid) = {got} on strand {kw.get("site_strand")}, expected {want} (clip-corrected read start {anchor_})'))
                return ctx._nla_site_model
            if want[1] and (not isinstance(ret, tuple) or tuple(ret) != ('chr1', want[0])):
                ctx._nla_site_model = (False, n, dict(case, problem=f'returns {ret!r}, expected the site (chr1, {want[0]})'))
                return ctx._nla_site_model
            if not want[1] and ret is not None:
                ctx._nla_site_model = (False, n, dict(case, problem=f'a fragment without the motif returns {ret!r} (expected None: rejected)'))
                return ctx._nla_site_model
    except (Unfoldable, Raised):
        return None
    except Exception:
        return None
    ctx._nla_site_model = (True, n, None)
    return ctx._nla_site_model


def chic_site_model(ctx):
    """CHICFragment.identify_site run by the abstract interpreter on model fragments: both strands x soft clip at the read start (0 / 3) x cigar processing on / off x
    layout (no MX tag / MX = scCHIC... / another MX) x invert_strand x mate (none / unmapped / inward / same orientation / outward).  Required: R1 unmapped and mates that do
    not point inwards are rejected without a site; otherwise one site is recorded at the clip-corrected read start -2 / +1 (trimmed layout) or -1 / 0 (untrimmed), on the
    read strand (inverted iff invert_strand).  (ok, cases, witness) or None outside the interpreted subset.  Cached per run."""
    if hasattr(ctx, '_chic_site_model'):
        return ctx._chic_site_model
    from ..consteval import module_scope, Evaluator, Instance, Unfoldable, Raised
    ctx._chic_site_model = None
    n = 0
    try:
        env = module_scope(ctx.ix, FRAG_CHIC)
        cls = env['CHICFragment']
        for rev, clip, noumi, mx, inv, mate, r1_unmapped in itertools.product((False, True), (0, 3), (False, True), (None, 'scCHIC384C8U3', 'NLAIII384C8U3'), (False, True),
                                                                             (None, 'unmapped', 'inward', 'same', 'outward'), (False, True)):
            if r1_unmapped and (clip or mx or mate not in (None, 'inward')):
                continue
            n += 1
            cig = ([(4, clip)] if clip and not rev else []) + [(0, 50)] + ([(4, clip)] if clip and rev else [])
            r1 = Instance(attrs={'is_unmapped': r1_unmapped, 'is_reverse': rev, 'reference_start': 100, 'reference_end': 150, 'reference_name': 'chr1', 'cigartuples': cig, 'tags': {'MX': mx} if mx else {},
                                 'is_read1': True, 'is_read2': False, 'is_qcfail': False})
            r2 = None
            if mate is not None:
                m_rev = {'inward': not rev, 'same': rev, 'outward': not rev, 'unmapped': False}[mate]
                start = {'inward': 200 if not rev else 20, 'outward': 20 if not rev else 200}.get(mate, 120)
                r2 = Instance(attrs={'is_unmapped': mate == 'unmapped', 'is_reverse': m_rev, 'reference_start': start, 'reference_end': start + 50, 'reference_name': 'chr1', 'cigartuples': [(0, 50)], 'tags': {},
                                     'is_read1': False, 'is_read2': True, 'is_qcfail': False})
            frag = Instance(cls, attrs={'reads': [r1, r2], 'no_umi_cigar_processing': noumi, 'invert_strand': inv, 'found_valid_site': False, 'site_location': None, 'single_end': mate is None,
                                        'qcfail': False, 'max_fragment_size': None, 'assignment_radius': 0})
            calls = []

            def hook(ev, call, env_, calls=calls):
                d = dotted(call.func) or ''
                if d in ('self.set_site', 'self.set_rejection_reason', 'self.set_recognized_sequence', 'self.set_meta'):
                    calls.append((d[5:], [ev.ev(x, env_) for x in call.args], {k_.arg: ev.ev(k_.value, env_) for k_ in call.keywords}))
                    return None
                if isinstance(call.func, ast.Attribute) and call.func.attr in ('has_tag', 'get_tag'):
                    recv = ev.ev(call.func.value, env_)
                    if isinstance(recv, Instance) and 'tags' in recv.attrs:
                        a = [ev.ev(x, env_) for x in call.args]
                        if call.func.attr == 'has_tag':
                            return a[0] in recv.attrs['tags']
                        if a[0] not in recv.attrs['tags']:
                            raise Raised('KeyError', a[0])
                        return recv.attrs['tags'][a[0]]
                return NotImplemented
            e = dict(env)
            e['frag'] = frag
            e['R1'] = r1
            ret = Evaluator(e, budget=200000, call_hook=hook).ev(ast.parse('frag.identify_site()', mode='eval').body, e)
            sites = [c for c in calls if c[0] == 'set_site']
            rejects = [c for c in calls if c[0] == 'set_rejection_reason']
            case = {'reverse': rev, 'soft clip at the read start': clip, 'no_umi_cigar_processing': noumi, 'MX': mx, 'invert_strand': inv, 'mate': mate, 'R1 unmapped': r1_unmapped}
            # pairs that point at each other are accepted whatever their coordinates (an outward pair has the same flags as an inward one)
            must_reject = r1_unmapped or mate == 'same'
            if must_reject:
                if sites or not rejects:
                    ctx._chic_site_model = (False, n, dict(case, problem=f'a fragment that has to be rejected records {len(sites)} site(s) and {len(rejects)} rejection reason(s)'))
                    return ctx._chic_site_model
                continue
            if len(sites) != 1 or rejects:
                ctx._chic_site_model = (False, n, dict(case, problem=f'set_site called {len(sites)} times, {len(rejects)} rejection(s)'))
                return ctx._chic_site_model
            kw = dict(sites[0][2])
            for name_, val_ in zip(('site_chrom', 'site_pos', 'site_strand', 'is_trimmed'), sites[0][1]):
                kw[name_] = val_
            trimmed = bool(mx) and mx.startswith('scCHIC')
            anchor_ = (150 + (clip if not noumi else 0)) if rev else (100 - (clip if not noumi else 0))
            want = anchor_ + ((1 if rev else -2) if trimmed else (0 if rev else -1))
            if kw.get('site_pos') != want or kw.get('site_strand') != (rev != inv) or kw.get('site_chrom') != 'chr1' or bool(kw.get('is_trimmed')) != trimmed:
                ctx._chic_site_model = (False, n, dict(case, problem=f'site recorded at {kw.get("site_pos")} on strand {kw.get("site_strand")} (is_trimmed={kw.get("is_trimmed")}), expected {want} on strand {rev != inv} '
                                                                    f'(clip-corrected read start {anchor_}, is_trimmed={trimmed})'))
                return ctx._chic_site_model
    except (Unfoldable, Raised, Exception) as e_:
        ctx._chic_site_model_error = f'{type(e_).__name__}: {str(e_)[:100]}'
        return None
    ctx._chic_site_model = (True, n, None)
    return ctx._chic_site_model


def _chic_model_or_symbolic(ctx, rid, symbolic):
    """as _nla_model_or_symbolic, for the scCHIC obligations"""
    from ..core import Ctx, VIOLATED, UNDECIDED
    sub = Ctx(ctx.ix, 'C09', ctx.tier)
    err = None
    try:
        symbolic(sub)
    except AnalysisError as e_:
        err = e_
    except Exception as e_:
        err = AnalysisError(f'symbolic reading failed ({type(e_).__name__}: {e_})')
    for k_, v_ in sub.counters.items():
        ctx.counters[k_] = (ctx.counters.get(k_, set()) | v_) if isinstance(v_, set) else ctx.counters.get(k_, 0) + v_
    for k_, v_ in getattr(sub, 'exhaustive', {}).items():
        ctx.exhaustive[k_] = v_
    ctx.notes.extend(getattr(sub, 'notes', []))
    open_ = [o for o in sub.obligations if o.status in (VIOLATED, UNDECIDED) and 'scCHIC' in o.construct]
    if err is None and not open_:
        ctx.obligations.extend(sub.obligations)
        return
    m = chic_site_model(ctx)
    if m is None:
        ctx.obligations.extend(sub.obligations)
        if err is not None:
            raise err
        return
    ok, n, wit = m
    f = ctx.fn(FRAG_CHIC, 'CHICFragment.identify_site')
    ctx.counters['interpreted_cases'] = ctx.counters.get('interpreted_cases', 0) + n
    if ok:
        ctx.obligations.extend([o for o in sub.obligations if o not in open_])
        ctx.emit(rid, True, FRAG_CHIC, f, f'scCHIC identify_site interpreted on {n} model fragments (strand x soft clip x cigar processing x layout tag x invert_strand x mate): the recorded site is the clip-corrected read '
                 f'start -2 / +1 (trimmed) or -1 / 0 (untrimmed) on the read strand, misoriented pairs are rejected (the symbolic reading did not follow {len(open_)} construct(s) of the restructured method)',
                 key='scCHIC:site-model')
    else:
        ctx.obligations.extend(sub.obligations)
        ctx.emit(rid, False, FRAG_CHIC, f, f'scCHIC identify_site on a model fragment: {wit.get("problem")} - {({k_: v_ for k_, v_ in wit.items() if k_ != "problem"})}', key='scCHIC:site-model', witness=wit,
                 what='scCHIC identify_site: ' + str(wit.get('problem')))



def _nla_model_or_symbolic(ctx, rid, symbolic):
    """the symbolic reading of identify_site decides; where it cannot follow a restructured method (site offsets that are not constants to it, anchors not found) the
    interpreted model of the method decides the NlaIII obligations instead"""
    from ..core import Ctx, VIOLATED, UNDECIDED
    sub = Ctx(ctx.ix, 'C09', ctx.tier)
    if hasattr(ctx, 'results_nla'):
        sub.results_nla = ctx.results_nla
    err = None
    try:
        symbolic(sub)
    except AnalysisError as e_:
        err = e_
    except Exception as e_:
        err = AnalysisError(f'symbolic reading failed ({type(e_).__name__}: {e_})')
    for k_, v_ in sub.counters.items():
        ctx.counters[k_] = (ctx.counters.get(k_, set()) | v_) if isinstance(v_, set) else ctx.counters.get(k_, 0) + v_
    for k_, v_ in getattr(sub, 'exhaustive', {}).items():
        ctx.exhaustive[k_] = v_
    for attr in ('results_nla',):
        if hasattr(sub, attr):
            setattr(ctx, attr, getattr(sub, attr))
    ctx.notes.extend(getattr(sub, 'notes', []))
    open_ = [o for o in sub.obligations if o.status in (VIOLATED, UNDECIDED) and 'NlaIII' in o.construct and 'set_site-valid' not in o.construct]
    if err is None and not open_:
        ctx.obligations.extend(sub.obligations)
        return
    m = nla_site_model(ctx)
    if m is None:
        ctx.obligations.extend(sub.obligations)
        if err is not None:
            raise err
        return
    ok, n, wit = m
    f = ctx.fn(FRAG_NLA, 'NlaIIIFragment.identify_site')
    ctx.counters['interpreted_cases'] = ctx.counters.get('interpreted_cases', 0) + n
    if ok:
        ctx.obligations.extend([o for o in sub.obligations if o not in open_])
        ctx.emit(rid, True, FRAG_NLA, f, f'NlaIII identify_site interpreted on {n} model reads (strand x soft clip x cigar processing x check_motif x allow_cycle_shift x motif at either end): the recorded site is the '
                 f'clip-corrected read start +0 / -4 (cycle shift -1 / -3), a read without the motif is recorded invalid and rejected (the symbolic reading did not follow {len(open_)} construct(s) of the restructured method)',
                 key='NlaIII:site-model')
    else:
        ctx.obligations.extend(sub.obligations)
        ctx.emit(rid, False, FRAG_NLA, f, f'NlaIII identify_site on a model read: {wit.get("problem")} - {({k_: v_ for k_, v_ in wit.items() if k_ != "problem"})}', key='NlaIII:site-model', witness=wit,
                 what='NlaIII identify_site: ' + str(wit.get('problem')))


@rule('C09', 'C09-R1', 'NlaIII: on every path the site is the clip-corrected read start (+0 forward, -4 reverse; cycle shift -1 / -3), '
                       'derived as linear forms over reference_start/end and the soft-clip lengths')
def r1(ctx):
    _nla_model_or_symbolic(ctx, 'C09-R1', _r1_symbolic)


def _r1_symbolic(ctx):
    space = [('REV', (False, True)), ('NOUMI', (False, True)), ('HEADCLIP', (False, True)), ('TAILCLIP', (False, True))]
    f, res = run_protocol(ctx, FRAG_NLA, 'NlaIIIFragment', {'self.no_overhang': False}, space)
    ctx.info('NlaIII: the no_overhang arm (site found by scanning the reference, data dependent offset) is scoped out by its guard')

    def classify(r):
        pos = [g for g, p in r['guards'] if p]
        if r['valid'] is False:
            return 'fallback'
        if any('allow_cycle_shift' in g for g in pos):
            return 'cycle-shift'
        return 'main'
    ctx.need('C09-R1', len(res), 24, 'set_site events on NlaIII paths')
    check_table(ctx, 'C09-R1', FRAG_NLA, f, res, classify, {'main': (0, -4), 'cycle-shift': (-1, -3), 'fallback': (0, -4)}, 4, 'NlaIII')
    ctx.results_nla = res


@rule('C09', 'C09-R2', 'mirror symmetry: for every arm the reverse offset equals -w - forward offset (w = 4 for the CATG 4-mer, 1 for the MNase base)')
def r2(ctx):
    _nla_model_or_symbolic(ctx, 'C09-R2', lambda sub: _chic_model_or_symbolic(sub, 'C09-R2', _r2_symbolic))


def _r2_symbolic(ctx):
    # emitted by check_table of R1 / R4 under this rule id; here: the motif guards are mirrored too
    f = ctx.fn(FRAG_NLA, 'NlaIIIFragment.identify_site')
    motif = {}
    for s in walk_no_nested(f):
        if isinstance(s, ast.Assign) and isinstance(s.targets[0], ast.Name) and isinstance(s.value, ast.Subscript) and src(s.value.value) == 'R1.seq':
            motif[s.targets[0].id] = src(s.value.slice)
    fw = [k for k, v in motif.items() if v == ':4']
    rv = [k for k, v in motif.items() if v == '-4:']
    ok = len(fw) == 1 and len(rv) == 1
    ctx.emit('C09-R2', ok, FRAG_NLA, f, f'motif windows: forward {fw} = R1.seq[:4], reverse {rv} = R1.seq[-4:]' if ok else f'motif windows not mirrored: {motif}', key='NlaIII:motif-windows')
    if not ok:
        return
    fwn, rvn = fw[0], rv[0]
    # decision table of the arm selection: for each strand and every valuation of (check_motif, allow_cycle_shift, full motif at the start
    # of either window, shifted motif at either window) the arm taken - read off the recorded site (offset from the anchor, valid flag) -
    # must be: main iff (motif not checked or the OWN strand's window shows CATG); else cycle-shift iff allowed and the OWN strand's window
    # shows the shifted motif; else fallback.  The forward strand looks at the forward window only and vice versa.
    space = [('REV', (False, True)), ('NOUMI', (True,)), ('HEADCLIP', (False,)), ('TAILCLIP', (False,)),
             ('CHK', (False, True)), ('SHIFT', (False, True)), ('FC', (False, True)), ('RC', (False, True)), ('FA', (False, True)), ('RA', (False, True))]
    extra = {'self.no_overhang': False, 'self.check_motif': 'CHK', 'self.allow_cycle_shift': 'SHIFT',
             f"{fwn} == 'CATG'": 'FC', f"{rvn} == 'CATG'": 'RC', f"{fwn}.startswith('ATG')": 'FA', f"{rvn}.endswith('CAT')": 'RA'}
    f2, res = run_protocol(ctx, FRAG_NLA, 'NlaIIIFragment', extra, space, negations=True)
    by = {}
    for r in res:
        a_ = r['atoms']
        if (a_['FC'] and a_['FA']) or (a_['RC'] and a_['RA']):
            continue        # CATG neither starts with ATG nor ends with CAT
        off = r['site'] - anchor(a_) if isinstance(r['site'], Lin) else None
        arm = 'fallback' if r['valid'] is False else {('0', False): 'main', ('-4', True): 'main', ('-1', False): 'cycle-shift', ('-3', True): 'cycle-shift'}.get((str(off) if off is not None else None, a_['REV']), f'?{off}')
        by.setdefault(tuple(sorted(a_.items())), set()).add(arm)
    wrong = {}
    n = 0
    for key, arms in by.items():
        a_ = dict(key)
        own_full, own_shift = (a_['RC'], a_['RA']) if a_['REV'] else (a_['FC'], a_['FA'])
        want = 'main' if (not a_['CHK'] or own_full) else 'cycle-shift' if (a_['SHIFT'] and own_shift) else 'fallback'
        n += 1
        if arms != {want}:
            wrong.setdefault((want, a_['REV']), []).append((a_, sorted(arms)))
    ctx.counters['abstract_cases'] += n
    if n < 72:
        raise AnalysisError(f'C09-R2: only {n} arm-selection cases were evaluated (idiom not recognised)')
    for key in ((False, False), (False, True), (True, False), (True, True)):
        want = 'cycle-shift' if key[0] else 'main'
        w_ = wrong.get((want, key[1]), []) + ([] if key[0] else []) 
        # cases that must NOT take this arm but do are reported under the arm they wrongly take
        also = [(a_, arms) for (wa, rv_), lst in wrong.items() for a_, arms in lst if rv_ == key[1] and want in arms and wa != want]
        bad = w_ + also
        strand = 'reverse' if key[1] else 'forward'
        ctx.emit('C09-R2', not bad, FRAG_NLA, f, f'{want} arm, {strand} strand: taken exactly when the {strand} window shows the {"shifted" if key[0] else "full"} motif' + ('' if not key[0] else ' and cycle shift is allowed') if not bad
                 else f'{want} arm, {strand} strand: selection is not the mirrored motif test: case { {k: v for k, v in bad[0][0].items() if k in ("CHK", "SHIFT", "FC", "RC", "FA", "RA")} } takes {bad[0][1]}',
                 key=f'NlaIII:guard-mirror:{key}', witness={'case': bad[0][0], 'arms': bad[0][1]} if bad else None, what='NlaIII: motif test of one strand is not the mirror image of the other strand')
    fbad = wrong.get(('fallback', False), []) + wrong.get(('fallback', True), [])
    fbad = [x for x in fbad if x[1] not in (['main'], ['cycle-shift'])]
    ctx.emit('C09-R2', not fbad, FRAG_NLA, f, f'arm selection decided on {n} cases; the fallback is taken exactly when neither arm applies', key='NlaIII:check-motif-symmetric', nontrivial=False)
    ctx.exhaustive['C09-R2'] = True


@rule('C09', 'C09-R3', 'a fragment without the motif at its start is rejected, not assigned a site: on the fallback path the site is '
                       'recorded with valid=False, the method returns None and found_valid_site stays False')
def r3(ctx):
    _nla_model_or_symbolic(ctx, 'C09-R3', _r3_symbolic)


def _r3_symbolic(ctx):
    space = [('REV', (False, True)), ('NOUMI', (False,)), ('HEADCLIP', (False,)), ('TAILCLIP', (False,))]
    f, res = run_protocol(ctx, FRAG_NLA, 'NlaIIIFragment', {'self.no_overhang': False, 'self.check_motif': True, 'not self.check_motif': False,
                                                           "forward_motif == 'CATG'": False, "rev_motif == 'CATG'": False, 'self.allow_cycle_shift': False}, space)
    n = 0
    bad = []
    for r in res:
        n += 1
        ret = r['returned']
        if r['valid'] is not False or ret is None or ret[1] != 'None':
            bad.append(r)
    ctx.emit('C09-R3', n >= 2 and not bad, FRAG_NLA, f, f'{n} paths with the motif test failing (check_motif on, no cycle shift): ' +
             ('site recorded with valid=False and None returned' if not bad else f'a site is assigned/returned: valid={bad[0]["valid"]}, returns {bad[0]["returned"]}'),
             key='NlaIII:reject-without-motif', what='NlaIII: fragment without CATG is assigned a valid site')
    ss = ctx.fn(FRAG_NLA, 'NlaIIIFragment.set_site')
    vp = 'valid'
    pos_p = ss.args.args[2].arg
    sem = _set_site_by_interpretation(ss)
    if sem is not None:
        ctx.emit('C09-R3', sem[0], FRAG_NLA, ss, 'set_site (interpreted): valid=False leaves found_valid_site False and writes no DS tag; valid=True sets both' if sem[0] else f'set_site (interpreted): {sem[1]}',
                 key='NlaIII:set_site-valid')
        first = f.body[0]
        ctx.emit('C09-R3', src(first) == 'self.found_valid_site = False', FRAG_NLA, first, 'identify_site starts from found_valid_site = False', key='NlaIII:initial-invalid', nontrivial=False)
        st = {r['strand_src'] for r in getattr(ctx, 'results_nla', [])} or {None}
        ctx.emit('C09-R3', st == {'R1.is_reverse'}, FRAG_NLA, f, f'site strand argument on all NlaIII paths: {sorted(map(str, st))}', key='NlaIII:strand-arg', nontrivial=False)
        return
    ok = True
    for valid in (True, False):
        rs = [r for r in explore(ss.body, mk_atoms({vp: valid})) if r['kind'] in ('fall', 'return')]
        for r in rs:
            fv = [v for t, v, k in r['stores'] if t == 'self.found_valid_site']
            ds = [c for c in r['calls'] if c.replace('"', "'").startswith("self.set_meta('DS'")]
            if valid:
                ok = ok and fv[-1:] == ['True'] and len(ds) == 1 and ds[0].replace('"', "'") == f"self.set_meta('DS', {pos_p})"
            else:
                ok = ok and fv[-1:] in ([], ['False']) and not ds
        ok = ok and bool(rs)
    ctx.emit('C09-R3', ok, FRAG_NLA, ss, 'set_site: valid=False leaves found_valid_site False and writes no DS tag; valid=True sets both', key='NlaIII:set_site-valid')
    first = f.body[0]
    ctx.emit('C09-R3', src(first) == 'self.found_valid_site = False', FRAG_NLA, first, 'identify_site starts from found_valid_site = False', key='NlaIII:initial-invalid', nontrivial=False)
    # strand passed is the read strand
    st = {r['strand_src'] for r in getattr(ctx, 'results_nla', [])} or {None}
    ctx.emit('C09-R3', st == {'R1.is_reverse'}, FRAG_NLA, f, f'site strand argument on all NlaIII paths: {sorted(map(str, st))}', key='NlaIII:strand-arg', nontrivial=False)


@rule('C09', 'C09-R4', 'scCHIC: the site is the base adjacent to the ligated overhang: trimmed layout anchor -2 / +1, untrimmed -1 / 0 '
                       '(forward / reverse), independent of invert_strand; only the reported strand is inverted')
def r4(ctx):
    _chic_model_or_symbolic(ctx, 'C09-R4', _r4_symbolic)


def _r4_symbolic(ctx):
    space = [('REV', (False, True)), ('NOUMI', (False, True)), ('HEADCLIP', (False, True)), ('TAILCLIP', (False, True)), ('TRIM', (False, True)), ('INV', (False, True))]
    f, res = run_protocol(ctx, FRAG_CHIC, 'CHICFragment', {'is_trimmed': 'TRIM', 'self.invert_strand': 'INV', 'self.has_R2()': False}, space)
    ctx.need('C09-R4', len(res), 64, 'set_site events on CHIC paths')

    def classify(r):
        return 'trimmed' if r['atoms']['TRIM'] else 'untrimmed'
    check_table(ctx, 'C09-R4', FRAG_CHIC, f, res, classify, {'trimmed': (-2, 1), 'untrimmed': (-1, 0)}, 1, 'scCHIC')
    # invert_strand must not move the site
    by = {}
    for r in res:
        k = tuple(sorted((kk, v) for kk, v in r['atoms'].items() if kk != 'INV'))
        by.setdefault(k, {})[r['atoms']['INV']] = str(r['site'])
    dep = [k for k, v in by.items() if len(set(v.values())) > 1]
    ctx.emit('C09-R4', not dep, FRAG_CHIC, f, 'the scCHIC site coordinate does not depend on invert_strand' if not dep else
             f'the site coordinate changes with invert_strand for {dict(dep[0])}: {by[dep[0]]}', key='scCHIC:site-independent-of-invert', what='scCHIC: invert_strand moves the site coordinate')
    # strand: not REV if INV else REV
    bad = [r for r in res if r['strand'] not in (True, False) or r['strand'] != ((not r['atoms']['REV']) if r['atoms']['INV'] else r['atoms']['REV'])]
    ctx.emit('C09-R4', not bad, FRAG_CHIC, f, 'reported strand is the read strand, inverted iff invert_strand' if not bad else f'strand argument wrong for {bad[0]["atoms"]}: {bad[0]["strand"]}',
             key='scCHIC:strand')
    # trimmed / untrimmed relation: untrimmed = trimmed shifted one base into the read
    ctx.exhaustive['C09-R4'] = True


@rule('C09', 'C09-R7', 'scCHIC paired-end acceptance is strand symmetric: whatever an inward pair must satisfy besides its orientation on one strand is the mirror '
                       'image (start <-> end, order reversed) of what it must satisfy on the other strand')
def r7(ctx):
    f = ctx.fn(FRAG_CHIC, 'CHICFragment.identify_site')
    top = f

    def canon(c_, pol, mirror=False):
        """canonical form of a coordinate comparison taken with polarity pol: (linear form d, strict) meaning d > 0 / d >= 0"""
        if not (isinstance(c_, ast.Compare) and len(c_.ops) == 1 and isinstance(c_.ops[0], (ast.Lt, ast.LtE, ast.Gt, ast.GtE))):
            return None
        l_, r_ = linform(c_.left), linform(c_.comparators[0])
        op = type(c_.ops[0])
        if not pol:
            op = {ast.Lt: ast.GtE, ast.LtE: ast.Gt, ast.Gt: ast.LtE, ast.GtE: ast.Lt}[op]
        d = (r_ - l_) if op in (ast.Lt, ast.LtE) else (l_ - r_)
        strict = op in (ast.Lt, ast.Gt)
        if mirror:
            swap = {}
            for k_, v_ in d.coef.items():
                k2 = k_.replace('reference_start', '\0').replace('reference_end', 'reference_start').replace('\0', 'reference_end')
                swap[k2] = -v_
            d = Lin(swap, -d.const)
        return (str(d), strict)
    rejected = {}
    undecided = None
    for rev in (True, False):
        facts = {'R1.is_reverse': rev, 'R2.is_reverse': not rev, 'self.get_R2().is_reverse': not rev, 'self.has_R2()': True, 'R2.is_unmapped': False, 'self.get_R2().is_unmapped': False,
                 'R1.is_unmapped': False, 'R1 is None': False, 'self.R2_primer_length': 0}
        atoms = dict(facts)
        for k_, v_ in list(facts.items()):
            if isinstance(v_, bool):
                atoms[f'not {k_}'] = not v_
        se = SymExec(atoms, SYMBOLS, record=('set_rejection_reason',))
        paths = set()
        for st in se.run(f.body):
            if not any(name == 'set_rejection_reason' and str(args.get(0)).strip("'\"") .endswith('orientation') or 'orientation' in str(args.get('src:0', '')) or 'orientation' in str(args)
                       for name, args, guards, line in st.events):
                continue
            conj = set()
            for gtxt, pol in st.guards:
                try:
                    gt = ast.parse(gtxt, mode='eval').body
                except SyntaxError:
                    undecided = gtxt
                    continue
                parts = gt.values if isinstance(gt, ast.BoolOp) and isinstance(gt.op, ast.And) else [gt]
                res = []
                for p_ in parts:
                    v = eval3(p_, {}, lambda e: atoms.get(src(e), UNK))
                    if v is UNK:
                        res.append(p_)
                if not res:
                    continue
                if len([x for x in res if any(a_ in src(x) for a_ in ('reference_start', 'reference_end'))]) > 1 and not pol:
                    undecided = gtxt
                    continue
                for p_ in res:
                    c_ = canon(p_, pol, mirror=rev)
                    if c_ is None:
                        # a test that is not a coordinate comparison (a tag, an option) does not distinguish the strands
                        if any(a_ in src(p_) for a_ in ('reference_start', 'reference_end', 'is_reverse')):
                            undecided = src(p_)
                    else:
                        conj.add(c_)
            paths.add(frozenset(conj))
        rejected[rev] = paths
    if undecided:
        ctx.emit('C09-R7', False, FRAG_CHIC, top, f'the rejection of an inward pair depends on `{undecided[:60]}` (not a coordinate comparison; not decided)', key='scCHIC:orientation-symmetric', undecided=True)
        return
    ok = rejected[True] == rejected[False]
    if ok:
        why = 'an inward pair is accepted on its orientation alone, on both strands' if not rejected[True] else f'inward pairs are rejected under mirror-image conditions on the two strands: {sorted(map(sorted, rejected[False]))}'
    else:
        why = (f'an inward pair is rejected under conditions that are not mirror images of each other: reverse R1 (mirrored) {sorted(map(sorted, rejected[True]))}, forward R1 {sorted(map(sorted, rejected[False]))}: '
               'one orientation of a fragment is rejected where its mirror image is accepted')
    ctx.emit('C09-R7', ok, FRAG_CHIC, top, 'scCHIC orientation test: ' + why, key='scCHIC:orientation-symmetric', what='scCHIC: paired-end acceptance differs between the two strands')
    # a mate that did not map has no orientation: its strand flag is whatever the aligner left there.  Whether a fragment with an unmapped second mate is
    # refused for its orientation must not depend on the strand of read 1 nor on that flag (else one strand loses the sites its mirror image keeps)
    verdicts = {}
    for rev in (True, False):
        for flag in (True, False):
            facts = {'R1.is_reverse': rev, 'R2.is_reverse': flag, 'self.get_R2().is_reverse': flag, 'self.has_R2()': True, 'R2.is_unmapped': True, 'self.get_R2().is_unmapped': True,
                     'R1.is_unmapped': False, 'R1 is None': False, 'self.R2_primer_length': 0, 'R1.is_reverse == R2.is_reverse': rev == flag, 'R1.is_reverse != R2.is_reverse': rev != flag,
                     'R2.is_reverse == R1.is_reverse': rev == flag, 'R2.is_reverse != R1.is_reverse': rev != flag}
            atoms = dict(facts)
            for k_, v_ in list(facts.items()):
                atoms[f'not {k_}'] = not v_
            se = SymExec(atoms, SYMBOLS, record=('set_rejection_reason',))
            hit = False
            for st in se.run(f.body):
                if any(name == 'set_rejection_reason' and 'orientation' in str(args) for name, args, guards, line in st.events):
                    # only count it when no undecided coordinate guard stands before it
                    hit = True
            verdicts[(rev, flag)] = hit
    same = len(set(verdicts.values())) == 1
    ctx.emit('C09-R7', same, FRAG_CHIC, top, 'scCHIC, second mate unmapped: ' + ('the orientation test ' + ('never' if not any(verdicts.values()) else 'always') + ' refuses the fragment, whatever strand read 1 is on'
             if same else f'the orientation test refuses the fragment for (read 1 reverse, strand flag of the unmapped mate) in {sorted(k for k, v in verdicts.items() if v)} but not in '
             f'{sorted(k for k, v in verdicts.items() if not v)}: with the usual flag (forward) only forward fragments lose their site'), key='scCHIC:unmapped-mate-symmetric',
             what='scCHIC: a fragment with an unmapped mate is refused on one strand only')


@rule('C09', 'C09-R8', 'a cut site at coordinate 0 is a site: where the result of identify_site() decides by its truth value whether the fragment is valid, every '
                       'accepting return hands back something that is truthy for every coordinate (a non-empty tuple, True) - never the bare coordinate')
def r8(ctx):
    n = 0
    for rel, cls in ((FRAG_NLA, 'NlaIIIFragment'), (FRAG_CHIC, 'CHICFragment')):
        m = ctx.ix.module(rel)
        init = m.defs.get(f'{cls}.__init__', [None])[0]
        ident = m.defs.get(f'{cls}.identify_site', [None])[0]
        if init is None or ident is None:
            continue
        # is the result used as a truth value?
        tested = []
        for t in walk_no_nested(init):
            if isinstance(t, (ast.If, ast.While, ast.IfExp)):
                for c in ast.walk(t.test):
                    if isinstance(c, ast.Call) and src(c.func) == 'self.identify_site':
                        par_cmp = any(isinstance(p_, ast.Compare) and any(c is x for x in ast.walk(p_)) for p_ in ast.walk(t.test))
                        if not par_cmp:
                            tested.append(t)
        ncalls = sum(1 for c in walk_no_nested(init) if isinstance(c, ast.Call) and src(c.func) == 'self.identify_site')
        n += 1 if ncalls else 0
        if not tested:
            if ncalls:
                ctx.emit('C09-R8', True, rel, init, f'{cls}.__init__ does not use the result of identify_site() as a truth value', key=f'site-zero-is-a-site:{cls}', nontrivial=False)
            continue
        env = {}
        for a in walk_no_nested(ident):
            if isinstance(a, ast.Assign) and len(a.targets) == 1 and isinstance(a.targets[0], ast.Name):
                env.setdefault(a.targets[0].id, []).append(a.value)
        bad, unsure = [], []
        for r in [x for x in walk_no_nested(ident) if isinstance(x, ast.Return) and x.value is not None]:
            vals = [r.value]
            if isinstance(r.value, ast.Name):
                vals = env.get(r.value.id, [r.value])
            for v in vals:
                if isinstance(v, ast.Constant) and (v.value is None or v.value is False or v.value is True):
                    continue
                if isinstance(v, ast.Tuple) and v.elts:
                    continue
                lf = linform(v)
                if lf is not None and (lf.coef or isinstance(v, (ast.BinOp, ast.Name))):
                    bad.append((r, v))
                else:
                    unsure.append((r, v))
        for r, v in bad[:1]:
            ctx.emit('C09-R8', False, rel, r, f'{cls}.identify_site returns the coordinate `{src(v)}` and {cls}.__init__ tests the result for truth: a site at reference coordinate 0 counts as '
                     f'"no site", the fragment is rejected and never deduplicated', key=f'site-zero-is-a-site:{cls}', what=f'{cls}: cut site at coordinate 0 is treated as missing')
        if not bad:
            ctx.emit('C09-R8', not unsure, rel, ident, f'{cls}: the accepting returns of identify_site are truthy for every coordinate' if not unsure else
                     f'{cls}.identify_site returns `{src(unsure[0][1])[:50]}`, truthiness for coordinate 0 not decided', key=f'site-zero-is-a-site:{cls}', undecided=bool(unsure))
    ctx.need('C09-R8', n, 1, 'fragment constructors that call identify_site()')


@rule('C09', 'C09-R9', 'the site is recorded as computed: set_site writes the position it is given into the DS tag, the site location and the match hash - the '
                       'parameter is not rebound (clamped, rounded) on the way, which would move sites at a contig border on one strand only')
def r9(ctx):
    n = 0
    for rel, cls in ((FRAG_CHIC, 'CHICFragment'), (FRAG_NLA, 'NlaIIIFragment'), (P + 'fragment/fragment.py', 'Fragment')):
        if not ctx.ix.exists(rel):
            continue
        for f in ctx.ix.module(rel).defs.get(f'{cls}.set_site', []):
            n += 1
            par = [a.arg for a in f.args.args + f.args.kwonlyargs if 'pos' in a.arg]
            if not par:
                ctx.emit('C09-R9', False, rel, f, f'{cls}.set_site: position parameter not found', key=f'site-recorded:{cls}', undecided=True)
                continue
            pp = par[0]
            reb = [st for st in walk_no_nested(f) if isinstance(st, (ast.Assign, ast.AugAssign)) and any(isinstance(x, ast.Name) and x.id == pp and isinstance(x.ctx, ast.Store)
                   for t in (st.targets if isinstance(st, ast.Assign) else [st.target]) for x in ast.walk(t))]
            ds = [c for c in walk_no_nested(f) if isinstance(c, ast.Call) and isinstance(c.func, ast.Attribute) and c.func.attr == 'set_meta' and c.args and src(c.args[0]) == "'DS'"]
            wrong = [c for c in ds if len(c.args) < 2 or src(c.args[1]) != pp]
            if reb:
                ctx.emit('C09-R9', False, rel, reb[0], f'{cls}.set_site rebinds its position: `{src(reb[0])[:60]}` - the recorded site is no longer the computed one (a clamp moves negative sites of forward reads at '
                         f'the contig start, their mirror images at the contig end stay put)', key=f'site-recorded:{cls}', what=f'{cls}.set_site alters the site position')
            elif wrong:
                ctx.emit('C09-R9', False, rel, wrong[0], f'{cls}.set_site writes `{src(wrong[0])[:60]}` to DS, not the position it was given', key=f'site-recorded:{cls}', what=f'{cls}.set_site: DS is not the given position')
            else:
                ctx.emit('C09-R9', True, rel, f, f'{cls}.set_site records `{pp}` unmodified ({len(ds)} DS store(s))', key=f'site-recorded:{cls}')
    ctx.need('C09-R9', n, 2, 'set_site methods')


@rule('C09', 'C09-R10', 'a scCHIC molecule anchors on its outer-most fragment on BOTH strands: when a fragment joins, the molecule site moves to the smaller coordinate for '
                        'forward and to the larger coordinate for reverse fragments (mirror images); one rule for both strands groups mirrored fragment sets differently')
def r10(ctx):
    rel = P + 'molecule/chic.py'
    f = ctx.fn(rel, 'CHICMolecule._add_fragment')
    frag = f.args.args[1].arg
    res = {}
    for rev in (True, False):
        facts = {f'{frag}.strand': rev, 'self.site_location is None': False, f'{frag}.site_location is not None': True, f'{frag}.site_location is None': False,
                 'self.site_location is not None': True, f'{frag}.is_reverse()': rev}
        outs = set()
        for r in explore(f.body, mk_atoms(facts), names=None):
            st = [(t, v) for t, v, k in r['stores'] if t.replace(' ', '') == 'self.site_location[1]']
            # a function picked into a local (`pick = max if reverse else min`) is that function
            fn_alias = {k_: src(v_) for k_, v_ in (r['env'] or {}).items() if isinstance(v_, ast.Name) and v_.id in ('min', 'max')}
            vals = []
            for t, v in st:
                e_ = ast.parse(v, mode='eval').body
                if isinstance(e_, ast.Call) and isinstance(e_.func, ast.Name) and e_.func.id in fn_alias:
                    e_.func = ast.Name(id=fn_alias[e_.func.id], ctx=ast.Load())
                    v = src(e_)
                vals.append(v)
            outs.add(tuple(vals))
        res[rev] = outs

    def kind(v):
        e = ast.parse(v, mode='eval').body
        if isinstance(e, ast.Call) and isinstance(e.func, ast.Name) and e.func.id in ('min', 'max') and len(e.args) == 2:
            a = {src(x).replace(' ', '') for x in e.args}
            if a == {f'{frag}.site_location[1]', 'self.site_location[1]'}:
                return e.func.id
        return None
    ok = True
    detail = {}
    undec = False
    for rev, want in ((True, 'max'), (False, 'min')):
        ks = set()
        for o in res[rev]:
            if len(o) != 1:
                ks.add(None if o else 'no update')
            else:
                ks.add(kind(o[0]))
        detail['reverse' if rev else 'forward'] = sorted(str(k) for k in ks)
        if ks != {want}:
            ok = False
            if None in ks:
                undec = True
    ctx.emit('C09-R10', ok, rel, f, f'molecule site update: {detail} (required: forward -> min, reverse -> max of the fragment and molecule site)', key='molecule-site-mirror',
             undecided=undec and not ok, witness=detail if not ok else None, what='CHICMolecule._add_fragment: molecule site update is not mirror symmetric')
    # the site the deduplicated reads share (DS rewritten by the molecule when a radius is in use) is that anchor, not the site of whichever fragment came first
    w = ctx.fn(rel, 'CHICMolecule.write_tags')
    cls = ctx.ix.cls(rel, 'CHICMolecule')
    own = {m.name: m for m in cls.body if isinstance(m, ast.FunctionDef)}
    stores = [c for c in walk_no_nested(w) if isinstance(c, ast.Call) and isinstance(c.func, ast.Attribute) and c.func.attr == 'set_meta' and c.args and isinstance(c.args[0], ast.Constant)
              and c.args[0].value == 'DS' and len(c.args) > 1]
    ctx.need('C09-R10', len(stores), 1, 'DS stores of CHICMolecule.write_tags')

    def anchor_getter():
        g = own.get('get_cut_site')
        if g is None:
            return None
        rets = [r_ for r_ in walk_no_nested(g) if isinstance(r_, ast.Return) and r_.value is not None]
        if len(rets) == 1 and isinstance(rets[0].value, ast.Tuple):
            el = [src(e_) for e_ in rets[0].value.elts]
            if el[:1] == ['*self.site_location'] or el[:2] == ['self.site_location[0]', 'self.site_location[1]']:
                return True
        return False
    for c in stores:
        v = c.args[1]
        text = src(v).replace(' ', '')
        origin = None
        if isinstance(v, ast.Name):
            for a_ in walk_no_nested(w):
                if isinstance(a_, ast.Assign) and len(a_.targets) == 1:
                    t_ = a_.targets[0]
                    if isinstance(t_, ast.Name) and t_.id == v.id:
                        origin = src(a_.value).replace(' ', '')
                    elif isinstance(t_, ast.Tuple) and len(t_.elts) == 3 and isinstance(t_.elts[1], ast.Name) and t_.elts[1].id == v.id:
                        origin = src(a_.value).replace(' ', '') + '[1]'
        text = origin or text
        if text == 'self.site_location[1]':
            ctx.emit('C09-R10', True, rel, c, 'the DS tag shared by the reads of a molecule is the molecule anchor self.site_location[1]', key='molecule-DS-is-anchor')
        elif text == 'self.get_cut_site()[1]':
            ag = anchor_getter()
            if ag is None:
                ctx.emit('C09-R10', False, rel, c, 'CHICMolecule.write_tags takes DS from self.get_cut_site(), and CHICMolecule has no get_cut_site of its own: the base method returns the site of the '
                         'FIRST fragment, not the outer-most one the molecule is anchored on - the shared DS depends on arrival order and differs between a cut and its mirror image',
                         key='molecule-DS-is-anchor', what='CHICMolecule.write_tags: the shared DS tag is the site of the first fragment, not the molecule anchor')
            elif ag:
                ctx.emit('C09-R10', True, rel, c, 'the DS tag shared by the reads is taken from CHICMolecule.get_cut_site(), which returns the anchor self.site_location', key='molecule-DS-is-anchor')
            else:
                ctx.emit('C09-R10', False, rel, c, 'CHICMolecule.get_cut_site is not recognised as returning the anchor', key='molecule-DS-is-anchor', undecided=True)
        else:
            ctx.emit('C09-R10', False, rel, c, f'the DS value `{text[:80]}` written by CHICMolecule.write_tags is not recognised as the molecule anchor', key='molecule-DS-is-anchor', undecided=True)


@rule('C09', 'C09-R11', 'the options the site code reads are the ones the caller gave: every constructor parameter of NlaIIIFragment / CHICFragment that a method of the class reads as '
                        '`self.<name>` is stored from that parameter in the constructor, or forwarded under its name to the base constructor which stores it')
def r11(ctx):
    from .slots import FRAGMENT
    base = ctx.ix.module(FRAGMENT)
    bdef = ctx.fn(FRAGMENT, 'Fragment.__init__')
    bparams = {a.arg for a in bdef.args.args + bdef.args.kwonlyargs}

    def stored(init, name):
        for st in walk_no_nested(init):
            if isinstance(st, (ast.Assign, ast.AnnAssign)) and st.value is not None:
                ts = st.targets if isinstance(st, ast.Assign) else [st.target]
                if any(src(t) == f'self.{name}' for t in ts) and name in names_in(st.value):
                    return True
        return False
    n = 0
    for rel, cls in ((FRAG_NLA, 'NlaIIIFragment'), (FRAG_CHIC, 'CHICFragment')):
        mod = ctx.ix.module(rel)
        init = ctx.fn(rel, f'{cls}.__init__')
        params = [a.arg for a in init.args.args + init.args.kwonlyargs][1:]
        reads = set()
        for q, ds in mod.defs.items():
            if q.startswith(cls + '.') and not q.endswith('.__init__'):
                for x in ast.walk(ds[-1]):
                    if isinstance(x, ast.Attribute) and isinstance(x.ctx, ast.Load) and isinstance(x.value, ast.Name) and x.value.id == 'self':
                        reads.add(x.attr)
        supers = [c for c in walk_no_nested(init) if isinstance(c, ast.Call) and isinstance(c.func, ast.Attribute) and c.func.attr == '__init__']
        for p_ in params:
            if p_ not in reads:
                continue
            n += 1
            fwd = False
            border = [a.arg for a in bdef.args.args]
            for c in supers:
                pos = list(c.args)
                offset = 0 if (pos and isinstance(pos[0], ast.Name) and pos[0].id == 'self') else 1       # Fragment.__init__(self, ...) or super().__init__(...)
                for i, a in enumerate(pos):
                    if p_ in names_in(a) and i + offset < len(border) and stored(bdef, border[i + offset]):
                        fwd = True
                for k in c.keywords:
                    if k.arg is not None and p_ in names_in(k.value) and k.arg in bparams and stored(bdef, k.arg):
                        fwd = True
            ok = stored(init, p_) or fwd
            ctx.emit('C09-R11', ok, rel, init, f'{cls}: option `{p_}` reaches self.{p_}' + (' (stored in the constructor)' if stored(init, p_) else ' (forwarded to Fragment.__init__)' if fwd else
                     f': the constructor neither stores it nor forwards it - {cls}(..., {p_}=<value>) leaves self.{p_} at whatever the base class sets, and the site is computed with that'),
                     key=f'{cls}:option-stored:{p_}', witness={'constructor call': f'{cls}(reads, {p_}=<non-default>)', f'self.{p_}': 'base-class default'} if not ok else None,
                     what=f'{cls}: constructor option {p_} does not reach the site code')
    ctx.need('C09-R11', n, 4, 'constructor options read by the site code')


META = {
    'text': ('Decides, by path-forking symbolic execution of identify_site over every combination of strand, soft-clip presence and '
             'no_umi_cigar_processing (and layout / invert_strand for scCHIC): the site passed to set_site is, as a linear form, the clip-corrected '
             'read start with the protocol offset (NlaIII 0 / -4, cycle shift -1 / -3; scCHIC trimmed -2 / +1, untrimmed -1 / 0); forward and reverse '
             'offsets satisfy rev = -w - fwd (mirror symmetry); motif guards of the two strands are mirror images; without the motif the site is '
             'recorded invalid and None is returned; the scCHIC coordinate does not depend on invert_strand. pysam clip identities '
             '(query_alignment_start etc.) are part of the symbol table. Does NOT decide agreement with a simulated genome or aligner clipping behaviour; '
             'the NlaIII no_overhang arm is scoped out by its guard.'),
    'technique': 'static analysis: path-forking symbolic execution with linear forms over alignment coordinates, exhaustive enumeration of boolean atoms, mirror-symmetry and table comparison; small-scope abstract execution of NlaIII identify_site / set_site on model reads (strand x clip x options x motif at either end) where the symbolic reading cannot follow, likewise of CHICFragment.identify_site on 256 model fragments; def-use of constructor options through the class hierarchy',
    'design_ref': 'DESIGN.md section 5, C09',
}


from . import shared as _shared
_shared.register('C09', 'C09')
