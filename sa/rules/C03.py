"""C03 - barcode correction assigns the unique nearest whitelisted barcode or nothing (clause-level structural checks)."""
import ast

from ..core import rule
from ..index import AnalysisError, dotted, src, walk_no_nested, names_in
from ..cfg import CFG, eval3, UNK
from ..domains import check_pred, linform, Lin, assignments, eval_pred
from ..util import node_calls, pred_is, cfg_nodes_containing, explore, mk_atoms, enclosing_loops, last_name, own_expr
from .slots import BARCODEPARSER

CLS = 'BarcodeParser'


def _streaming_minimum(ctx, f, l, key):
    """The other way to find `the unique closest origin`: keep the closest candidate seen so far per sequence plus a set of sequences whose
    closest distance is shared by two origins.  Decided as a typestate per sequence: state (absent | unique(d) | tied(d)), event = a new
    candidate at distance d' (<, ==, > d).  The bookkeeping is correct iff  absent -> unique;  d' < d -> unique(d') from either state;
    d' == d -> tied;  d' > d -> unchanged;  and the resolution loop registers exactly the sequences that are not tied."""
    # the fill: innermost loop over hamming_circle(...) storing into the table
    fills = [x for x in walk_no_nested(f) if isinstance(x, ast.For) and isinstance(x.iter, ast.Call) and last_name(src(x.iter.func)) == 'hamming_circle' and isinstance(x.target, ast.Name)]
    if len(fills) != 1:
        return False
    fl = fills[0]
    inst = fl.target.id
    st_ = [s_ for s_ in walk_no_nested(fl) if isinstance(s_, ast.Assign) and len(s_.targets) == 1 and isinstance(s_.targets[0], ast.Subscript)
           and src(s_.targets[0]) == f'hammingSpace[{inst}]' and isinstance(s_.value, ast.Tuple) and len(s_.value.elts) == 2]
    cur = [s_ for s_ in fl.body if isinstance(s_, ast.Assign) and len(s_.targets) == 1 and isinstance(s_.targets[0], ast.Name) and src(s_.value) == f'hammingSpace.get({inst})']
    if not st_ or len(cur) != 1:
        return False
    cv = cur[0].targets[0].id
    dist, origin = src(st_[0].value.elts[0]), src(st_[0].value.elts[1])
    sets = {src(c.func.value) for c in walk_no_nested(fl) if isinstance(c, ast.Call) and isinstance(c.func, ast.Attribute) and c.func.attr == 'add' and [src(a) for a in c.args] == [inst]}
    if len(sets) != 1:
        return False
    tied = sets.pop()
    bad = []
    n = 0
    for present, rel in ((False, None), (True, '<'), (True, '=='), (True, '>')):
        facts = {f'{cv} is None': not present, f'{cv} is not None': present, f'{inst} in hammingSpace': present, f'{inst} not in hammingSpace': not present}
        if present:
            facts.update({f'{dist} < {cv}[0]': rel == '<', f'{dist} <= {cv}[0]': rel in ('<', '=='), f'{dist} == {cv}[0]': rel == '==', f'{dist} != {cv}[0]': rel != '==',
                          f'{cv}[0] < {dist}': rel == '>', f'{cv}[0] <= {dist}': rel in ('>', '=='), f'{cv}[0] == {dist}': rel == '=='})
        for intied in ((False,) if not present else (False, True)):
            facts2 = dict(facts, **{f'{inst} in {tied}': intied, f'{inst} not in {tied}': not intied})
            n += 1
            for r in explore(fl.body, mk_atoms(facts2)):
                if r['kind'] not in ('fall', 'continue'):
                    continue
                stored = any(t == f'hammingSpace[{inst}]' for t, v, k_ in r['stores'])
                now_tied = intied
                for c in r['calls']:
                    if c == f'{tied}.add({inst})':
                        now_tied = True
                    elif c in (f'{tied}.discard({inst})', f'{tied}.remove({inst})'):
                        now_tied = False
                want_store = (not present) or rel == '<'
                want_tied = False if (not present or rel == '<') else True if rel == '==' else intied
                if stored != want_store and not (rel == '==' and stored):
                    bad.append(f'{"absent" if not present else "stored distance " + {"<": "larger", "==": "equal", ">": "smaller"}[rel]}: candidate is {"" if stored else "not "}stored')
                if now_tied != want_tied:
                    bad.append(f'new candidate {"first" if not present else rel + " stored distance"}, sequence {"was" if intied else "was not"} marked tied: it is {"" if now_tied else "not "}marked tied afterwards '
                               f'(expected {"tied" if want_tied else "not tied"})')
    ctx.counters['abstract_cases'] += n
    ctx.emit('C03-R1', not bad, BARCODEPARSER, st_[0], f'closest-candidate bookkeeping over {n} (state, event) cases: ' + ('a closer origin replaces the candidate and clears the tie mark, an equal one sets it' if not bad else bad[0]),
             key='tie-guard', witness={'cases': bad[:4]} if bad else None, what='expand: closest-candidate bookkeeping leaves a stale or missing tie mark')
    # resolution: registered iff not tied, with (distance, origin) read from the table entry
    calls = [c for c in walk_no_nested(l) if isinstance(c, ast.Call) and src(c.func) == 'self.addBarcode']
    if len(calls) != 1:
        return False
    okres = True
    for intied in (False, True):
        rs = explore(l.body, mk_atoms({f'{key} in {tied}': intied, f'{key} not in {tied}': not intied}))
        reg = {any(c.startswith('self.addBarcode(') for c in r['calls']) for r in rs if r['kind'] in ('fall', 'continue')}
        okres = okres and reg == {not intied}
    ctx.emit('C03-R1', okres, BARCODEPARSER, calls[0], 'the resolution loop registers exactly the sequences that are not marked tied', key='tie-guard-resolution')
    unp = [s_ for s_ in walk_no_nested(l) if isinstance(s_, ast.Assign) and len(s_.targets) == 1 and isinstance(s_.targets[0], ast.Tuple) and src(s_.value) == f'hammingSpace[{key}]']
    kw = {k_.arg: src(k_.value) for k_ in calls[0].keywords}
    ok = len(unp) == 1 and len(unp[0].targets[0].elts) == 2 and kw.get('barcode') == key and kw.get('hammingDistance') == src(unp[0].targets[0].elts[0]) and kw.get('originBarcode') == src(unp[0].targets[0].elts[1]) \
        and (dist, origin) == ('hammingDistance', 'barcode')
    ctx.emit('C03-R1', ok, BARCODEPARSER, calls[0], 'registration takes (distance, origin) from the stored closest candidate', key='registration-provenance')
    ctx.exhaustive['C03-R1'] = True
    return True


@rule('C03', 'C03-R1', 'tie guard: a corrected barcode is registered only when the two smallest candidate distances differ; the registered '
                       'origin, index and distance all come from the minimal candidate')
def r1(ctx):
    f = ctx.fn(BARCODEPARSER, f'{CLS}.expand')
    sem = _expand_by_interpretation(ctx, f)
    if sem is not None:
        ok, ncase, wit = sem
        ctx.counters['abstract_cases'] += ncase
        ctx.emit('C03-R1', ok, BARCODEPARSER, f, f'expand interpreted on {ncase} (whitelist, k) cases over 2-letter barcodes, every observed string over ACGTN: ' +
                 ('a string is registered iff one whitelisted barcode is strictly closest within k, with that barcode, its index and distance' if ok else f'differs: {wit}'),
                 key='tie-guard', witness=wit, what='expand registers a barcode that is not the unique nearest whitelisted barcode (or misses one that is)')
        ctx.emit('C03-R1', ok, BARCODEPARSER, f, 'registered origin, index and distance belong to the closest candidate', key='registered-values', nontrivial=False)
        ctx.exhaustive['C03-R1'] = True
        return
    # the resolution loop: over the keys of the candidate table, or over its items()
    loops = [l for l in f.body if isinstance(l, ast.For) and 'hammingSpace' in names_in(l.iter) and
             any(isinstance(c, ast.Call) and src(c.func) == 'self.addBarcode' for c in walk_no_nested(l))]
    if len(loops) != 1:
        raise AnalysisError('expand: resolution loop over the hamming space not found')
    l = loops[0]
    valvar = None
    if isinstance(l.target, ast.Name):
        key = l.target.id
    elif isinstance(l.target, ast.Tuple) and len(l.target.elts) == 2 and all(isinstance(e, ast.Name) for e in l.target.elts) and src(l.iter).endswith('.items()'):
        key, valvar = l.target.elts[0].id, l.target.elts[1].id
    else:
        raise AnalysisError('expand: target of the resolution loop not understood')
    srt = [s for s in l.body if isinstance(s, ast.Assign) and isinstance(s.value, ast.Call) and dotted(s.value.func) == 'sorted']
    if len(srt) != 1:
        if not _streaming_minimum(ctx, f, l, key):
            ctx.emit('C03-R1', False, BARCODEPARSER, l, 'candidates are not sorted by distance before the tie test', key='tie-guard', undecided=True)
        return
    sv = srt[0].targets[0].id
    okarg = src(srt[0].value.args[0]) in ((f'hammingSpace[{key}]',) + ((valvar,) if valvar else ())) and not srt[0].value.keywords
    # locals unpacked from the best candidate are aliases of its distance / origin: `d, o = sorted_list[0]`
    alias = {}
    for s_ in walk_no_nested(l):
        if isinstance(s_, ast.Assign) and len(s_.targets) == 1 and isinstance(s_.targets[0], ast.Tuple) and len(s_.targets[0].elts) == 2 and src(s_.value) == f'{sv}[0]' \
                and isinstance(s_.targets[0].elts[0], ast.Name):
            alias[s_.targets[0].elts[0].id] = 'd0'
    calls = [c for c in walk_no_nested(l) if isinstance(c, ast.Call) and src(c.func) == 'self.addBarcode']
    if len(calls) != 1:
        raise AnalysisError('expand: registration call self.addBarcode not found in the resolution loop')
    reg = calls[0]

    def atom(x):
        s_ = src(x)
        if isinstance(x, ast.Name) and x.id in alias:
            return alias[x.id]
        return {f'len({sv})': 'n', f'{sv}[0][0]': 'd0', f'{sv}[1][0]': 'd1', f'{sv}[-1][0]': 'dl'}.get(s_)
    cons = lambda e: e['n'] >= 1 and 0 <= e['d0'] <= e['d1'] <= e['dl'] and (e['n'] != 2 or e['dl'] == e['d1']) and (e['n'] != 1 or e['dl'] == e['d0'])
    # Abstract interpretation of one iteration over every abstract candidate list (n, d0 <= d1 <= d_last): tests over the sorted candidate
    # list are evaluated on the abstract case, tests over tracked locals (`closest is None` after `closest = None`) on the path's constants;
    # the registration must be reached exactly when the two smallest distances differ (or there is one candidate) - however the skip is
    # written (continue guard, positive if, helper returning None ...)
    cfg = CFG(l.body, exceptions=False)
    reg_ids = set(cfg_nodes_containing(cfg, reg))
    NONNULL = object()
    ncase = 0
    bad = []
    prov = set()
    for case in assignments(['n', 'd0', 'd1', 'dl'], (0, 1, 2, 3), (), cons):
        ncase += 1

        def step(state, node, label, case=case):
            env, exprs, hit = state
            if node.kind == 'test' and label in ('true', 'false') and isinstance(node.ast, ast.If):
                t = node.ast.test
                v = UNK
                if sv in names_in(t) or (names_in(t) & set(alias)):
                    try:
                        v = bool(eval_pred(t, case, atom))
                    except Exception:
                        v = UNK
                else:
                    v = eval3(t, env)
                if v is not UNK and bool(v) != (label == 'true'):
                    return None
            if node.kind == 'stmt' and isinstance(node.ast, ast.Assign) and len(node.ast.targets) == 1 and isinstance(node.ast.targets[0], ast.Name):
                env = dict(env)
                exprs = dict(exprs)
                val = node.ast.value
                env[node.ast.targets[0].id] = val.value if isinstance(val, ast.Constant) else (NONNULL if isinstance(val, (ast.Subscript, ast.Tuple, ast.List)) else
                                                                                                 (env.get(val.id, UNK) if isinstance(val, ast.Name) else UNK))
                exprs[node.ast.targets[0].id] = val
            if node.kind == 'stmt' and isinstance(node.ast, ast.Assign) and len(node.ast.targets) == 1 and isinstance(node.ast.targets[0], ast.Tuple):
                exprs = dict(exprs)
                exprs[src(node.ast.targets[0])] = node.ast.value
            if node.id in reg_ids:
                hit = True
                un = [(k, v) for k, v in exprs.items() if k.startswith('(')]
                for k, v in un:
                    vv = v
                    while isinstance(vv, ast.Name) and vv.id in exprs:
                        vv = exprs[vv.id]
                    prov.add((k, src(vv)))
            return (env, exprs, hit)
        outcomes = {hit for p_, (env, exprs, hit) in cfg.paths(state0=({}, {}, False), step=step) if cfg.nodes[p_[-1][0]].info in ('fall', 'continue')}
        tie = case['n'] > 1 and case['d0'] == case['d1']
        if outcomes != {not tie}:
            if len(bad) < 5:
                bad.append({'case': dict(case), 'registered': sorted(outcomes), 'tie': tie})
    ctx.counters['abstract_cases'] += ncase
    ctx.emit('C03-R1', not bad and okarg, BARCODEPARSER, reg, f'registration is reached iff the two smallest candidate distances differ, over {ncase} abstract candidate lists (n, d0 <= d1 <= d_last)'
             if not bad else f'tie handling differs at {bad[0]["case"]}: ' + ('an ambiguous barcode is registered' if bad[0]['tie'] else 'an unambiguous barcode is dropped (or registered on some paths only)'),
             key='tie-guard', witness=bad[0] if bad else None, what='expand: tie test does not compare the two smallest distances')
    ctx.exhaustive['C03-R1'] = True
    # registration from the minimal candidate
    ok = False
    detail = 'registration not found'
    unp = {(k, v) for k, v in prov}
    if len(unp) == 1:
        k, v = next(iter(unp))
        names = [x.strip() for x in k.strip('()').split(',')]
        if len(names) == 2 and v == f'{sv}[0]':
            dv, ov = names
            kw = {k_.arg: k_.value for k_ in reg.keywords}
            pos = [src(a_) for a_ in reg.args]
            idx = kw.get('index')
            idx_ok = False
            if isinstance(idx, ast.Subscript) and src(idx.slice) == ov:
                base = idx.value
                if isinstance(base, ast.Name):
                    defs = [s_ for s_ in walk_no_nested(f) if isinstance(s_, ast.Assign) and len(s_.targets) == 1 and src(s_.targets[0]) == base.id]
                    base = defs[0].value if len(defs) == 1 else base
                idx_ok = src(base) == 'self.barcodes[alias]'
            ok = src(kw.get('barcode')) == key and idx_ok and src(kw.get('hammingDistance')) == dv and src(kw.get('originBarcode')) == ov and pos == ['alias']
            detail = f'addBarcode(barcode={src(kw.get("barcode"))}, index={src(idx) if idx is not None else None}, hammingDistance={src(kw.get("hammingDistance"))}, originBarcode={src(kw.get("originBarcode"))}) with ({dv}, {ov}) = {v}'
    ctx.emit('C03-R1', ok, BARCODEPARSER, reg, detail, key='registration-provenance')
    # candidates are (distance, origin) tuples so that sorting orders by distance first
    app = [c for c in walk_no_nested(f) if isinstance(c, ast.Call) and isinstance(c.func, ast.Attribute) and c.func.attr == 'append' and 'hammingSpace' in names_in(c.func.value)]
    ok = False
    if len(app) == 1 and isinstance(app[0].args[0], ast.Tuple) and len(app[0].args[0].elts) == 2 and all(isinstance(e, ast.Name) for e in app[0].args[0].elts):
        # first the variable of the loop over the distances (range), then the variable of the loop over the whitelist
        encl = [l for l in ast.walk(f) if isinstance(l, ast.For) and any(x is app[0] for x in ast.walk(l)) and isinstance(l.target, ast.Name)]
        dist_vars = {l.target.id for l in encl if isinstance(l.iter, ast.Call) and dotted(l.iter.func) == 'range'}
        circ = {l.target.id for l in encl if isinstance(l.iter, ast.Call) and (dotted(l.iter.func) or '').split('.')[-1] == 'hamming_circle'}
        origin_vars = {l.target.id for l in encl} - dist_vars - circ
        d_, o_ = [e.id for e in app[0].args[0].elts]
        ok = d_ in dist_vars and o_ in origin_vars
    ctx.emit('C03-R1', ok, BARCODEPARSER, app[0] if app else f, 'candidates are stored as (distance, origin): sorting orders by distance first', key='candidate-tuple-order')
    ab = ctx.fn(BARCODEPARSER, f'{CLS}.addBarcode')
    pa, pb, pi, pd, po = [x.arg for x in ab.args.args[1:6]]
    ok = True
    detail = []
    for zero in (True, False):
        rs = [r for r in explore(ab.body, mk_atoms({f'{pd} == 0': zero, f'{po} is None': False})) if r['kind'] in ('fall', 'return')]
        want = ((f'self.barcodes[{pa}][{pb}]', pi, 'Assign'),) if zero else ((f'self.extendedBarcodes[{pa}][{pb}]', f'({pi}, {po}, {pd})', 'Assign'),)
        good = bool(rs) and all(r['stores'] == want for r in rs)
        ok = ok and good
        detail.append(f'distance {"== 0" if zero else "> 0"}: stores {sorted({r["stores"] for r in rs})}')
    ctx.emit('C03-R1', ok, BARCODEPARSER, ab, 'addBarcode: distance 0 -> exact table; otherwise extended table entry (index, origin, distance): ' + '; '.join(detail), key='addBarcode-tables')


def _expand_by_interpretation(ctx, f):
    """expand() run by the abstract interpreter on every whitelist of 2 or 3 two-letter barcodes from a pool that contains near-duplicates and N, for
    k = 0, 1, 2: the registrations (calls of self.addBarcode) have to be exactly the observed strings with a unique nearest whitelisted barcode
    within k.  None when expand uses constructs outside the interpreted subset (the structural reading is used then)."""
    import itertools
    from ..consteval import run_function, Unfoldable
    mod = ctx.ix.module(BARCODEPARSER)
    hc = mod.defs.get('hamming_circle', [None])[0]
    if hc is None:
        return None
    helpers = {q.split('.')[-1]: d[0] for q, d in mod.defs.items() if q.startswith(CLS + '.') and isinstance(d[0], ast.FunctionDef)}
    pool = ['AA', 'AC', 'CA', 'GT', 'AN', 'NN']
    # the ORDER of the whitelist matters to an implementation that keeps candidates in arrival order: every order of a few three-barcode whitelists whose
    # members are at distance 1, 1 and 2 of one observed string
    ordered = [list(p_) for base in (('CC', 'AC', 'CA'), ('GG', 'AG', 'GA'), ('AC', 'CA', 'NN')) for p_ in itertools.permutations(base)]
    # whitelists of mixed barcode lengths, the shorter barcode first and last (what is derived from one barcode may not be applied to all)
    ordered += [['AA', 'ACG'], ['ACG', 'AA'], ['C', 'GT', 'GA']]
    params = [a.arg for a in f.args.args]
    n = 0
    try:
        for size in (2, 3, 0):
            for wl in (itertools.combinations(pool, size) if size else ordered):
                table = {b: i + 1 for i, b in enumerate(wl)}
                for k in (0, 1, 2):
                    n += 1
                    calls = []

                    def hook(ev, call, env, calls=calls):
                        d = dotted(call.func) or ''
                        if d == 'self.addBarcode':
                            a = [ev.ev(x, env) for x in call.args]
                            kw = {k_.arg: ev.ev(k_.value, env) for k_ in call.keywords}
                            names = ['barcodeFileAlias', 'barcode', 'index', 'hammingDistance', 'originBarcode']
                            rec = dict(zip(names, a))
                            rec.update(kw)
                            calls.append(rec)
                            return None
                        if d == 'hamming_circle':
                            return run_function(hc, [ev.ev(x, env) for x in call.args], budget=20000)
                        if d.startswith('self.') and d[5:] in helpers and d[5:] != 'expand':
                            h = helpers[d[5:]]
                            hp = [a_.arg for a_ in h.args.args]
                            args = ([] if any('staticmethod' in src(x) for x in h.decorator_list) else ['<self>']) + [ev.ev(x, env) for x in call.args]
                            return run_function(h, args, {k_.arg: ev.ev(k_.value, env) for k_ in call.keywords}, env={k_: v_ for k_, v_ in env.items() if '.' in k_}, budget=20000, call_hook=hook)
                        if d in ('logging.info', 'logging.debug', 'logging.warning', 'print'):
                            return None
                        return NotImplemented
                    env = {'self.barcodes': {'w': dict(table)}, 'self.extendedBarcodes': {'w': {}}}
                    args = {params[1]: k, params[2]: 'w'} if len(params) >= 3 else None
                    if args is None:
                        return None
                    run_function(f, ['<self>'], args, env=env, budget=400000, call_hook=hook)
                    got = {}
                    for c in calls:
                        d = c.get('hammingDistance', 0)
                        if d == 0:
                            if c.get('barcode') not in table or c.get('index') != table[c.get('barcode')]:
                                return (False, n, {'whitelist': list(wl), 'k': k, 'registered at distance 0': c})
                            continue
                        got[c.get('barcode')] = (c.get('originBarcode'), d, c.get('index'))
                    want = {}
                    for o in [''.join(t_) for L_ in sorted({len(b) for b in wl}) for t_ in itertools.product('ACGTN', repeat=L_)]:
                        ds = sorted((sum(1 for x, y in zip(o, b) if x != y), b) for b in wl if len(b) == len(o))
                        if ds[0][0] == 0 or ds[0][0] > k:
                            continue
                        if len(ds) > 1 and ds[1][0] == ds[0][0]:
                            continue
                        want[o] = (ds[0][1], ds[0][0], table[ds[0][1]])
                    if got != want:
                        diff = sorted(set(got.items()) ^ set(want.items()))[:2]
                        o = diff[0][0]
                        return (False, n, {'whitelist': list(wl), 'k': k, 'observed': o, 'registered as (origin, distance, index)': got.get(o), 'unique nearest within k': want.get(o)})
    except Unfoldable:
        return None
    except Exception:
        return None
    return (True, n, None)


def _circle_by_interpretation(g, env=None):
    import itertools
    from ..consteval import run_function, Unfoldable
    n = 0
    try:
        for alphabet in ('ACG', 'ACGTN'):
            for L in (1, 2, 3):
                for s in itertools.product(alphabet, repeat=L):
                    s = ''.join(s)
                    if alphabet == 'ACGTN' and L == 3 and s[0] not in 'AN':
                        continue            # a sample of the long-alphabet cubes is enough
                    for d in range(0, min(L, 2) + 1):
                        n += 1
                        got = run_function(g, [s, d, alphabet], env=env, budget=60000)
                        got = sorted(''.join(x) if not isinstance(x, str) else x for x in list(got or []))
                        want = sorted(''.join(t) for t in itertools.product(alphabet, repeat=L) if sum(1 for a, b in zip(t, s) if a != b) == d)
                        if got != want:
                            extra = sorted(set(got) - set(want))[:3]
                            missing = sorted(set(want) - set(got))[:3]
                            dup = sorted({x for x in got if got.count(x) > 1})[:3]
                            return (False, n, {'string': s, 'distance': d, 'alphabet': alphabet, 'not at that distance': extra, 'missing': missing, 'yielded twice': dup})
    except Unfoldable:
        return None
    except Exception:
        return None
    return (True, n, None)


@rule('C03', 'C03-R3', 'candidates are generated for every distance 0..k inclusive, over the alphabet {A,C,G,T,N}; hamming_circle changes exactly '
                       'n positions, each to one of the len(alphabet)-1 other letters')
def r3(ctx):
    f = ctx.fn(BARCODEPARSER, f'{CLS}.expand')
    sem = _expand_by_interpretation(ctx, f)
    if sem is not None and sem[0]:
        # expand registered exactly the unique-nearest strings for every whitelist / k of the small scope, over all observed strings on ACGTN: the distances
        # 0..k, the alphabet and the arguments of hamming_circle are what they have to be - however the candidate generation is written
        ctx.emit('C03-R3', True, BARCODEPARSER, f, f'candidate generation of expand decided by interpretation ({sem[1]} cases): every distance 0..k and every letter of ACGTN is produced', key='candidates-by-interpretation')
        _r3_circle(ctx)
        return
    k = f.args.args[1].arg
    rng = [c for c in walk_no_nested(f) if isinstance(c, ast.Call) and dotted(c.func) == 'range']
    ok = len(rng) == 1 and ((len(rng[0].args) == 2 and src(rng[0].args[0]) == '0' and linform(rng[0].args[1]) == Lin({k: 1}, 1)) or
                            (len(rng[0].args) == 1 and linform(rng[0].args[0]) == Lin({k: 1}, 1)))
    ctx.emit('C03-R3', ok, BARCODEPARSER, rng[0] if rng else f, f'distances enumerated: {src(rng[0]) if rng else None}' + (' == 0..k inclusive' if ok else ' (expected range(0, k + 1))'), key='distance-range')
    hc = [c for c in walk_no_nested(f) if isinstance(c, ast.Call) and dotted(c.func) == 'hamming_circle']
    alpha = hc[0].args[2].value if len(hc) == 1 and len(hc[0].args) == 3 and isinstance(hc[0].args[2], ast.Constant) else None
    ok = alpha is not None and set(alpha) == set('ACGTN') and len(alpha) == 5
    ctx.emit('C03-R3', ok, BARCODEPARSER, hc[0] if hc else f, f'alphabet {alpha!r}' + (': 4 alternatives per position over {A,C,G,T,N}' if ok else
             ': not the five letters A,C,G,T,N -> some observed / whitelisted letters are never produced as substitution'), key='alphabet',
             what='expand: candidate alphabet is not {A,C,G,T,N}')
    okargs = False
    if len(hc) == 1 and len(hc[0].args) >= 2:
        enc = enclosing_loops(f, hc[0])
        rl = [l_ for l_ in enc if isinstance(l_.iter, ast.Call) and dotted(l_.iter.func) == 'range' and isinstance(l_.target, ast.Name)]
        wl = [l_ for l_ in enc if l_ not in rl and isinstance(l_.target, ast.Name) and ('barcodes' in src(l_.iter))]
        okargs = bool(rl) and bool(wl) and src(hc[0].args[0]) == wl[0].target.id and src(hc[0].args[1]) == rl[-1].target.id
    ctx.emit('C03-R3', okargs, BARCODEPARSER, hc[0] if hc else f, 'hamming_circle is called with (whitelisted barcode, distance, alphabet)', key='circle-arguments', nontrivial=False)
    _r3_circle(ctx)


def _r3_circle(ctx):
    g = ctx.fn(BARCODEPARSER, 'hamming_circle')
    if len(g.args.args) < 3:
        raise AnalysisError('hamming_circle: expected (string, distance, alphabet)')
    s_, n_, a_ = [x.arg for x in g.args.args][:3]
    # decided by interpreting the generator on every string of length <= 3 over two small alphabets: it has to yield each string at Hamming
    # distance exactly n once, and nothing else (however positions and replacement letters are enumerated)
    try:
        from ..consteval import module_scope
        menv = module_scope(ctx.ix, BARCODEPARSER)        # module-level helpers the enumeration is delegated to
    except Exception:
        menv = None
    sem = _circle_by_interpretation(g, menv)
    if sem is not None:
        okc, ncase, wit = sem
        ctx.counters['abstract_cases'] += ncase
        ctx.emit('C03-R3', okc, BARCODEPARSER, g, f'hamming_circle interpreted on {ncase} (string, distance, alphabet) cases: ' + ('yields every string at distance exactly n once' if okc else
                 f'differs for {wit}'), key='circle-enumeration', witness=wit, what='hamming_circle does not enumerate the Hamming sphere')
        ctx.emit('C03-R3', okc, BARCODEPARSER, g, 'replacement rule: every changed position takes each of the other letters of the alphabet once', key='circle-replacement', nontrivial=False)
        return
    loops = [l for l in walk_no_nested(g) if isinstance(l, ast.For)]
    # the three nested loops, outermost first (whether itertools is imported as a module or by name)
    def depth(l_):
        return sum(1 for o_ in loops if o_ is not l_ and any(x is l_ for x in ast.walk(o_)))
    loops = sorted(loops, key=depth)
    sig = [src(l.iter).replace('itertools.', '') for l in loops]
    ok = len(sig) == 3 and sig[0] == f'combinations(range(len({s_})), {n_})' and sig[1] == f'product(range(len({a_}) - 1), repeat={n_})' and sig[2].startswith('zip(')
    if not ok:
        # positions enumerated elsewhere (a pattern table handed in by the caller): they must be the positions of the string being changed
        lens = []
        f = ctx.fn(BARCODEPARSER, f'{CLS}.expand')
        hc = [c for c in ast.walk(f) if isinstance(c, ast.Call) and (dotted(c.func) or '').split('.')[-1] == 'hamming_circle' and c.args]
        for scope, own in ((g, s_), (f, src(hc[0].args[0]) if hc else None)):
            for c_ in ast.walk(scope):
                if isinstance(c_, ast.Call) and dotted(c_.func) == 'range' and len(c_.args) == 1 and isinstance(c_.args[0], ast.Call) and dotted(c_.args[0].func) == 'len' \
                        and any(isinstance(p_, ast.Call) and 'combinations' in (dotted(p_.func) or '') and any(x is c_ for x in ast.walk(p_)) for p_ in ast.walk(scope)):
                    lens.append((src(c_.args[0].args[0]), own))
        foreign = [(x, own) for x, own in lens if x != own]
        if foreign:
            ctx.emit('C03-R3', False, BARCODEPARSER, g, f'substitution positions are enumerated for the length of `{foreign[0][0]}`, not of the barcode being expanded (`{foreign[0][1]}`): '
                     'in a whitelist of mixed lengths the tail of longer barcodes is never substituted', key='circle-enumeration', what='hamming_circle: positions do not cover the whole barcode')
        else:
            ctx.emit('C03-R3', False, BARCODEPARSER, g, f'hamming_circle enumerates {sig} (not understood)', key='circle-enumeration', undecided=True)
    else:
        ctx.emit('C03-R3', ok, BARCODEPARSER, g, f'hamming_circle: positions {sig[0] if sig else None}; replacements {sig[1] if len(sig) > 1 else None}', key='circle-enumeration')
    ifs = [i for i in walk_no_nested(g) if isinstance(i, ast.If)]
    ok = len(ifs) == 1 and isinstance(ifs[0].test, ast.Compare) and isinstance(ifs[0].test.ops[0], ast.Eq) and f'{a_}[' in src(ifs[0].test) and \
        f'{a_}[-1]' in src(ifs[0].body[0]) and f'{a_}[' in src(ifs[0].orelse[0]) and f'{a_}[-1]' not in src(ifs[0].orelse[0])
    ctx.emit('C03-R3', ok, BARCODEPARSER, ifs[0] if ifs else g, 'replacement rule: the chosen letter, or the last alphabet letter when it equals the original (always a different letter)', key='circle-replacement')


@rule('C03', 'C03-R4', 'lookup order: exact table (distance 0, the barcode itself), then the expanded table, then a pending lazy file loaded '
                       'at most once; unknown -> (None, None, None)')
def r4(ctx):
    f = ctx.fn(BARCODEPARSER, f'{CLS}.getIndexCorrectedBarcodeAndHammingDistance')
    b, a = f.args.args[1].arg, f.args.args[2].arg
    lz = f.args.args[3].arg if len(f.args.args) > 3 else 'try_lazy_load_pending'
    # decision table over (exact hit, expanded hit, alias pending, lazy loading allowed): the outcome of every feasible path
    E, X, P = f'{b} in self.barcodes[{a}]', f'{b} in self.extendedBarcodes[{a}]', f'{a} in self.pending_files'
    rows = []
    import itertools
    for e_, x_, p_, l_ in itertools.product((True, False), repeat=4):
        rs = explore(f.body, mk_atoms({E: e_, X: x_, P: p_, lz: l_}), names=None, nonnull=(ast.Tuple, ast.List, ast.Dict, ast.Set, ast.JoinedStr, ast.Subscript), key_lookups=True)
        outs = set()
        for r in rs:
            if r['kind'] == 'return' and r['stmt'] is not None and r['stmt'].value is not None:
                rv = r['stmt'].value
                hops = 0
                while isinstance(rv, ast.Name) and rv.id in r['env'] and hops < 4:      # `hit = <entry>; return hit`
                    rv = r['env'][rv.id]
                    hops += 1
                outs.add(('return', src(rv), tuple(c for c in r['calls'] if c.startswith('self.parse_pending'))))
            else:
                outs.add((r['kind'], None, ()))
        rows.append(((e_, x_, p_, l_), outs))
    n = 0
    problems = {'exact-hit': [], 'expanded-hit': [], 'miss': [], 'lazy-retry-once': []}
    for (e_, x_, p_, l_), outs in rows:
        n += 1
        if e_:
            if outs != {('return', f'(self.barcodes[{a}][{b}], {b}, 0)', ())}:
                problems['exact-hit'].append(((e_, x_, p_, l_), sorted(outs, key=str)))
        elif x_:
            if outs != {('return', f'self.extendedBarcodes[{a}][{b}]', ())}:
                problems['expanded-hit'].append(((e_, x_, p_, l_), sorted(outs, key=str)))
        elif not p_:
            if outs != {('return', '(None, None, None)', ())}:
                problems['miss'].append(((e_, x_, p_, l_), sorted(outs, key=str)))
        elif l_:
            good = len(outs) == 1 and next(iter(outs))[0] == 'return' and next(iter(outs))[2] == (f'self.parse_pending_barcode_file_of_alias({a})',)
            if good:
                rv = next(iter(outs))[1]
                good = rv.replace(' ', '') in (f'self.getIndexCorrectedBarcodeAndHammingDistance({b},{a},{lz}=False)', f'self.getIndexCorrectedBarcodeAndHammingDistance({b},{a},False)',
                                                f'self.getIndexCorrectedBarcodeAndHammingDistance({b}={b},{a}={a},{lz}=False)', f'self.getIndexCorrectedBarcodeAndHammingDistance({a}={a},{b}={b},{lz}=False)')
            if not good:
                problems['lazy-retry-once'].append(((e_, x_, p_, l_), sorted(outs, key=str)))
        else:
            # pending alias but lazy loading disabled (the retry): must not load again / recurse
            if any(o[0] == 'return' and 'getIndexCorrectedBarcodeAndHammingDistance' in (o[1] or '') for o in outs) or any(o[2] for o in outs):
                problems['lazy-retry-once'].append(((e_, x_, p_, l_), sorted(outs, key=str)))
    ctx.counters['abstract_cases'] += n
    texts = {'exact-hit': 'an exact whitelist member returns (its index, itself, 0) whatever the other tables hold',
             'expanded-hit': 'otherwise a member of the expanded table returns the stored (index, origin, distance)',
             'miss': 'unknown barcode of a loaded alias -> (None, None, None)',
             'lazy-retry-once': 'pending alias: load (with expansion) and retry once with lazy loading disabled'}
    for k_, t_ in texts.items():
        ctx.emit('C03-R4', not problems[k_], BARCODEPARSER, f, t_ + ('' if not problems[k_] else f' - differs for (exact, expanded, pending, lazy)={problems[k_][0][0]}: {problems[k_][0][1]}'),
                 key={'exact-hit': 'exact-hit', 'expanded-hit': 'expanded-hit', 'miss': 'miss', 'lazy-retry-once': 'lazy-retry-once'}[k_], nontrivial=k_ != 'miss')
    ctx.emit('C03-R4', not problems['exact-hit'] and not problems['expanded-hit'], BARCODEPARSER, f, 'lookup order: exact table before the expanded table (decision table over 16 cases)', key='lookup-order')


@rule('C03', 'C03-R5', 'lazily loaded aliases are expanded exactly like eagerly loaded ones: a pending file is only ever loaded through the '
                       'helper that parses, expands with the configured distance and forgets the pending entry')
def r5(ctx):
    c = ctx.ix.cls(BARCODEPARSER, CLS)
    ms = {m.name: m for m in c.body if isinstance(m, ast.FunctionDef)}
    h = ms.get('parse_pending_barcode_file_of_alias')
    if h is None:
        raise AnalysisError('parse_pending_barcode_file_of_alias not found')
    calls = [(src(x.func), x) for x in sorted([x for x in walk_no_nested(h) if isinstance(x, ast.Call)], key=lambda x: x.lineno)]
    names = [n for n, _ in calls if n.startswith('self.')]
    exp = [x for n, x in calls if n == 'self.expand']
    ok = names[:2] == ['self.parse_barcode_file', 'self.expand'] and len(exp) == 1 and src(exp[0].args[0]) == 'self.hammingDistanceExpansion' and \
        any(k.arg == 'alias' and src(k.value) == 'alias' for k in exp[0].keywords) and any(isinstance(s, ast.Delete) and 'self.pending_files[alias]' in src(s) for s in h.body)
    ctx.emit('C03-R5', ok, BARCODEPARSER, h, 'pending loader: parse_barcode_file -> expand(self.hammingDistanceExpansion, alias) -> del pending entry', key='pending-loader')
    # who may call parse_barcode_file / touch pending_files
    bad = []
    # a private helper whose body was analysed inside the constructor / the pending loader (inlined there) is part of them
    inl = [(c_.split('.')[-1], h_.split(':')[-1].split('.')[-1]) for c_, h_, _how in (getattr(ctx.ix.module(BARCODEPARSER), 'inlined', None) or [])]
    part_of = {h_ for c_, h_ in inl if h_.startswith('_') and all(c2 in ('__init__', 'parse_pending_barcode_file_of_alias') for c2, h2 in inl if h2 == h_)}
    for name, m in ms.items():
        if name in ('__init__', 'parse_pending_barcode_file_of_alias') or name in part_of:
            continue
        for x in walk_no_nested(m):
            if isinstance(x, ast.Call) and src(x.func) == 'self.parse_barcode_file':
                bad.append((name, x, 'calls parse_barcode_file directly (no Hamming expansion for the loaded alias)'))
            if isinstance(x, ast.Call) and isinstance(x.func, ast.Attribute) and src(x.func.value) == 'self.pending_files' and x.func.attr in ('pop', 'clear', 'popitem'):
                bad.append((name, x, 'removes a pending entry without loading it through the expanding helper'))
            if isinstance(x, ast.Delete) and 'self.pending_files' in src(x):
                bad.append((name, x, 'deletes a pending entry'))
    for name, x, why in bad:
        ctx.emit('C03-R5', False, BARCODEPARSER, x, f'{CLS}.{name} {why}', key=f'pending-bypass:{name}', what=f'{CLS}.{name} loads a pending barcode file without Hamming expansion')
    if not bad:
        ctx.emit('C03-R5', True, BARCODEPARSER, c, 'parse_barcode_file is only called from the constructor and the expanding pending loader', key='pending-bypass')
    init = ms['__init__']
    # the attribute holds the constructor argument (stored once, from the parameter)
    stores_k = [s_ for s_ in walk_no_nested(init) if isinstance(s_, ast.Assign) and any(src(t_) == 'self.hammingDistanceExpansion' for t_ in s_.targets)]
    stored_k = bool(stores_k) and all(src(s_.value) == 'hammingDistanceExpansion' for s_ in stores_k)
    post = [s for s in walk_no_nested(init) if isinstance(s, ast.If) and pred_is(s.test, lambda e: e['k'] > 0, {'hammingDistanceExpansion': 'k', 'self.hammingDistanceExpansion': 'k'}) and any('self.expand(hammingDistanceExpansion' in src(x) or ('self.expand(self.hammingDistanceExpansion' in src(x) and stored_k) for x in s.body)]
    ctx.emit('C03-R5', len(post) == 1, BARCODEPARSER, post[0] if post else init, 'eager loading expands every parsed alias when the distance is > 0', key='eager-expand')
    # ... and the alias that is expanded is the alias of the iteration at hand: a name bound by the loop the call sits in (its target, or assigned in its body) -
    # a variable left over from an earlier loop names only the last file
    mod_ = ctx.ix.module(BARCODEPARSER)
    for c_ in [x for x in walk_no_nested(init) if isinstance(x, ast.Call) and src(x.func) == 'self.expand']:
        a_ = next((k.value for k in c_.keywords if k.arg == 'alias'), c_.args[1] if len(c_.args) > 1 else None)
        loop_ = mod_.parent.get(c_)
        while loop_ is not None and not isinstance(loop_, (ast.For, ast.While)) and loop_ is not init:
            loop_ = mod_.parent.get(loop_)
        if a_ is None or not isinstance(loop_, ast.For):
            continue
        bound_here = {n_.id for n_ in ast.walk(loop_.target) if isinstance(n_, ast.Name)} | \
            {n_.id for s_ in walk_no_nested(loop_) if isinstance(s_, ast.Assign) for t_ in s_.targets for n_ in ast.walk(t_) if isinstance(n_, ast.Name)}
        stale = sorted(n_ for n_ in names_in(a_) if n_ not in bound_here and n_ != 'self' and
                       any(isinstance(l2, ast.For) and l2 is not loop_ and n_ in ({x.id for x in ast.walk(l2.target) if isinstance(x, ast.Name)} |
                           {x.id for s2 in walk_no_nested(l2) if isinstance(s2, ast.Assign) for t2 in s2.targets for x in ast.walk(t2) if isinstance(x, ast.Name)}) for l2 in walk_no_nested(init)))
        ctx.emit('C03-R5', not stale, BARCODEPARSER, c_, f'`{src(c_)[:80]}` expands the alias of its own iteration' if not stale else
                 f'`{src(c_)[:80]}` sits in the loop over `{src(loop_.iter)[:40]}` but names `{stale[0]}`, a variable another loop left behind: only the last file\'s alias is expanded, every other '
                 f'eagerly loaded whitelist gets no correction at all', key='eager-expand-alias', what='BarcodeParser.__init__: the expansion names a stale loop variable instead of the alias at hand')
    gi = ms.get('__getitem__')
    if gi is not None:
        ok = any(isinstance(x, ast.Call) and src(x.func) == 'self.parse_pending_barcode_file_of_alias' for x in walk_no_nested(gi))
        ctx.emit('C03-R5', ok, BARCODEPARSER, gi, 'parser[alias] loads a pending alias through the expanding helper', key='getitem-loader')


@rule('C03', 'C03-R6', 'what a method decides about one barcode file / one alias does not depend on what an earlier call left behind: an instance attribute that a '
                       'method assigns is never read in that method before it was assigned in the same call (a flag set while parsing one file must not '
                       'decide how the next file is read)')
def r6(ctx):
    cls = ctx.ix.cls(BARCODEPARSER, CLS)
    n_attr = 0
    bad = []
    for m in [x for x in cls.body if isinstance(x, ast.FunctionDef) and x.name != '__init__']:
        stores = {}
        for n_ in walk_no_nested(m):
            if isinstance(n_, ast.Attribute) and isinstance(n_.value, ast.Name) and n_.value.id == 'self' and isinstance(n_.ctx, ast.Store):
                stores.setdefault(n_.attr, []).append(n_)
        if not stores:
            continue
        cfg = CFG(m.body, exceptions=False)
        dom = cfg.dominators()
        for attr, sts in stores.items():
            n_attr += 1
            store_nodes = {nd.id for nd in cfg.nodes if nd.kind == 'stmt' and isinstance(nd.ast, (ast.Assign, ast.AugAssign))
                           and any(isinstance(t_, ast.Attribute) and isinstance(t_.value, ast.Name) and t_.value.id == 'self' and t_.attr == attr and isinstance(nd.ast, ast.Assign)
                                   for t_ in (nd.ast.targets if isinstance(nd.ast, ast.Assign) else [nd.ast.target]))}
            for nd in cfg.nodes:
                e_ = own_expr(nd)
                if e_ is None:
                    continue
                exprs = [e_]
                if nd.kind == 'stmt' and isinstance(nd.ast, ast.Assign):
                    exprs = [nd.ast.value] + [t_ for t_ in nd.ast.targets if not (isinstance(t_, ast.Attribute) and t_.attr == attr)]
                elif nd.kind == 'stmt' and isinstance(nd.ast, ast.AugAssign):
                    exprs = [nd.ast.value, nd.ast.target]
                loads = [x for ex in exprs for x in walk_no_nested(ex) if isinstance(x, ast.Attribute) and isinstance(x.value, ast.Name) and x.value.id == 'self' and x.attr == attr
                         and (isinstance(x.ctx, ast.Load) or (nd.kind == 'stmt' and isinstance(nd.ast, ast.AugAssign)))]
                if loads and not ((dom[nd.id] - {nd.id}) & store_nodes):
                    bad.append((m.name, attr, loads[0]))
                    break
    for mname, attr, node in bad:
        ctx.emit('C03-R6', False, BARCODEPARSER, node, f'{CLS}.{mname} reads self.{attr} on a path on which this call has not assigned it yet, and assigns it elsewhere in the same method: '
                 'the value left by an earlier call (another barcode file) decides this one', key=f'stale-instance-state:{mname}:{attr}',
                 what=f'{CLS}.{mname}: instance attribute {attr} carries a per-file decision over to the next call')
    if not bad:
        ctx.emit('C03-R6', True, BARCODEPARSER, cls, f'{n_attr} instance attributes assigned by methods of {CLS}: none is read before it is assigned in the same call', key='stale-instance-state', nontrivial=n_attr > 0)


@rule('C03', 'C03-R7', 'every line of a whitelist file becomes a whitelist entry: the loops that register barcodes walk the open file itself (or all of '
                       'its lines), never a slice of the lines (a whitelist without a final newline would lose its last barcode)')
def r7(ctx):
    f = ctx.fn(BARCODEPARSER, f'{CLS}.parse_barcode_file')
    mod = ctx.ix.module(BARCODEPARSER)

    def handles_of(fn):
        return {it.optional_vars.id for w in walk_no_nested(fn) if isinstance(w, ast.With) for it in w.items if isinstance(it.optional_vars, ast.Name)}
    loops = [l for l in walk_no_nested(f) if isinstance(l, ast.For) and any(isinstance(c, ast.Call) and isinstance(c.func, ast.Attribute) and c.func.attr == 'addBarcode' for c in ast.walk(l))]
    # `for _inl_once in (None,)` is the one-pass wrapper the inliner puts around a consumer body that contains `continue`: not a loop over lines
    loops = [l for l in loops if not (isinstance(l.target, ast.Name) and l.target.id.startswith('_inl_once'))]
    ctx.need('C03-R7', len(loops), 1, 'loops registering barcodes in parse_barcode_file')

    def whole(e, depth=0, scope=None):
        """'all' (every line), or ('slice', text) / ('unknown', text); scope: the function whose locals `e` uses"""
        scope = scope or f
        if depth > 8:
            return ('unknown', src(e))
        if isinstance(e, ast.Name):
            if e.id in handles_of(scope):
                return 'all'
            ds = [a.value for a in walk_no_nested(scope) if isinstance(a, ast.Assign) and len(a.targets) == 1 and src(a.targets[0]) == e.id]
            if len(ds) == 1:
                return whole(ds[0], depth + 1, scope)
            return ('unknown', src(e))
        if isinstance(e, ast.Call):
            fn = last_name(dotted(e.func) or '')
            if fn in ('enumerate', 'iter', 'list', 'tuple') and e.args:
                return whole(e.args[0], depth + 1, scope)
            # a reader function of this module: what it returns (on every return) decides
            helper = mod.defs.get(fn, mod.defs.get(f'{CLS}.{fn}', [None]))[0] if (isinstance(e.func, ast.Name) or src(e.func) == f'self.{fn}') else None
            if helper is not None and isinstance(helper, ast.FunctionDef):
                rs_ = [r_ for r_ in walk_no_nested(helper) if isinstance(r_, ast.Return) and r_.value is not None]
                ys_ = [y_ for y_ in walk_no_nested(helper) if isinstance(y_, ast.Yield)]
                if rs_ and not ys_:
                    got = [whole(r_.value, depth + 1, helper) for r_ in rs_]
                    return 'all' if all(g_ == 'all' for g_ in got) else next(g_ for g_ in got if g_ != 'all')
                if ys_ and not rs_:
                    # a generator yielding once per element of a loop over the file
                    loops_ = [l_ for l_ in walk_no_nested(helper) if isinstance(l_, ast.For) and any(y_ is x for y_ in ys_ for x in ast.walk(l_))]
                    if len(loops_) == 1 and not any(isinstance(x, (ast.Continue, ast.Break)) for x in walk_no_nested(loops_[0])):
                        return whole(loops_[0].iter, depth + 1, helper)
            if isinstance(e.func, ast.Attribute) and fn in ('readlines', 'splitlines') and not e.args:
                inner = e.func.value
                if fn == 'splitlines' and isinstance(inner, ast.Call) and isinstance(inner.func, ast.Attribute) and inner.func.attr == 'read':
                    inner = inner.func.value
                return whole(inner, depth + 1, scope)
        if isinstance(e, (ast.ListComp, ast.GeneratorExp)) and len(e.generators) == 1 and not e.generators[0].ifs:
            return whole(e.generators[0].iter, depth + 1, scope)
        if isinstance(e, ast.Subscript) and isinstance(e.slice, ast.Slice):
            return ('slice', src(e))
        return ('unknown', src(e))
    for l in loops:
        w = whole(l.iter)
        if w == 'all':
            ctx.emit('C03-R7', True, BARCODEPARSER, l, f'the registering loop walks every line of the file (`{src(l.iter)[:60]}`)', key='all-lines-parsed')
        elif w[0] == 'slice':
            ctx.emit('C03-R7', False, BARCODEPARSER, l, f'the registering loop walks `{w[1][:70]}`: a slice of the lines - the line cut off is a whitelist entry when the file has no final newline '
                     f'(or no header line): that barcode is not assigned to itself and its neighbours are assigned to another barcode', key='all-lines-parsed',
                     what='parse_barcode_file drops a line of the whitelist file')
        else:
            ctx.emit('C03-R7', False, BARCODEPARSER, l, f'cannot tell that `{w[1][:70]}` holds every line of the file', key='all-lines-parsed', undecided=True)


META = {
    'text': ('Decides clause-level necessary conditions: registration of a corrected barcode is reachable only when the two smallest candidate '
             'distances differ (tie test enumerated over all abstract candidate lists), and index / origin / distance come from the minimal candidate; '
             'candidates are generated for every distance 0..k over exactly {A,C,G,T,N} with hamming_circle changing n positions to one of the '
             'len(alphabet)-1 other letters; lookups try exact (distance 0, itself), expanded, then a pending lazy file loaded once through the helper '
             'that also expands; no other method loads a pending file. Does NOT decide the nearest-neighbour statement over runtime whitelists.'),
    'technique': 'static analysis: comparison-predicate enumeration over abstract candidate lists, provenance checks of registration arguments, who-may-call rule for the lazy loader; small-scope abstract execution of hamming_circle / expand in the checker\'s own interpreter (every string of length <= 3 over two alphabets; every whitelist of 2-3 two-letter barcodes x k in 0..2 x every observed string over ACGTN)',
    'design_ref': 'DESIGN.md section 5, C03',
}


from . import shared as _shared
_shared.register('C03', 'C03')
