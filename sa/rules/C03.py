"""C03 - barcode correction assigns the unique nearest whitelisted barcode or nothing (clause-level structural checks)."""
import ast

from ..core import rule
from ..index import AnalysisError, dotted, src, walk_no_nested, names_in
from ..cfg import CFG
from ..domains import check_pred, linform, Lin
from ..util import node_calls, pred_is
from .slots import BARCODEPARSER

CLS = 'BarcodeParser'


@rule('C03', 'C03-R1', 'tie guard: a corrected barcode is registered only when the two smallest candidate distances differ; the registered '
                       'origin, index and distance all come from the minimal candidate')
def r1(ctx):
    f = ctx.fn(BARCODEPARSER, f'{CLS}.expand')
    loops = [l for l in f.body if isinstance(l, ast.For) and 'hammingSpace' in src(l.iter) and isinstance(l.target, ast.Name)]
    if len(loops) != 1:
        raise AnalysisError('expand: resolution loop over the hamming space not found')
    l = loops[0]
    key = l.target.id
    srt = [s for s in l.body if isinstance(s, ast.Assign) and isinstance(s.value, ast.Call) and dotted(s.value.func) == 'sorted']
    if len(srt) != 1:
        ctx.emit('C03-R1', False, BARCODEPARSER, l, 'candidates are not sorted by distance before the tie test', key='tie-guard', undecided=True)
        return
    sv = srt[0].targets[0].id
    okarg = src(srt[0].value.args[0]) == f'hammingSpace[{key}]' and not srt[0].value.keywords
    skip = [s for s in l.body if isinstance(s, ast.If) and len(s.body) >= 1 and isinstance(s.body[-1], ast.Continue) and sv in names_in(s.test)]
    if len(skip) != 1:
        ctx.emit('C03-R1', False, BARCODEPARSER, l, 'no tie test (skip of ambiguous candidates) found before registration: a barcode equally close to two whitelist entries is assigned',
                 key='tie-guard', what='expand: tie test missing')
        return
    t = skip[0].test

    def atom(x):
        s_ = src(x)
        return {f'len({sv})': 'n', f'{sv}[0][0]': 'd0', f'{sv}[1][0]': 'd1', f'{sv}[-1][0]': 'dl'}.get(s_)
    cons = lambda e: e['n'] >= 1 and 0 <= e['d0'] <= e['d1'] <= e['dl'] and (e['n'] != 2 or e['dl'] == e['d1']) and (e['n'] != 1 or e['dl'] == e['d0'])
    try:
        ncase, bad = check_pred(t, lambda e: e['n'] > 1 and e['d0'] == e['d1'], symbols=['n', 'd0', 'd1', 'dl'], constraint=cons, atom_name=atom, extra_consts=(0, 1, 2, 3))
    except AnalysisError as ex:
        ctx.emit('C03-R1', False, BARCODEPARSER, skip[0], f'tie test `{src(t)}` not interpretable: {ex}', key='tie-guard', undecided=True)
        return
    ctx.counters['abstract_cases'] += ncase
    ctx.emit('C03-R1', not bad and okarg, BARCODEPARSER, skip[0], f'tie test `{src(t)}` over {ncase} abstract candidate lists (n, d0 <= d1 <= d_last) ' +
             ('== (two or more candidates and the two smallest distances are equal)' if not bad else
              f'differs at {bad[0]["case"]}: ' + ('an ambiguous barcode is registered' if not bad[0]['code'] else 'an unambiguous barcode is dropped')),
             key='tie-guard', witness=bad[0] if bad else None, what='expand: tie test does not compare the two smallest distances')
    ctx.exhaustive['C03-R1'] = True
    # registration from the minimal candidate
    un = [s for s in l.body if isinstance(s, ast.Assign) and isinstance(s.targets[0], ast.Tuple) and src(s.value) == f'{sv}[0]']
    call = [c for c in walk_no_nested(l) if isinstance(c, ast.Call) and src(c.func) == 'self.addBarcode']
    ok = False
    detail = 'registration not found'
    if len(un) == 1 and len(call) == 1 and len(un[0].targets[0].elts) == 2:
        dv, ov = [e.id for e in un[0].targets[0].elts]
        kw = {k.arg: src(k.value) for k in call[0].keywords}
        pos = [src(a) for a in call[0].args]
        ok = kw.get('barcode') == key and kw.get('index') == f'self.barcodes[alias][{ov}]' and kw.get('hammingDistance') == dv and kw.get('originBarcode') == ov and pos == ['alias'] \
            and un[0].lineno > skip[0].lineno
        detail = f'addBarcode(barcode={kw.get("barcode")}, index={kw.get("index")}, hammingDistance={kw.get("hammingDistance")}, originBarcode={kw.get("originBarcode")}) with ({dv}, {ov}) = {sv}[0]'
    ctx.emit('C03-R1', ok, BARCODEPARSER, call[0] if call else l, detail, key='registration-provenance')
    # candidates are (distance, origin) tuples so that sorting orders by distance first
    app = [c for c in walk_no_nested(f) if isinstance(c, ast.Call) and isinstance(c.func, ast.Attribute) and c.func.attr == 'append' and 'hammingSpace[' in src(c.func.value)]
    ok = len(app) == 1 and isinstance(app[0].args[0], ast.Tuple) and [src(e) for e in app[0].args[0].elts] == ['hammingDistance', 'barcode']
    ctx.emit('C03-R1', ok, BARCODEPARSER, app[0] if app else f, 'candidates are stored as (distance, origin): sorting orders by distance first', key='candidate-tuple-order')
    ab = ctx.fn(BARCODEPARSER, f'{CLS}.addBarcode')
    t0 = [s for s in ab.body if isinstance(s, ast.If)]
    ok = bool(t0) and src(t0[0].test) == 'hammingDistance == 0' and 'self.barcodes[' in src(t0[0].body[0]) and 'self.extendedBarcodes[' in src(t0[0]) and \
        '(index, originBarcode, hammingDistance)' in src(t0[0]).replace('\n', ' ').replace('  ', '')
    ctx.emit('C03-R1', ok, BARCODEPARSER, ab, 'addBarcode: distance 0 -> exact table; otherwise extended table entry (index, origin, distance)', key='addBarcode-tables')


@rule('C03', 'C03-R3', 'candidates are generated for every distance 0..k inclusive, over the alphabet {A,C,G,T,N}; hamming_circle changes exactly '
                       'n positions, each to one of the len(alphabet)-1 other letters')
def r3(ctx):
    f = ctx.fn(BARCODEPARSER, f'{CLS}.expand')
    k = f.args.args[1].arg
    rng = [c for c in walk_no_nested(f) if isinstance(c, ast.Call) and dotted(c.func) == 'range']
    ok = len(rng) == 1 and ((len(rng[0].args) == 2 and src(rng[0].args[0]) == '0' and linform(rng[0].args[1]) == Lin({k: 1}, 1)) or
                            (len(rng[0].args) == 1 and linform(rng[0].args[0]) == Lin({k: 1}, 1)))
    ctx.emit('C03-R3', ok, BARCODEPARSER, rng[0] if rng else f, f'distances enumerated: {src(rng[0]) if rng else None}' + (' == 0..k inclusive' if ok else ' (expected range(0, k + 1))'), key='distance-range')
    hc = [c for c in walk_no_nested(f) if isinstance(c, ast.Call) and dotted(c.func) == 'hamming_circle']
    alpha = hc[0].args[2].value if len(hc) == 1 and len(hc[0].args) == 3 and isinstance(hc[0].args[2], ast.Constant) else None
    ok = alpha is not None and set(alpha) == set('ACGTN') and len(alpha) == 5
    ctx.emit('C03-R3', ok, BARCODEPARSER, hc[0] if hc else f, f'alphabet {alpha!r}' + (': 4 alternatives per position over {A,C,G,T,N}' if ok else
             ': not the five letters A,C,G,T,N -> some observed / whitelisted letters are never produced as substitution'), key='alphabet',
             what='expand: candidate alphabet is not {A,C,G,T,N}')
    okargs = len(hc) == 1 and [src(a) for a in hc[0].args[:2]] == ['barcode', 'hammingDistance']
    ctx.emit('C03-R3', okargs, BARCODEPARSER, hc[0] if hc else f, 'hamming_circle is called with (whitelisted barcode, distance, alphabet)', key='circle-arguments', nontrivial=False)
    g = ctx.fn(BARCODEPARSER, 'hamming_circle')
    s_, n_, a_ = [x.arg for x in g.args.args]
    loops = [l for l in walk_no_nested(g) if isinstance(l, ast.For)]
    sig = [src(l.iter) for l in sorted(loops, key=lambda l: l.lineno)]
    ok = len(sig) == 3 and sig[0] == f'itertools.combinations(range(len({s_})), {n_})' and sig[1] == f'itertools.product(range(len({a_}) - 1), repeat={n_})' and sig[2].startswith('zip(')
    ctx.emit('C03-R3', ok, BARCODEPARSER, g, f'hamming_circle: positions {sig[0] if sig else None}; replacements {sig[1] if len(sig) > 1 else None}', key='circle-enumeration')
    ifs = [i for i in walk_no_nested(g) if isinstance(i, ast.If)]
    ok = len(ifs) == 1 and isinstance(ifs[0].test, ast.Compare) and isinstance(ifs[0].test.ops[0], ast.Eq) and f'{a_}[' in src(ifs[0].test) and \
        f'{a_}[-1]' in src(ifs[0].body[0]) and f'{a_}[' in src(ifs[0].orelse[0]) and f'{a_}[-1]' not in src(ifs[0].orelse[0])
    ctx.emit('C03-R3', ok, BARCODEPARSER, ifs[0] if ifs else g, 'replacement rule: the chosen letter, or the last alphabet letter when it equals the original (always a different letter)', key='circle-replacement')


@rule('C03', 'C03-R4', 'lookup order: exact table (distance 0, the barcode itself), then the expanded table, then a pending lazy file loaded '
                       'at most once; unknown -> (None, None, None)')
def r4(ctx):
    f = ctx.fn(BARCODEPARSER, f'{CLS}.getIndexCorrectedBarcodeAndHammingDistance')
    b, a = f.args.args[1].arg, f.args.args[2].arg
    ifs = [s for s in f.body if isinstance(s, ast.If)]
    sig = [src(s.test) for s in ifs]
    want = [f'{b} in self.barcodes[{a}]', f'{b} in self.extendedBarcodes[{a}]', f'{a} in self.pending_files']
    ok = sig == want
    ctx.emit('C03-R4', ok, BARCODEPARSER, f, f'lookup tests in order: {sig}' + ('' if ok else f' (expected {want})'), key='lookup-order')
    if ok:
        r0 = ifs[0].body[0]
        okx = isinstance(r0, ast.Return) and src(r0.value) == f'(self.barcodes[{a}][{b}], {b}, 0)'
        ctx.emit('C03-R4', okx, BARCODEPARSER, r0, f'exact hit returns {src(r0.value) if isinstance(r0, ast.Return) else None}', key='exact-hit')
        r1_ = ifs[1].body[0]
        okx = isinstance(r1_, ast.Return) and src(r1_.value) == f'self.extendedBarcodes[{a}][{b}]'
        ctx.emit('C03-R4', okx, BARCODEPARSER, r1_, 'expanded hit returns the stored (index, origin, distance)', key='expanded-hit')
        lz = ifs[2]
        calls = [c for c in walk_no_nested(lz) if isinstance(c, ast.Call)]
        names = [src(c.func) for c in calls]
        rec = [c for c in calls if src(c.func).endswith('getIndexCorrectedBarcodeAndHammingDistance')]
        okx = 'self.parse_pending_barcode_file_of_alias' in names and len(rec) == 1 and any(k.arg == 'try_lazy_load_pending' and src(k.value) == 'False' for k in rec[0].keywords) \
            and [src(x) for x in rec[0].args] == [b, a]
        ctx.emit('C03-R4', okx, BARCODEPARSER, lz, 'pending alias: load (with expansion) and retry once with lazy loading disabled', key='lazy-retry-once')
    last = f.body[-1]
    ctx.emit('C03-R4', isinstance(last, ast.Return) and src(last.value) == '(None, None, None)', BARCODEPARSER, last, 'unknown barcode -> (None, None, None)', key='miss', nontrivial=False)


@rule('C03', 'C03-R5', 'lazily loaded aliases are expanded exactly like eagerly loaded ones: a pending file is only ever loaded through the '
                       'helper that parses, expands with the configured distance and forgets the pending entry')
def r5(ctx):
    c = ctx.ix.cls(BARCODEPARSER, CLS)
    ms = {m.name: m for m in c.body if isinstance(m, ast.FunctionDef)}
    h = ms.get('parse_pending_barcode_file_of_alias')
    if h is None:
        raise AnalysisError('parse_pending_barcode_file_of_alias not found')
    calls = [(src(x.func), x) for x in sorted([x for x in walk_no_nested(h) if isinstance(x, ast.Call)], key=lambda x: x.lineno)]
    names = [n for n, _ in calls if n.startswith('self.')]
    exp = [x for n, x in calls if n == 'self.expand']
    ok = names[:2] == ['self.parse_barcode_file', 'self.expand'] and len(exp) == 1 and src(exp[0].args[0]) == 'self.hammingDistanceExpansion' and \
        any(k.arg == 'alias' and src(k.value) == 'alias' for k in exp[0].keywords) and any(isinstance(s, ast.Delete) and 'self.pending_files[alias]' in src(s) for s in h.body)
    ctx.emit('C03-R5', ok, BARCODEPARSER, h, 'pending loader: parse_barcode_file -> expand(self.hammingDistanceExpansion, alias) -> del pending entry', key='pending-loader')
    # who may call parse_barcode_file / touch pending_files
    bad = []
    for name, m in ms.items():
        if name in ('__init__', 'parse_pending_barcode_file_of_alias'):
            continue
        for x in walk_no_nested(m):
            if isinstance(x, ast.Call) and src(x.func) == 'self.parse_barcode_file':
                bad.append((name, x, 'calls parse_barcode_file directly (no Hamming expansion for the loaded alias)'))
            if isinstance(x, ast.Call) and isinstance(x.func, ast.Attribute) and src(x.func.value) == 'self.pending_files' and x.func.attr in ('pop', 'clear', 'popitem'):
                bad.append((name, x, 'removes a pending entry without loading it through the expanding helper'))
            if isinstance(x, ast.Delete) and 'self.pending_files' in src(x):
                bad.append((name, x, 'deletes a pending entry'))
    for name, x, why in bad:
        ctx.emit('C03-R5', False, BARCODEPARSER, x, f'{CLS}.{name} {why}', key=f'pending-bypass:{name}', what=f'{CLS}.{name} loads a pending barcode file without Hamming expansion')
    if not bad:
        ctx.emit('C03-R5', True, BARCODEPARSER, c, 'parse_barcode_file is only called from the constructor and the expanding pending loader', key='pending-bypass')
    init = ms['__init__']
    post = [s for s in walk_no_nested(init) if isinstance(s, ast.If) and pred_is(s.test, lambda e: e['k'] > 0, {'hammingDistanceExpansion': 'k', 'self.hammingDistanceExpansion': 'k'}) and any('self.expand(hammingDistanceExpansion' in src(x) for x in s.body)]
    ctx.emit('C03-R5', len(post) == 1, BARCODEPARSER, post[0] if post else init, 'eager loading expands every parsed alias when the distance is > 0', key='eager-expand')
    gi = ms.get('__getitem__')
    if gi is not None:
        ok = any(isinstance(x, ast.Call) and src(x.func) == 'self.parse_pending_barcode_file_of_alias' for x in walk_no_nested(gi))
        ctx.emit('C03-R5', ok, BARCODEPARSER, gi, 'parser[alias] loads a pending alias through the expanding helper', key='getitem-loader')


META = {
    'text': ('Decides clause-level necessary conditions: registration of a corrected barcode is reachable only when the two smallest candidate '
             'distances differ (tie test enumerated over all abstract candidate lists), and index / origin / distance come from the minimal candidate; '
             'candidates are generated for every distance 0..k over exactly {A,C,G,T,N} with hamming_circle changing n positions to one of the '
             'len(alphabet)-1 other letters; lookups try exact (distance 0, itself), expanded, then a pending lazy file loaded once through the helper '
             'that also expands; no other method loads a pending file. Does NOT decide the nearest-neighbour statement over runtime whitelists.'),
    'technique': 'static analysis: comparison-predicate enumeration over abstract candidate lists, provenance checks of registration arguments, who-may-call rule for the lazy loader',
    'design_ref': 'DESIGN.md section 5, C03',
}
