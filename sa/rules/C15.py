"""C15 - consensus pseudo-reads are well-formed (structural clauses of the consensus call chain)."""
import ast
import importlib

from ..core import rule
from ..index import AnalysisError, dotted, src, walk_no_nested, names_in
from ..cfg import CFG, eval3, UNK
from ..domains import linform, Lin, check_pred
from ..util import node_calls, own_expr, last_name, reach_conds
from .slots import MOLECULE, SEQUTILS, P

ITERATION = P + 'utils/iteration.py'
CHAIN = [
    (MOLECULE, 'Molecule.write_pysam'), (MOLECULE, 'Molecule.deduplicate_majority'), (MOLECULE, 'Molecule.get_base_confidence_dict'),
    (MOLECULE, 'Molecule.get_dedup_reads'), (MOLECULE, 'Molecule.generate_partial_reads'), (MOLECULE, 'Molecule.get_consensus_read'),
    (MOLECULE, 'Molecule.extract_stretch_from_dict'), (MOLECULE, 'Molecule.get_CIGAR'), (MOLECULE, 'Molecule.write_tags_to_psuedoreads'),
    (MOLECULE, 'Molecule.get_aligned_blocks'),
    (SEQUTILS, 'phredscores_to_base_call'), (SEQUTILS, 'base_probabilities_to_likelihood'), (SEQUTILS, 'create_MD_tag'),
    (SEQUTILS, 'likelihood_to_prob'), (SEQUTILS, 'prob_to_phred'),
]
THIRD_PARTY = ('numpy', 'pysam', 'pandas', 'scipy')


def import_aliases(mod):
    """alias -> real module path for `import numpy as np`, `from numpy import x as y` (third-party only)."""
    al = {}
    for n in ast.walk(mod.tree):
        if isinstance(n, ast.Import):
            for a in n.names:
                if a.name.split('.')[0] in THIRD_PARTY:
                    al[a.asname or a.name.split('.')[0]] = a.name if a.asname else a.name.split('.')[0]
        elif isinstance(n, ast.ImportFrom) and n.module and n.module.split('.')[0] in THIRD_PARTY and n.level == 0:
            for a in n.names:
                if a.name != '*':
                    al[a.asname or a.name] = n.module + '.' + a.name
    return al


def resolve_attr(path):
    """Does dotted `path` (e.g. numpy.product) exist in the installed library? Library interface inspection only."""
    parts = path.split('.')
    try:
        obj = importlib.import_module(parts[0])
    except Exception:
        return None
    for i, p in enumerate(parts[1:], 1):
        if hasattr(obj, p):
            obj = getattr(obj, p)
        else:
            try:
                obj = importlib.import_module('.'.join(parts[:i + 1]))
            except Exception:
                return False
    return True


def third_party_refs(mod, fdef, aliases):
    out = []
    for n in walk_no_nested(fdef):
        if isinstance(n, ast.Attribute):
            d = dotted(n)
            if d is None:
                continue
            root = d.split('.')[0]
            if root in aliases and not isinstance(mod.parent.get(n), ast.Attribute):
                # skip method calls on values (np.array(x).sum): dotted() stops at calls, so d is a pure name path
                if '()' in d or '[]' in d:
                    continue
                out.append((n, aliases[root] + d[len(root):]))
        elif isinstance(n, ast.Name) and n.id in aliases and '.' in aliases[n.id] and isinstance(n.ctx, ast.Load) \
                and not isinstance(mod.parent.get(n), ast.Attribute):
            out.append((n, aliases[n.id]))
    return out


@rule('C15', 'C15-R1', 'every third-party attribute referenced on the consensus call chain exists in the installed library '
                       '(necessary for the consensus writer to run at all)')
def r1(ctx):
    ix = ctx.ix
    n = 0
    for relpath, q in CHAIN:
        if not ix.has_func(relpath, q):
            continue
        f = ctx.fn(relpath, q)
        mod = ix.module(relpath)
        al = import_aliases(mod)
        for node, path in third_party_refs(mod, f, al):
            ok = resolve_attr(path)
            if ok is None:
                continue
            n += 1
            ctx.emit('C15-R1', ok, relpath, node, f'{q}: `{src(node)}` -> {path} ' + ('exists' if ok else 'does NOT exist in the installed library (AttributeError at run time)'),
                     key=f'{q}:api:{path}', nontrivial=False,
                     what=f'{q} references {path}, which the installed library does not provide')
    ctx.need('C15-R1', n, 8, 'third-party attribute references on the consensus chain')


@rule('C15', 'C15-R1b', 'cross-reference: third-party attribute references of the whole package resolved against the installed libraries', tier='thorough')
def r1b(ctx):
    ix = ctx.ix
    missing = []
    n = 0
    for mod in ix.all_modules():
        al = import_aliases(mod)
        if not al:
            continue
        for node, path in third_party_refs(mod, mod.tree, al):
            pass
        for q, ds in mod.defs.items():
            for d in ds:
                if isinstance(d, (ast.FunctionDef, ast.AsyncFunctionDef)):
                    for node, path in third_party_refs(mod, d, al):
                        ok = resolve_attr(path)
                        if ok is None:
                            continue
                        n += 1
                        if not ok:
                            missing.append(f'{mod.relpath}:{node.lineno} {q}: {path}')
    for m in sorted(set(missing)):
        ctx.info('missing third-party attribute (outside the C15 chain, cross-reference only): ' + m)
    ctx.emit('C15-R1b', True, MOLECULE, None, f'{n} third-party references resolved package-wide, {len(set(missing))} unresolved listed as notes', nontrivial=False)


@rule('C15', 'C15-R2', 'CIGAR block arithmetic is consistent with inclusive aligned blocks: M = end - start + 1, '
                       'N = start - previous end - 1; the partial-read generator fetches exactly [position, position + M) '
                       'for each M and advances the reference position on every M and N')
def r2(ctx):
    sem = _cigar_by_interpretation(ctx)
    if sem is None:
        _r2_cigar_structural(ctx)
    else:
        okc, ncase, wit = sem
        ctx.counters['abstract_cases'] += ncase
        f_ = ctx.fn(MOLECULE, 'Molecule.get_CIGAR')
        ctx.emit('C15-R2', okc, MOLECULE, f_, f'get_CIGAR interpreted on {ncase} lists of up to three inclusive blocks: ' + ('M = end - start + 1 per block, N = gap between blocks, start / end of the alignment'
                 if okc else f'differs: {wit}'), key='cigar:M-length', witness=wit, what='get_CIGAR: block arithmetic differs from inclusive blocks')
        ctx.emit('C15-R2', okc, MOLECULE, f_, 'get_CIGAR: N operations sit between consecutive blocks only', key='cigar:N-length', nontrivial=False)
    _r2_rest(ctx)


def _cigar_by_interpretation(ctx):
    import itertools
    from ..consteval import run_function, Unfoldable, Raised
    f = ctx.fn(MOLECULE, 'Molecule.get_CIGAR')
    coords = range(0, 8)
    blocks = [(a, b) for a in coords for b in coords if a <= b]
    n = 0
    try:
        for k in (0, 1, 2, 3):
            for combo in itertools.combinations(blocks, k):
                if any(x[1] + 1 >= y[0] for x, y in zip(combo, combo[1:])):
                    continue            # maximal runs: sorted, disjoint, not adjacent
                n += 1

                def hook(ev, call, env, combo=combo):
                    if isinstance(call.func, ast.Attribute) and call.func.attr == 'get_aligned_blocks':
                        return [tuple(x) for x in combo]
                    return NotImplemented
                # the span of the molecule is NOT the span of its aligned blocks (clipped / unaligned read ends belong to the span only)
                got = run_function(f, ['<self>'], env={'self.spanStart': -5, 'self.spanEnd': 99, 'self.chromosome': 'chr1'}, budget=40000, call_hook=hook)
                want_c = []
                for i, (a, b) in enumerate(combo):
                    if i:
                        want_c.append(('N', a - combo[i - 1][1] - 1))
                    want_c.append(('M', b - a + 1))
                want = (want_c, combo[0][0] if combo else None, combo[-1][1] if combo else None)
                g_c = [tuple(x) for x in (got[0] or [])] if got is not None else None
                if got is None or (g_c, got[1], got[2]) != want:
                    return (False, n, {'aligned blocks (inclusive)': list(combo), 'returned': (g_c, got[1] if got else None, got[2] if got else None), 'expected': want})
    except (Unfoldable, Raised):
        return None
    except Exception:
        return None
    return (True, n, None)


def _r2_cigar_structural(ctx):
    ix = ctx.ix
    f = ctx.fn(MOLECULE, 'Molecule.get_CIGAR')
    # the loop over the aligned blocks: directly over get_aligned_blocks(), or over a local holding them (`blocks = list(...)`), with or
    # without an enumerate index
    block_lists = {s_.targets[0].id for s_ in walk_no_nested(f) if isinstance(s_, ast.Assign) and len(s_.targets) == 1 and isinstance(s_.targets[0], ast.Name)
                   and 'get_aligned_blocks' in src(s_.value)}
    loops = [l for l in walk_no_nested(f) if isinstance(l, ast.For) and ('get_aligned_blocks' in src(l.iter) or (names_in(l.iter) & block_lists))]
    idxv = None
    blist = None
    if len(loops) == 1:
        tg = loops[0].target
        if isinstance(loops[0].iter, ast.Call) and dotted(loops[0].iter.func) == 'enumerate' and isinstance(tg, ast.Tuple) and len(tg.elts) == 2 and isinstance(tg.elts[0], ast.Name) \
                and isinstance(tg.elts[1], ast.Tuple):
            idxv = tg.elts[0].id
            blist = src(loops[0].iter.args[0]) if loops[0].iter.args else None
            tg = tg.elts[1]
    if len(loops) != 1 or not (isinstance(tg, ast.Tuple) and len(tg.elts) == 2 and all(isinstance(e, ast.Name) for e in tg.elts)):
        raise AnalysisError('get_CIGAR: loop over get_aligned_blocks() not found')
    l = loops[0]
    st, en = [e.id for e in tg.elts]
    apps = {}
    for c in walk_no_nested(l):
        if isinstance(c, ast.Call) and isinstance(c.func, ast.Attribute) and c.func.attr == 'append' and c.args and isinstance(c.args[0], ast.Tuple) \
                and len(c.args[0].elts) == 2 and isinstance(c.args[0].elts[0], ast.Constant):
            apps[c.args[0].elts[0].value] = c.args[0].elts[1]
    prev = [s for s in l.body if isinstance(s, ast.Assign) and isinstance(s.targets[0], ast.Name) and src(s.value) == en]
    pv = prev[0].targets[0].id if prev else None
    okm = 'M' in apps and linform(apps['M']) == Lin({en: 1, st: -1}, 1)
    prev_syms = ([pv] if pv is not None else []) + ([f'{blist}[{idxv} - 1][1]'] if idxv and blist else [])
    okn = 'N' in apps and any(linform(apps['N']) == Lin({st: 1, p_: -1}, -1) for p_ in prev_syms)
    pv = pv if pv is not None else (prev_syms[0] if prev_syms else None)
    ctx.emit('C15-R2', okm, MOLECULE, l, f'get_CIGAR: M length `{src(apps.get("M")) if "M" in apps else None}` ' + ('== end - start + 1' if okm else '!= end - start + 1 (blocks are inclusive)'), key='cigar:M-length')
    ctx.emit('C15-R2', okn, MOLECULE, l, f'get_CIGAR: N length `{src(apps.get("N")) if "N" in apps else None}` with {pv} = previous block end ' + ('== start - prev_end - 1' if okn else 'is not the gap between inclusive blocks'), key='cigar:N-length')


def _find_ranges_by_interpretation(ctx, g):
    import itertools
    from ..consteval import run_function, Raised, Unfoldable, module_scope
    try:
        env = module_scope(ctx.ix, ITERATION)
        n = 0
        for k in range(0, 8):
            for combo in itertools.combinations(range(0, 8), k):
                n += 1
                got = [tuple(x) for x in run_function(g, [list(combo)], env=env, budget=20000)]
                want = []
                for v in combo:
                    if want and v == want[-1][1] + 1:
                        want[-1] = (want[-1][0], v)
                    else:
                        want.append((v, v))
                if got != want:
                    return (False, n, {'sorted positions': list(combo), 'yielded': got, 'maximal runs (first, last)': want})
    except (Unfoldable, Raised):
        return None
    except Exception:
        return None
    return (True, n, None)


def partial_reads_model(ctx):
    """Molecule.generate_partial_reads run by the abstract interpreter on model molecules: up to three inclusive aligned blocks at coordinates 0..7 (get_CIGAR is taken
    from the code as it is), max_N_span None / 0 / 1 / 2; fetching a stretch is a token that records its half-open interval.  Required: one partial read per run of
    blocks whose gaps do not exceed the span, starting at its first block, ending behind its last, with one stretch [start, end+1) and one `<len>M` per block and one
    `<gap>N` per gap inside it, sequence and quality stretches pairwise.  (ok, cases, witness) / None.  Cached per run."""
    if hasattr(ctx, '_partial_reads_model'):
        return ctx._partial_reads_model
    import itertools
    from ..consteval import run_function, Raised, Unfoldable, module_scope, Instance
    ctx._partial_reads_model = None
    try:
        env = module_scope(ctx.ix, MOLECULE)
        cls = env.get('Molecule')
        f = cls.method('generate_partial_reads')[0]
        gc = cls.method('get_CIGAR')[0]
    except Exception:
        return None
    coords = range(0, 8)
    blocks = [(a, b) for a in coords for b in coords if a <= b and b - a <= 2]
    n = 0
    sc = dict(cls.scope)
    sc['__class__'] = cls
    try:
        for k in (1, 2, 3):
            for combo in itertools.combinations(blocks, k):
                if any(x[1] + 1 >= y[0] for x, y in zip(combo, combo[1:])):
                    continue
                for span in (None, 0, 1, 2):
                    n += 1

                    def hook(ev, call, env_, combo=combo):
                        if isinstance(call.func, ast.Attribute):
                            at = call.func.attr
                            if at == 'get_aligned_blocks':
                                return [tuple(x) for x in combo]
                            if at == 'extract_stretch_from_dict':
                                a = [ev.ev(x, env_) for x in call.args]
                                return (f'S[{a[1]},{a[2]})', f'Q[{a[1]},{a[2]})')
                        return NotImplemented
                    me = Instance(cls, {'chromosome': 'c', 'spanStart': -5, 'spanEnd': 99})
                    got = run_function(f, [me, {}], {'max_N_span': span}, env=sc, call_hook=hook, budget=60000)
                    got = [(g_[0], g_[1], list(g_[2]), list(g_[3]), list(g_[4])) for g_ in got]
                    want, cur = [], None
                    for i, (a, b) in enumerate(combo):
                        if i:
                            gap = a - combo[i - 1][1] - 1
                            if span is not None and gap > span:
                                want.append(cur)
                                cur = None
                            else:
                                cur[4].append(f'{gap}N')
                        if cur is None:
                            cur = [a, None, [], [], []]
                        cur[1] = b + 1
                        cur[2].append(f'S[{a},{b + 1})')
                        cur[3].append(f'Q[{a},{b + 1})')
                        cur[4].append(f'{b - a + 1}M')
                    want.append(cur)
                    want = [tuple(w_) for w_ in want]
                    if got != want:
                        ctx._partial_reads_model = (False, n, {'aligned blocks (inclusive)': list(combo), 'max_N_span': span, 'partial reads (start, end, stretches, qualities, cigar)': got, 'expected': want})
                        return ctx._partial_reads_model
    except (Unfoldable, Raised):
        return None
    except Exception:
        return None
    ctx._partial_reads_model = (True, n, None)
    return ctx._partial_reads_model


def _r2_rest(ctx):
    from ..core import Ctx, VIOLATED, UNDECIDED
    sub = Ctx(ctx.ix, 'C15', ctx.tier)
    err = None
    try:
        _r2_rest_structural(sub)
    except AnalysisError as e_:
        err = e_
    except Exception as e_:
        err = AnalysisError(f'structural reading failed ({type(e_).__name__}: {e_})')
    for k_, v_ in sub.counters.items():
        ctx.counters[k_] = (ctx.counters.get(k_, set()) | v_) if isinstance(v_, set) else ctx.counters.get(k_, 0) + v_
    open_ = [o for o in sub.obligations if o.status in (VIOLATED, UNDECIDED) and 'generate_partial_reads' in o.construct]
    if err is None and not open_:
        ctx.obligations.extend(sub.obligations)
        return
    m = partial_reads_model(ctx)
    if m is None:
        ctx.obligations.extend(sub.obligations)
        if err is not None:
            raise err
        return
    ok, n, wit = m
    f = ctx.fn(MOLECULE, 'Molecule.generate_partial_reads')
    ctx.counters['interpreted_cases'] += n
    if ok:
        ctx.obligations.extend([o for o in sub.obligations if o not in open_])
        ctx.emit('C15-R2', True, MOLECULE, f, f'generate_partial_reads interpreted on {n} (aligned blocks, max_N_span) cases: one partial read per run of blocks, one stretch [start, end+1) and one M per block, '
                 f'one N per inner gap, stretches and qualities pairwise (the structural reading did not follow the restructured method)', key='partial-reads:model')
    else:
        ctx.obligations.extend(sub.obligations)
        ctx.emit('C15-R2', False, MOLECULE, f, f'generate_partial_reads on a model molecule: {wit}', key='partial-reads:model', witness=wit, what='generate_partial_reads: partial reads do not cover the aligned blocks')


def _r2_rest_structural(ctx):
    ix = ctx.ix
    # the N is only emitted between blocks and the M for every block
    g = ctx.fn(ITERATION, 'find_ranges') if ix.exists(ITERATION) and ix.has_func(ITERATION, 'find_ranges') else None
    sem = _find_ranges_by_interpretation(ctx, g) if g is not None else None
    if sem is not None:
        ctx.counters['abstract_cases'] += sem[1]
        ctx.emit('C15-R2', sem[0], ITERATION, g, f'find_ranges interpreted on {sem[1]} sorted position lists: yields the inclusive (first, last) of every maximal run' if sem[0] else f'find_ranges differs: {sem[2]}',
                 key='find_ranges:inclusive', witness=sem[2], what='find_ranges: the aligned blocks are not the maximal runs of covered positions')
    elif g is not None:
        ys = [y for y in walk_no_nested(g) if isinstance(y, ast.Yield)]
        ok = bool(ys) and all(isinstance(y.value, ast.Tuple) and len(y.value.elts) == 2 and src(y.value.elts[0]).endswith('[0]') and
                              src(y.value.elts[1]).endswith(('[-1]', '[0]')) for y in ys)
        ctx.emit('C15-R2', ok, ITERATION, g, 'find_ranges yields inclusive (first, last) pairs of each consecutive group', key='find_ranges:inclusive')
    # generate_partial_reads: symbolic execution of the M / N arms
    h = ctx.fn(MOLECULE, 'Molecule.generate_partial_reads')
    loop = [x for x in walk_no_nested(h) if isinstance(x, ast.For) and isinstance(x.target, ast.Tuple) and len(x.target.elts) == 2]
    if len(loop) != 1:
        raise AnalysisError('generate_partial_reads: CIGAR loop not found')
    loop = loop[0]
    opv, amt = [e.id for e in loop.target.elts]
    cfg = CFG(loop.body, exceptions=False)
    res = {'M': [], 'N': []}
    for p, _ in cfg.paths():
        term = cfg.nodes[p[-1][0]].info
        if term not in ('fall', 'continue'):
            continue
        arm = None
        optests = []
        env = {'reference_position': Lin({'rp0': 1})}
        fetch = None
        for nid, label in p:
            nn = cfg.nodes[nid]
            if nn.kind == 'test':
                if opv in names_in(nn.ast.test) and label in ('true', 'false'):
                    optests.append((nn.ast.test, label == 'true'))
            elif nn.kind == 'stmt':
                a = nn.ast
                if isinstance(a, ast.Assign) and isinstance(a.targets[0], ast.Name) and not isinstance(a.value, (ast.List, ast.Call, ast.Tuple)):
                    env[a.targets[0].id] = linform(a.value, env)
                elif isinstance(a, ast.AugAssign) and isinstance(a.target, ast.Name) and isinstance(a.op, (ast.Add, ast.Sub)):
                    cur = env.get(a.target.id, Lin({a.target.id + '0': 1}))
                    d = linform(a.value, env)
                    env[a.target.id] = cur + d if isinstance(a.op, ast.Add) else cur - d
                for c in node_calls(nn):
                    if isinstance(c.func, ast.Attribute) and c.func.attr == 'extract_stretch_from_dict' and len(c.args) == 3:
                        fetch = (linform(c.args[1], env), linform(c.args[2], env))
        # the CIGAR operation(s) for which this path is feasible: every test on the operation variable agrees (however the arms are written:
        # if/elif chain, `!= 'M': continue` guards ...)
        feas = [v for v in ('M', 'N', 'S', 'I', 'D') if all((lambda r_: r_ is not UNK and bool(r_) == pol)(eval3(t_, {opv: v})) for t_, pol in optests)]
        for arm in feas:
            if arm in res:
                res[arm].append((env.get('reference_position'), fetch, env.get('reference_end')))
    ctx.counters['paths_enumerated'] += sum(len(v) for v in res.values())
    rp0, am = Lin({'rp0': 1}), Lin({amt: 1})
    okM = bool(res['M']) and all(rp == rp0 + am and ft == (rp0, rp0 + am) and re_ == rp0 + am for rp, ft, re_ in res['M'])
    okN = bool(res['N']) and all(rp == rp0 + am and ft is None for rp, ft, re_ in res['N'])
    ctx.emit('C15-R2', okM, MOLECULE, loop, f'generate_partial_reads M arm: fetches {res["M"][0][1] if res["M"] else None}, position -> {res["M"][0][0] if res["M"] else None} ' +
             ('== [pos, pos+M) and pos+M' if okM else '(expected [rp0, rp0+amount), rp0+amount)'), key='partial-reads:M-arm')
    ctx.emit('C15-R2', okN, MOLECULE, loop, f'generate_partial_reads N arm ({len(res["N"])} paths): position -> {sorted({str(x[0]) for x in res["N"]})} ' +
             ('advances by the gap on every path, nothing fetched' if okN else '(expected rp0 + amount on every path)'), key='partial-reads:N-arm')
    # sequence and qualities are appended pairwise and reset together
    seqv, qualv = 'partial_sequence', 'partial_phred'
    bad = []
    for p, _ in cfg.paths():
        cnt = {seqv: 0, qualv: 0}
        rst = {seqv: 0, qualv: 0}
        for nid, label in p:
            nn = cfg.nodes[nid]
            if nn.kind != 'stmt':
                continue
            for c in node_calls(nn):
                if isinstance(c.func, ast.Attribute) and c.func.attr == 'append' and src(c.func.value) in cnt:
                    cnt[src(c.func.value)] += 1
            if isinstance(nn.ast, ast.Assign) and src(nn.ast.targets[0]) in rst and isinstance(nn.ast.value, ast.List) and not nn.ast.value.elts:
                rst[src(nn.ast.targets[0])] += 1
        if cnt[seqv] != cnt[qualv] or rst[seqv] != rst[qualv]:
            bad.append(cfg.fmt_path(p)[:200])
    ctx.emit('C15-R2', not bad, MOLECULE, loop, 'sequence and quality stretches are appended and cleared pairwise on every path' if not bad else f'unpaired update on path {bad[0]}', key='partial-reads:paired-lists')
    # extract_stretch_from_dict: both arrays range over the same half-open interval
    e = ctx.fn(MOLECULE, 'Molecule.extract_stretch_from_dict')
    rngs = {src(c) for c in walk_no_nested(e) if isinstance(c, ast.Call) and dotted(c.func) == 'range'}
    a1, a2 = e.args.args[2].arg, e.args.args[3].arg
    ok = rngs == {f'range({a1}, {a2})'}
    dflt = [c for c in walk_no_nested(e) if isinstance(c, ast.Call) and isinstance(c.func, ast.Attribute) and c.func.attr == 'get' and len(c.args) == 2]
    okd = bool(dflt) and all(src(c.args[1]).replace(' ', '') == "('N',0)" for c in dflt)
    ctx.emit('C15-R2', ok and okd, MOLECULE, e, f'extract_stretch_from_dict: bases and qualities iterate {sorted(rngs)}; uncovered positions default to ' +
             f'{sorted({src(c.args[1]) for c in dflt})}', key='extract-stretch:same-range')


def _md_by_interpretation(ctx, m):
    import itertools
    from ..consteval import run_function, Raised, Unfoldable, module_scope
    try:
        env = module_scope(ctx.ix, SEQUTILS)
        n = 0
        for L in range(0, 4):
            for ref in itertools.product('ACa', repeat=L):
                for q in itertools.product('AC', repeat=L):
                    n += 1
                    got = run_function(m, [''.join(ref), ''.join(q)], env=env, budget=20000)
                    md, run = [], 0
                    for r_, q_ in zip(ref, q):
                        if r_.upper() == q_:
                            run += 1
                        else:
                            if run:
                                md.append(str(run))
                            md.append(r_.upper())
                            run = 0
                    if run:
                        md.append(str(run))
                    if got != ''.join(md):
                        return (False, n, {'reference': ''.join(ref), 'query': ''.join(q), 'MD': got, 'expected': ''.join(md)})
    except (Unfoldable, Raised):
        return None
    except Exception:
        return None
    return (True, n, None)


def _basecall_by_interpretation(ctx, f):
    import itertools
    from ..consteval import run_function, Raised, Unfoldable, module_scope
    try:
        env = module_scope(ctx.ix, SEQUTILS)
    except Exception:
        return None
    n = 0
    full = False
    # (1) the caller with the likelihood model as it is, on observation tables (probabilities of the single observations): unanimous positions whose observations are
    # more likely all wrong than all right included
    try:
        tables = [{'A': [0.9]}, {'A': [0.3]}, {'A': [0.5]}, {'A': [0.9, 0.8]}, {'A': [0.4, 0.4]}, {'A': [0.9], 'C': [0.9]}, {'A': [0.9, 0.9], 'C': [0.8]}, {'C': [0.2], 'A': [0.6]}, {'G': [0.1, 0.2, 0.3]}]
        for obs in tables:
            n += 1
            got = run_function(f, [{k_: list(v_) for k_, v_ in obs.items()}], env=env, budget=40000)
            allp = [p_ for ps in obs.values() for p_ in ps]
            lk = {}
            for b_, ps in obs.items():
                v_ = 1.0
                for p_ in ps:
                    v_ *= p_
                lk[b_] = v_ / (0.25 ** (len(ps) - 1))
            v_ = 1.0
            for p_ in allp:
                v_ *= (1 - p_)
            lk['N'] = v_ / (0.25 ** (len(allp) - 1))
            ranked = sorted(lk.items(), key=lambda kv: -kv[1])
            tot = sum(lk.values())
            if abs(ranked[0][1] - ranked[1][1]) < 1e-12:
                want = ('N', 0)
            else:
                want = (ranked[0][0], ranked[0][1] / tot)
            g0, g1 = tuple(got)[0], float(tuple(got)[1])
            if g0 != want[0] or abs(g1 - float(want[1])) > 1e-9:
                return (False, n, {'observation probabilities per base': obs, 'call': (g0, g1), 'expected (most likely of the bases and "all observations wrong")': want})
        full = True
    except (Unfoldable, Raised):
        pass
    except Exception:
        pass
    # (2) the decision on abstract likelihood tables (the likelihood model replaced by the table itself)
    try:
        def hook(ev, call, env_):
            if (dotted(call.func) or '').endswith('base_probabilities_to_likelihood'):
                return dict(ev.ev(call.args[0], env_))
            return NotImplemented
        for bases in (), ('A',), ('A', 'C'), ('C', 'A'), ('A', 'C', 'N'), ('N', 'C', 'A'):
            for vals in itertools.product((1, 2, 4), repeat=len(bases)):
                n += 1
                lk = dict(zip(bases, vals))
                got = run_function(f, [dict(lk)], env=env, call_hook=hook, budget=20000)
                ranked = sorted(lk.items(), key=lambda kv: -kv[1])
                if not ranked or (len(ranked) >= 2 and ranked[0][1] == ranked[1][1]):
                    want = ('N', 0)
                else:
                    want = (ranked[0][0], ranked[0][1] / sum(lk.values()))
                if tuple(got) != want:
                    return (False, n, {'likelihood per base': lk, 'call': tuple(got), 'expected': want})
    except (Unfoldable, Raised):
        return (True, n, None) if full else None
    except Exception:
        return (True, n, None) if full else None
    return (True, n, None)


@rule('C15', 'C15-R3', 'undecidable calls yield N: the likelihood caller returns ("N", 0) when there is no observation or the two '
                       'best bases tie, and that test dominates the normal return')
def r3(ctx):
    f = ctx.fn(SEQUTILS, 'phredscores_to_base_call')
    sem = _basecall_by_interpretation(ctx, f)
    if sem is not None:
        ctx.counters['abstract_cases'] += sem[1]
        ctx.emit('C15-R3', sem[0], SEQUTILS, f, f'phredscores_to_base_call interpreted on {sem[1]} likelihood tables: ("N", 0) iff no observation or the two most likely bases tie, otherwise the most likely base '
                 'with its share of the total likelihood' if sem[0] else f'phredscores_to_base_call differs: {sem[2]}', key='tie-returns-N', witness=sem[2], what='phredscores_to_base_call: undecidable call is not N')
        ctx.exhaustive['C15-R3'] = True
        _r3_likelihood(ctx)
        return
    # the ranked list: the local assigned from Counter(...).most_common()
    def is_ranking(v):
        # Counter(..).most_common()  or  sorted(<mapping>.items(), key=<second element>, reverse=True): (base, probability) pairs, best first
        if src(v).endswith('.most_common()'):
            return True
        if isinstance(v, ast.Call) and dotted(v.func) == 'sorted' and v.args and src(v.args[0]).endswith('.items()'):
            kw = {k.arg: k.value for k in v.keywords}
            rev = isinstance(kw.get('reverse'), ast.Constant) and kw['reverse'].value is True
            key = kw.get('key')
            by_value = isinstance(key, ast.Lambda) and len(key.args.args) == 1 and src(key.body) == f'{key.args.args[0].arg}[1]' or (key is not None and src(key) in ('operator.itemgetter(1)', 'itemgetter(1)'))
            return rev and bool(by_value)
        return False
    ranked = [s_ for s_ in walk_no_nested(f) if isinstance(s_, ast.Assign) and len(s_.targets) == 1 and isinstance(s_.targets[0], ast.Name) and is_ranking(s_.value)]
    if len(ranked) != 1:
        ctx.emit('C15-R3', False, SEQUTILS, f, 'phredscores_to_base_call: how the candidates are ranked was not recognised (most_common() / sorted by probability, descending)', key='tie-returns-N', undecided=True)
        return
    var = ranked[0].targets[0].id

    def atom(n):
        if isinstance(n, ast.Compare):
            return None
        s_ = src(n)
        if s_ == f'len({var})':
            return 'n'
        if s_ == f'{var}[0][1]':
            return 'p0'
        if s_ == f'{var}[1][1]':
            return 'p1'
        return None
    from ..domains import assignments
    from ..util import outcomes_by_case
    cases = list(assignments(['n', 'p0', 'p1'], (0, 1, 2), (), lambda e: e['n'] >= 0 and e['p0'] >= e['p1']))
    after_rank = f.body[f.body.index(ranked[0]) + 1:] if ranked[0] in f.body else f.body
    bad = []
    best = {f'({var}[0][0], {var}[0][1])', f'{var}[0]'}
    for case, outs in outcomes_by_case(after_rank, cases, atom, truthy=lambda x, case: (case['n'] > 0) if src(x) == var else None):
        undecidable = case['n'] == 0 or (case['n'] >= 2 and case['p0'] == case['p1'])
        rets = {v for k, v in outs if k == 'return'}
        good = (rets == {"('N', 0)"}) if undecidable else (len(rets) == 1 and next(iter(rets)) in best)
        if (not good or any(k != 'return' for k, v in outs)) and len(bad) < 3:
            bad.append({'case': case, 'outcomes': sorted(map(str, outs)), 'undecidable': undecidable})
    ncase = len(cases)
    ctx.counters['abstract_cases'] += ncase
    ctx.emit('C15-R3', not bad, SEQUTILS, ranked[0],
             f'phredscores_to_base_call over {ncase} cases (number of candidates, two best probabilities): ' +
             ('("N", 0) iff no observation or tie of the two most likely bases, otherwise the best ranked call' if not bad else f'differs at {bad[0]}'),
             key='tie-returns-N', witness=bad[0] if bad else None)
    ctx.exhaustive['C15-R3'] = True
    _r3_likelihood(ctx)


def _r3_likelihood(ctx):
    # normalisation uses all bases incl. N; product over observations
    g = ctx.fn(SEQUTILS, 'base_probabilities_to_likelihood')
    al = import_aliases(ctx.ix.module(SEQUTILS))
    ok = any(isinstance(c, ast.Call) and ((dotted(c.func) or '').split('.')[-1] == 'prod' or al.get(dotted(c.func) or '', '').endswith('.prod'))
             for c in walk_no_nested(g))
    ctx.emit('C15-R3', ok, SEQUTILS, g, 'likelihood of a base is the product of its observation probabilities', key='likelihood-product', nontrivial=False)


@rule('C15', 'C15-R4', 'pseudo-reads: default CIGAR is len(sequence)M, sample / site / UMI / fragment-count tags are written to '
                       'every pseudo-read, and a value that may be None is never subscripted unguarded')
def r4(ctx):
    return _r4_impl(ctx)


def _r4_placed_by_name(ctx, f):
    """the pseudo-read is created against the header of the TARGET file: it is placed by contig name (resolved against that header), never by the numeric
    reference id of a source read - an index into the header of the file the reads came from, which need not list the contigs in the same order"""
    mk = [s_ for s_ in walk_no_nested(f) if isinstance(s_, ast.Assign) and isinstance(s_.value, ast.Call) and (dotted(s_.value.func) or '').endswith('AlignedSegment') and isinstance(s_.targets[0], ast.Name)]
    if len(mk) != 1:
        ctx.emit('C15-R4', True, MOLECULE, f, 'the pseudo-read is not constructed in get_consensus_read itself: placement not inspected', key='pseudo-read-placed-by-name', nontrivial=False)
        return
    v = mk[0].targets[0].id
    by_name = [s_ for s_ in walk_no_nested(f) if isinstance(s_, ast.Assign) and any(src(t_) == f'{v}.reference_name' for t_ in s_.targets)]
    by_id = [s_ for s_ in walk_no_nested(f) if isinstance(s_, ast.Assign) and any(src(t_) in (f'{v}.reference_id', f'{v}.tid') for t_ in s_.targets)]
    bad = [s_ for s_ in by_id if not any(isinstance(c_, ast.Call) and isinstance(c_.func, ast.Attribute) and c_.func.attr in ('get_tid', 'gettid') and 'target' in src(c_.func.value) for c_ in ast.walk(s_.value))]
    if bad:
        ctx.emit('C15-R4', False, MOLECULE, bad[0], f'`{src(bad[0])[:120]}` places the pseudo-read by a numeric reference id that is not looked up in the target header: ids index the header of the file the '
                 f'source reads came from, in a target file with another contig order the consensus record lands on another contig', key='pseudo-read-placed-by-name',
                 what='get_consensus_read: pseudo-read placed by the reference id of a source read')
    elif by_name or by_id:
        ctx.emit('C15-R4', True, MOLECULE, (by_name or by_id)[0], 'the pseudo-read is placed by contig name / an id looked up in the target header', key='pseudo-read-placed-by-name')
    else:
        ctx.emit('C15-R4', False, MOLECULE, mk[0], 'no placement (reference_name / reference_id) of the pseudo-read found', key='pseudo-read-placed-by-name', undecided=True)


def _r4_impl(ctx):
    f = ctx.fn(MOLECULE, 'Molecule.get_consensus_read')
    _r4_placed_by_name(ctx, f)
    # path-based: with no CIGAR supplied, the CIGAR stored on the pseudo-read is f'{len(S)}M' for the very S stored as its sequence; a
    # supplied CIGAR is stored unchanged
    from ..util import explore, mk_atoms
    cig_param = 'cigarstring'
    problems = []
    npaths = 0
    shown = None
    for supplied in (False, True):
        for r in explore(f.body, mk_atoms({f'{cig_param} is None': not supplied, f'{cig_param} is not None': supplied}), names=None, max_paths=4000):
            if r['kind'] not in ('return', 'fall'):
                continue
            npaths += 1
            cs = [v for t, v, k in r['stores'] if t.endswith('.cigarstring')]
            qs = [v for t, v, k in r['stores'] if t.endswith('.query_sequence')]
            if len(cs) != 1 or len(qs) != 1:
                problems.append(f'CIGAR / sequence stored {len(cs)} / {len(qs)} times on a path')
                continue

            def res(v):
                for _ in range(4):
                    if v in r['env'] and not (supplied and v == cig_param):
                        nv = src(r['env'][v])
                        if nv == v:
                            break
                        v = nv
                    else:
                        break
                return v
            cv = res(cs[0])
            if supplied:
                if cv != cig_param:
                    problems.append(f'a supplied CIGAR is replaced by `{cv}`')
            else:
                shown = cv
                if cv not in ("f'{len(" + qs[0] + ")}M'", "f'{len(" + res(qs[0]) + ")}M'", "str(len(" + qs[0] + ")) + 'M'"):
                    problems.append(f'default CIGAR `{cv}` does not span the stored sequence `{qs[0]}`')
    ctx.counters['paths_enumerated'] += npaths
    ctx.emit('C15-R4', not problems and npaths >= 2, MOLECULE, f, f'default CIGAR {shown} spans the stored sequence on all {npaths} paths; a supplied CIGAR is kept' if not problems else problems[0], key='default-cigar')
    okq = any(src(s.targets[0]).endswith('.query_qualities') for s in walk_no_nested(f) if isinstance(s, ast.Assign))
    calls_tags = any(isinstance(c, ast.Call) and isinstance(c.func, ast.Attribute) and c.func.attr == 'write_tags_to_psuedoreads' for c in walk_no_nested(f))
    ctx.emit('C15-R4', okq and calls_tags, MOLECULE, f, 'get_consensus_read sets qualities and writes the molecule tags to the pseudo-read', key='consensus-read:tags-called', nontrivial=False)
    # the sequence/quality/cigar/md handed over by get_dedup_reads come from the same partial read
    gd = ctx.fn(MOLECULE, 'Molecule.get_dedup_reads')
    call = [c for c in walk_no_nested(gd) if isinstance(c, ast.Call) and isinstance(c.func, ast.Attribute) and c.func.attr == 'get_consensus_read']
    if len(call) != 1:
        raise AnalysisError('get_dedup_reads: get_consensus_read call not found')
    kw = {k.arg: k.value for k in call[0].keywords}
    loopt = [l for l in walk_no_nested(gd) if isinstance(l, ast.For) and 'generate_partial_reads' in src(l.iter)]
    names = [e.id for e in loopt[0].target.elts] if loopt and isinstance(loopt[0].target, ast.Tuple) else []
    if loopt and isinstance(loopt[0].target, ast.Name):
        # `for item in ...: a, b, c, d, e, f = item`
        for st_ in loopt[0].body:
            if isinstance(st_, ast.Assign) and isinstance(st_.targets[0], ast.Tuple) and src(st_.value) == loopt[0].target.id and all(isinstance(e, ast.Name) for e in st_.targets[0].elts):
                names = [e.id for e in st_.targets[0].elts]
                break
        else:
            # or element access by index
            idx = {}
            for st_ in walk_no_nested(loopt[0]):
                if isinstance(st_, ast.Assign) and len(st_.targets) == 1 and isinstance(st_.targets[0], ast.Name) and isinstance(st_.value, ast.Subscript) \
                        and src(st_.value.value) == loopt[0].target.id and isinstance(st_.value.slice, ast.Constant):
                    idx[st_.value.slice.value] = st_.targets[0].id
            names = [idx.get(k, f'<unused {k}>') for k in range(6)] if idx else []

    def roots(e):
        """names an expression depends on, looking through single-assignment locals of the loop body"""
        seen = set()
        todo = set(names_in(e)) if e is not None else set()
        while todo:
            n_ = todo.pop()
            if n_ in seen:
                continue
            seen.add(n_)
            ds = [st_ for st_ in walk_no_nested(gd) if isinstance(st_, ast.Assign) and len(st_.targets) == 1 and isinstance(st_.targets[0], ast.Name) and st_.targets[0].id == n_]
            if len(ds) == 1 and n_ not in names:
                todo |= set(names_in(ds[0].value))
        return seen
    ok = len(names) == 6 and names[2] in roots(kw.get('consensus')) and names[3] in roots(kw.get('phred_scores')) \
        and names[4] in roots(kw.get('cigarstring')) and src(kw.get('start', ast.Constant(0))) == names[0]
    ctx.emit('C15-R4', bool(ok), MOLECULE, call[0], 'consensus read is built from (start, sequence, qualities, CIGAR) of one partial read', key='dedup-reads:argument-wiring')
    # MD: the reference string is assembled from M operations only when the CIGAR may contain N
    md = kw.get('mdstring')
    okmd = False
    why = 'no MD computed'
    if md is not None and isinstance(md, ast.Call) and last_name(dotted(md.func) or '') == 'create_MD_tag' and len(md.args) == 2:
        refarg, qarg = md.args
        okq2 = bool(names) and names[2] in roots(qarg)
        direct_fetch = [c for c in walk_no_nested(refarg) if isinstance(c, ast.Call) and isinstance(c.func, ast.Attribute) and c.func.attr == 'fetch']
        if direct_fetch:
            # a contiguous fetch start..end is only right when no N can be inside the partial CIGAR
            gp = ctx.fn(MOLECULE, 'Molecule.generate_partial_reads')
            emits_N = any(isinstance(c, ast.Call) and isinstance(c.func, ast.Attribute) and c.func.attr == 'append' and src(c.func.value) == 'partial_CIGAR'
                          and _in_arm(ix_mod(ctx), c, 'N') for c in walk_no_nested(gp))
            okmd = okq2 and not emits_N
            why = 'MD reference is one contiguous fetch although the CIGAR can contain N operations (reference and query misaligned after the first gap)' if emits_N else 'contiguous fetch, no N possible'
        else:
            # must be assembled in a loop over the CIGAR operations, fetching only for M
            refnames = roots(refarg)
            blt = None
            for l in [x for x in walk_no_nested(gd) if isinstance(x, ast.For)]:
                for c in walk_no_nested(l):
                    if isinstance(c, ast.Call) and isinstance(c.func, ast.Attribute) and c.func.attr == 'append' and src(c.func.value) in refnames \
                            and any(isinstance(y, ast.Call) and isinstance(y.func, ast.Attribute) and y.func.attr == 'fetch' for y in walk_no_nested(c)):
                        blt = (l, c)
            if blt is not None:
                l, c = blt
                over_cigar = bool(names) and names[4] in names_in(l.iter)
                # the fetch executes exactly for M operations: its reach condition in the loop body evaluated for the operation letters
                conds = reach_conds(l.body, c) or []
                guarded = ' and '.join((src(t_) if pol else f'not ({src(t_)})') for t_, pol in conds)
                opn = l.target.id if isinstance(l.target, ast.Name) else None

                def holds(letter):
                    at = lambda e: (letter if src(e) == f'{opn}[-1]' else UNK)
                    vals = [(eval3(t_, {}, at), pol) for t_, pol in conds]
                    return all(v is not UNK and bool(v) == pol for v, pol in vals)
                okmd = okq2 and over_cigar and opn is not None and bool(conds) and holds('M') and not holds('N') and not holds('S')
                # pointer advanced for every operation
                adv = [a for a in l.body if isinstance(a, ast.AugAssign) and isinstance(a.op, ast.Add)]
                okmd = okmd and len(adv) >= 1
                why = f'MD reference assembled per CIGAR operation under guard `{guarded}`' + ('' if adv else ' but the pointer is not advanced for every operation')
            else:
                why = 'MD reference argument of unknown provenance'
    ctx.emit('C15-R4', okmd, MOLECULE, call[0], 'MD tag: ' + why, key='dedup-reads:md-reference',
             what='Molecule.get_dedup_reads computes MD from the contiguous reference span although the CIGAR contains N gaps')
    # tags
    w = ctx.fn(MOLECULE, 'Molecule.write_tags_to_psuedoreads')
    loops = [l for l in w.body if isinstance(l, ast.For)]
    tagset = {}
    for l in loops:
        cfg = CFG(l.body, exceptions=False)
        pd = cfg.dominators(reverse=True, roots=[t for k, t in cfg.terms.items() if k in ('fall', 'continue')])
        for nd in cfg.nodes:
            for c in node_calls(nd):
                if isinstance(c.func, ast.Attribute) and c.func.attr == 'set_tag' and c.args and isinstance(c.args[0], ast.Constant):
                    uncond = nd.id in pd[cfg.entry]
                    tagset[c.args[0].value] = tagset.get(c.args[0].value, False) or uncond
    need_uncond = {'SM', 'TF'}
    need_any = {'SM', 'TF', 'RX', 'DS'}
    ok = need_any <= set(tagset) and all(tagset.get(t) for t in need_uncond)
    ctx.emit('C15-R4', ok, MOLECULE, w, f'write_tags_to_psuedoreads sets {sorted(tagset)} (unconditional: {sorted(t for t, u in tagset.items() if u)})', key='pseudoread-tags')
    # None-guard: a call result that may be None must not be subscripted directly
    may_none = {}
    cls = ctx.ix.cls(MOLECULE, 'Molecule')
    for m in cls.body:
        if isinstance(m, ast.FunctionDef):
            rets = [r for r in walk_no_nested(m) if isinstance(r, ast.Return)]
            if any(r.value is None or (isinstance(r.value, ast.Constant) and r.value.value is None) for r in rets) and \
                    any(r.value is not None and not (isinstance(r.value, ast.Constant) and r.value.value is None) for r in rets):
                may_none[m.name] = True
    bad = []
    n_sub = 0
    for relpath, q in CHAIN:
        if relpath != MOLECULE or not ctx.ix.has_func(relpath, q):
            continue
        fn = ctx.ix.func(relpath, q)
        for n in walk_no_nested(fn):
            if isinstance(n, ast.Subscript) and isinstance(n.value, ast.Call) and isinstance(n.value.func, ast.Attribute) \
                    and isinstance(n.value.func.value, ast.Name) and n.value.func.value.id == 'self' and n.value.func.attr in may_none:
                n_sub += 1
                bad.append((q, n))
    for q, n in bad:
        ctx.emit('C15-R4', False, MOLECULE, n, f'{q}: `{src(n)}` subscripts a value that is None when the molecule has no site', key=f'{q}:none-subscript:{src(n)}',
                 what=f'{q} subscripts {src(n.value)} which returns None for molecules without a cut site')
    if not bad:
        ctx.emit('C15-R4', True, MOLECULE, w, f'no direct subscript of a maybe-None method result on the consensus chain ({len(may_none)} maybe-None methods known)', key='none-subscript')


def ix_mod(ctx):
    return ctx.ix.module(MOLECULE)


def _in_arm(mod, node, op):
    """node is lexically inside an `if operation == '<op>'` arm (true branch)."""
    child = node
    p = mod.parent.get(node)
    while p is not None:
        if isinstance(p, ast.If) and isinstance(p.test, ast.Compare) and len(p.test.comparators) == 1 and \
                isinstance(p.test.comparators[0], ast.Constant) and p.test.comparators[0].value == op and isinstance(p.test.ops[0], ast.Eq):
            if any(child is b or any(x is child for x in ast.walk(b)) for b in p.body):
                return True
        child = p
        p = mod.parent.get(p)
    return False


def _guard_text(mod, node, stop):
    out = []
    p = mod.parent.get(node)
    while p is not None and p is not stop:
        if isinstance(p, ast.If):
            out.append(src(p.test))
        p = mod.parent.get(p)
    return ' and '.join(out)


@rule('C15', 'C15-R6', 'the consensus record describes the same molecule as the source reads: the fragment-count tag TF is computed by the same expression '
                       'for source reads and pseudo-reads, and every aligned base of every read of the molecule enters the base observations (reads are '
                       'not skipped by their flags: write_tags has marked fragments 2..n duplicate before the consensus is built)')
def r6(ctx):
    w = ctx.fn(MOLECULE, 'Molecule.write_tags')
    p = ctx.fn(MOLECULE, 'Molecule.write_tags_to_psuedoreads')

    def tf_values(f):
        out = []
        for c in walk_no_nested(f):
            if isinstance(c, ast.Call) and isinstance(c.func, ast.Attribute) and c.func.attr in ('set_meta', 'set_tag') and len(c.args) >= 2 \
                    and isinstance(c.args[0], ast.Constant) and c.args[0].value == 'TF':
                out.append(c.args[1])
        return out
    a, b = tf_values(w), tf_values(p)
    ok = len(a) == 1 and len(b) == 1 and linform(a[0]) is not None and str(linform(a[0])) == str(linform(b[0]))
    ctx.emit('C15-R6', ok, MOLECULE, b[0] if b else p, f'TF on source reads `{src(a[0]) if a else None}` and on the consensus record `{src(b[0]) if b else None}`' +
             (' are the same count' if ok else ' differ: the consensus record reports another fragment count than the reads it was built from'), key='TF-agrees',
             what='write_tags_to_psuedoreads: the TF tag of the consensus record differs from the TF tag of the source reads')
    g = ctx.fn(MOLECULE, 'Molecule.get_base_confidence_dict')
    loops = [l for l in walk_no_nested(g) if isinstance(l, ast.For) and 'iter_reads' in src(l.iter)]
    if len(loops) != 1 or not isinstance(loops[0].target, ast.Name):
        raise AnalysisError('get_base_confidence_dict: loop over self.iter_reads() not found')
    l = loops[0]
    rv = l.target.id
    # every path through one iteration (for a read that is not None) reaches the inner loop over the aligned pairs
    inner = [x for x in walk_no_nested(l) if isinstance(x, ast.For) and x is not l and 'get_aligned_pairs' in src(x.iter)]
    ok = len(inner) == 1
    why = 'loop over the aligned pairs not found'
    if ok:
        conds = [(t_, pol) for t_, pol in (reach_conds(l.body, inner[0]) or [])]
        flags = [src(t_) for t_, pol in conds if any(isinstance(n_, ast.Attribute) and n_.attr in ('is_duplicate', 'is_qcfail', 'is_secondary', 'is_supplementary', 'mapping_quality') for n_ in ast.walk(t_))]
        ok = not flags
        why = 'every read of the molecule contributes its aligned bases' if ok else f'reads are skipped by {flags}: after write_tags only the first fragment would be observed'
    ctx.emit('C15-R6', ok, MOLECULE, inner[0] if inner else l, 'get_base_confidence_dict: ' + why, key='observations-from-every-read',
             what='get_base_confidence_dict skips reads by their flags')
    # the probability of an observation is 1 - 10^(-Q/10): a power of ten whose exponent is the negated quality over ten in TRUE division
    pows = []
    for n_ in walk_no_nested(g):
        if isinstance(n_, ast.BinOp) and isinstance(n_.op, ast.Pow):
            pows.append((n_.left, n_.right, n_))
        elif isinstance(n_, ast.Call) and last_name(dotted(n_.func) or '') in ('power', 'pow') and len(n_.args) == 2:
            pows.append((n_.args[0], n_.args[1], n_))
    okp = len(pows) == 1
    whyp = f'{len(pows)} power expressions'
    if okp:
        base, expo, node = pows[0]
        qn = {src(s_.targets[0]) for s_ in walk_no_nested(g) if isinstance(s_, ast.Assign) and len(s_.targets) == 1 and 'qualit' in src(s_.value)} | {f'{rv}.query_qualities[qpos]'}
        e_ = expo
        neg = False
        if isinstance(e_, ast.UnaryOp) and isinstance(e_.op, ast.USub):
            neg, e_ = True, e_.operand
        if isinstance(e_, ast.BinOp) and isinstance(e_.left, ast.UnaryOp) and isinstance(e_.left.op, ast.USub):
            neg, e_ = True, ast.BinOp(left=e_.left.operand, op=e_.op, right=e_.right)
        true_div = isinstance(e_, ast.BinOp) and isinstance(e_.op, ast.Div) and src(e_.right) in ('10', '10.0') and (src(e_.left) in qn or 'qual' in src(e_.left))
        okp = src(base) in ('10', '10.0') and neg and true_div
        whyp = f'observation probability uses {src(node)[:50]}' + ('' if okp else ': not 10 ** (-Q / 10) with true division (floor division buckets the qualities by tens)')
    ctx.emit('C15-R6', okp, MOLECULE, pows[0][2] if pows else g, 'get_base_confidence_dict: ' + whyp, key='phred-to-probability',
             what='get_base_confidence_dict: phred to probability conversion is not 1 - 10^(-Q/10)')
    aligned_blocks_rule(ctx, 'C15-R6')


def _aligned_blocks_model(ctx, ab):
    """Molecule.get_aligned_blocks run by the abstract interpreter on model molecules: every list of up to three half-open read blocks over the coordinates 0..6, each block
    a read of its own or two of them the two blocks of one read with a deletion between them.  The result has to be the maximal runs of covered positions as inclusive
    (first, last) pairs.  (ok, why, witness) or None outside the interpreted subset."""
    import itertools
    from ..consteval import module_scope, Evaluator, Instance, Unfoldable, Raised
    try:
        env = module_scope(ctx.ix, MOLECULE)
        cls = env['Molecule']
        coords = range(0, 7)
        blocks = [(a, b) for a in coords for b in coords if a < b]
        n = 0
        for k in (0, 1, 2, 3):
            for combo in itertools.product(blocks, repeat=k):
                if k == 3 and not (combo[0] <= combo[1]):
                    continue
                groupings = [[[b] for b in combo]]
                if k >= 2 and combo[0][1] < combo[1][0]:
                    groupings.append([[combo[0], combo[1]]] + [[b] for b in combo[2:]])      # one read with a deletion
                for reads_blocks in groupings:
                    n += 1
                    reads = [Instance(attrs={'blocks': list(bl), 'is_unmapped': False}) for bl in reads_blocks]

                    def hook(ev, call, env_, reads=reads):
                        d = dotted(call.func) or ''
                        if d == 'self.iter_reads':
                            return list(reads)
                        if isinstance(call.func, ast.Attribute) and call.func.attr in ('get_blocks', 'get_aligned_pairs'):
                            recv = ev.ev(call.func.value, env_)
                            if isinstance(recv, Instance) and 'blocks' in recv.attrs:
                                bl = recv.attrs['blocks']
                                if call.func.attr == 'get_blocks':
                                    return [tuple(b) for b in bl]
                                kw = {k_.arg: ev.ev(k_.value, env_) for k_ in call.keywords if k_.arg}
                                out, q = [], 0
                                last = None
                                for a, b in bl:
                                    if last is not None and not kw.get('matches_only'):
                                        out.extend((None, r_) + ((('N'),) if kw.get('with_seq') else ()) for r_ in range(last, a))
                                    for r_ in range(a, b):
                                        out.append((q, r_) + (('A',) if kw.get('with_seq') else ()))
                                        q += 1
                                    last = b
                                return out
                        return NotImplemented
                    mol = Instance(cls, attrs={'fragments': [], 'saved_base_obs': None, 'chromosome': 'chr1'})
                    e = dict(env)
                    e['mol'] = mol
                    got = Evaluator(e, budget=100000, call_hook=hook).ev(ast.parse('mol.get_aligned_blocks()', mode='eval').body, e)
                    got = [tuple(x) for x in list(got)]
                    pos = sorted({p_ for bl in reads_blocks for a, b in bl for p_ in range(a, b)})
                    want = []
                    for p_ in pos:
                        if want and want[-1][1] == p_ - 1:
                            want[-1] = (want[-1][0], p_)
                        else:
                            want.append((p_, p_))
                    if got != want:
                        return (False, f'reads with the aligned blocks {reads_blocks} (half-open) give {got}, the reads cover {want}: ' +
                                ('a block nested in an earlier, longer block cuts the merged block short' if got and want and len(got) == len(want) and got[0][1] < want[0][1] else 'the blocks are not the covered runs'),
                                {'aligned blocks per read (half-open)': reads_blocks, 'returned': got, 'covered runs (inclusive)': want})
        ctx.counters['interpreted_cases'] = ctx.counters.get('interpreted_cases', 0) + n
        return (True, f'interpreted on {n} model molecules (up to three read blocks over coordinates 0..6, reads with a deletion included): the blocks are the maximal runs of covered positions', None)
    except (Unfoldable, Raised):
        return None
    except Exception:
        return None



def aligned_blocks_rule(ctx, rid):
    # covered reference positions are the aligned (matched) positions of the reads, not their reference spans (which include deletions / skips)
    ab = ctx.fn(MOLECULE, 'Molecule.get_aligned_blocks')
    comps = [c_ for c_ in walk_no_nested(ab) if isinstance(c_, (ast.GeneratorExp, ast.ListComp, ast.SetComp))]
    okb = False
    whyb = 'positions are not collected by one comprehension'
    if len(comps) >= 1:
        c_ = comps[-1] if len(comps) == 1 else max(comps, key=lambda x: len(x.generators))
        gens = c_.generators
        pair_gen = [g_ for g_ in gens if isinstance(g_.iter, ast.Call) and isinstance(g_.iter.func, ast.Attribute) and g_.iter.func.attr == 'get_aligned_pairs']
        okb = len(pair_gen) == 1 and any(k.arg == 'matches_only' and src(k.value) == 'True' for k in pair_gen[0].iter.keywords) and isinstance(pair_gen[0].target, ast.Tuple) \
            and len(pair_gen[0].target.elts) >= 2 and src(c_.elt) == src(pair_gen[0].target.elts[1]) and not any(g_.ifs for g_ in gens)
        whyb = 'covered positions = reference positions of get_aligned_pairs(matches_only=True) of every read' if okb else \
            f'covered positions `{src(c_)[:90]}` are not the matched reference positions of every read (a reference span also covers deleted / skipped bases)'
    if not okb:
        mres = _aligned_blocks_model(ctx, ab)
        if mres is not None:
            ctx.emit(rid, mres[0], MOLECULE, ab, 'get_aligned_blocks: ' + mres[1], key='aligned-blocks-from-matches', witness=mres[2],
                     what='get_aligned_blocks: merged blocks differ from the positions the reads cover')
            return
    if not okb and len(comps) >= 1:
        merged_form = _aligned_blocks_by_merging(ctx, ab, comps)
        if merged_form is not None:
            okb, whyb, wit = merged_form
            ctx.emit(rid, okb, MOLECULE, ab, 'get_aligned_blocks: ' + whyb, key='aligned-blocks-from-matches', witness=wit, undecided=(okb is None),
                     what='get_aligned_blocks: merged blocks differ from the positions the reads cover')
            return
    ctx.emit(rid, okb, MOLECULE, ab, 'get_aligned_blocks: ' + whyb, key='aligned-blocks-from-matches',
             what='get_aligned_blocks: covered positions include deleted / skipped reference bases or skip reads')


def _aligned_blocks_by_merging(ctx, ab, comps):
    """get_aligned_blocks written as a merge of the reads' pysam blocks (half-open (start, end) pairs of get_blocks()) instead of an expansion into
    positions: the function is interpreted on every list of up to three blocks over the coordinates 0..6 and has to return the maximal runs of
    covered positions as inclusive (first, last) pairs.  None when the function does not have this shape."""
    import copy
    import itertools
    from ..consteval import run_function, Unfoldable
    srcs = [c_ for c_ in comps if any(isinstance(g_.iter, ast.Call) and isinstance(g_.iter.func, ast.Attribute) and g_.iter.func.attr == 'get_blocks' for g_ in c_.generators)]
    if len(srcs) != 1:
        return None
    c_ = srcs[0]
    bg = [g_ for g_ in c_.generators if isinstance(g_.iter, ast.Call) and isinstance(g_.iter.func, ast.Attribute) and g_.iter.func.attr == 'get_blocks'][0]
    if any(g_.ifs for g_ in c_.generators) or not (isinstance(bg.target, ast.Tuple) and len(bg.target.elts) == 2 and all(isinstance(e_, ast.Name) for e_ in bg.target.elts)):
        return (None, f'blocks are collected by `{src(c_)[:80]}` (filtered or not unpacked as (start, end))', None)
    sv, ev_ = [e_.id for e_ in bg.target.elts]
    f2 = copy.deepcopy(ab)

    class Repl(ast.NodeTransformer):
        def visit_GeneratorExp(self, n):
            return ast.Name(id='__blocks', ctx=ast.Load()) if src(n) == src(c_) else self.generic_visit(n)
        visit_ListComp = visit_SetComp = visit_GeneratorExp
    f2 = ast.fix_missing_locations(Repl().visit(f2))
    f2.args.args = [ast.arg(arg='__blocks')]
    f2.args.defaults = []
    f2.decorator_list = []
    coords = range(0, 7)
    blocks = [(a, b) for a in coords for b in coords if a < b]
    n = 0
    try:
        for k in (0, 1, 2, 3):
            for combo in itertools.product(blocks, repeat=k):
                if k == 3 and not (combo[0] <= combo[1]):        # two of the three in either order is enough to see an order dependence
                    continue
                n += 1
                elems = [run_function(ast.FunctionDef(name='e', args=ast.arguments(posonlyargs=[], args=[ast.arg(arg=sv), ast.arg(arg=ev_)], kwonlyargs=[], kw_defaults=[], defaults=[]),
                                                      body=[ast.Return(value=c_.elt)], decorator_list=[], lineno=1, col_offset=0), [a, b]) for a, b in combo]
                got = run_function(f2, [list(elems)])
                got = [tuple(x) for x in list(got)] if got is not None else None
                pos = sorted({p_ for a, b in combo for p_ in range(a, b)})
                want = []
                for p_ in pos:
                    if want and want[-1][1] == p_ - 1:
                        want[-1] = (want[-1][0], p_)
                    else:
                        want.append((p_, p_))
                if got != want:
                    return (False, f'merging the read blocks {list(combo)} (half-open) gives {got}, the reads cover {want}: ' +
                            ('a block nested in an earlier, longer block cuts the merged block short' if got and want and len(got) == len(want) and got[0][1] < want[0][1] else 'the merged blocks are not the covered runs'),
                            {'read blocks (half-open)': list(combo), 'returned': got, 'covered runs': want})
    except Unfoldable as ex:
        return (None, f'block merge uses a construct outside the interpreted subset ({ex})', None)
    ctx.counters['abstract_cases'] += n
    return (True, f'blocks of get_blocks() merged into the covered runs on {n} block lists over coordinates 0..6', None)


@rule('C15', 'C15-R7', 'the consensus read is built from the molecule as it is when it is requested: the base calls handed to get_dedup_reads come from a call of '
                       'get_base_confidence_dict() made in deduplicate_majority itself, not from a memoised property (functools / cached_property values are never '
                       'refreshed when fragments join, while the CIGAR is computed from the current reads), and saved results on that path are reset by _add_fragment')
def r7(ctx):
    from . import shared
    f = ctx.fn(MOLECULE, 'Molecule.deduplicate_majority')
    cls = ctx.ix.cls(MOLECULE, 'Molecule')
    cached = {m.name for m in cls.body if isinstance(m, ast.FunctionDef) and any('cached_property' in src(d) or 'lru_cache' in src(d) or src(d).endswith('cache') for d in m.decorator_list)}
    calls = [c for c in walk_no_nested(f) if isinstance(c, ast.Call) and isinstance(c.func, ast.Attribute) and c.func.attr == 'get_dedup_reads']
    ctx.need('C15-R7', len(calls), 1, 'get_dedup_reads calls in deduplicate_majority')
    for c in calls:
        ob = [k.value for k in c.keywords if k.arg == 'obs'] or (c.args[2:3])
        if not ob:
            ctx.emit('C15-R7', False, MOLECULE, c, 'get_dedup_reads is called without base calls', key='calls-from-current-molecule', undecided=True)
            continue
        e = ob[0]
        seen = 0
        while isinstance(e, ast.Name) and seen < 4:
            dd = [a.value for a in walk_no_nested(f) if isinstance(a, ast.Assign) and len(a.targets) == 1 and src(a.targets[0]) == e.id]
            if len(dd) != 1:
                break
            e = dd[0]
            seen += 1
        reads_cached = sorted({n.attr for n in ast.walk(e) if isinstance(n, ast.Attribute) and isinstance(n.value, ast.Name) and n.value.id == 'self' and n.attr in cached})
        # names used inside the expression that are locals bound to a cached property
        for nm in [n for n in ast.walk(e) if isinstance(n, ast.Name)]:
            dd = [a.value for a in walk_no_nested(f) if isinstance(a, ast.Assign) and len(a.targets) == 1 and src(a.targets[0]) == nm.id]
            for d_ in dd:
                reads_cached += sorted({n.attr for n in ast.walk(d_) if isinstance(n, ast.Attribute) and isinstance(n.value, ast.Name) and n.value.id == 'self' and n.attr in cached})
        fresh = any(isinstance(n, ast.Call) and isinstance(n.func, ast.Attribute) and n.func.attr == 'get_base_confidence_dict' for n in ast.walk(e)) or any(
            isinstance(d_, ast.Call) and isinstance(d_.func, ast.Attribute) and d_.func.attr == 'get_base_confidence_dict'
            for nm in ast.walk(e) if isinstance(nm, ast.Name) for d_ in [a.value for a in walk_no_nested(f) if isinstance(a, ast.Assign) and len(a.targets) == 1 and src(a.targets[0]) == nm.id])
        if reads_cached:
            ctx.emit('C15-R7', False, MOLECULE, c, f'the base calls of the consensus read are taken from the memoised `self.{reads_cached[0]}`: computed once per molecule, it still holds the calls of the '
                     f'smaller molecule after fragments were added, while blocks and CIGAR follow the current reads (newly covered positions become N, old calls are kept)',
                     key='calls-from-current-molecule', what='deduplicate_majority: base calls from a never-invalidated cached property')
        else:
            ctx.emit('C15-R7', fresh, MOLECULE, c, 'base calls come from get_base_confidence_dict() evaluated for this request' if fresh else f'source of the base calls `{src(e)[:60]}` not recognised',
                     key='calls-from-current-molecule', undecided=not fresh)
    shared.memo_invalidation(ctx, 'C15-R7', MOLECULE, 'Molecule', ['deduplicate_majority'], what='Molecule.deduplicate_majority')


@rule('C15', 'C15-R8', 'a requested consensus reaches the workers: the option dictionary the multi-process entry point receives from its caller (it carries consensus_mode) is handed to the '
                       'task generator with all its entries - it may be created when missing and extended, but is never re-bound to a fresh dictionary that leaves the '
                       "caller's entries out (the workers would fall back to writing the plain source reads)")
def r8(ctx):
    from .slots import BTM
    f = ctx.fn(BTM, 'tag_multiome_multi_processing')
    gens = [c for c in walk_no_nested(f) if isinstance(c, ast.Call) and last_name(dotted(c.func) or '') == 'generate_tasks']
    ctx.need('C15-R8', len(gens), 1, 'task generator call')
    a = next((k.value for k in gens[0].keywords if k.arg == 'additional_args'), None)
    params = {x.arg for x in f.args.args + f.args.kwonlyargs}
    if not (isinstance(a, ast.Name) and a.id in params):
        ctx.emit('C15-R8', False, BTM, gens[0], f'generate_tasks receives additional_args=`{src(a) if a is not None else None}`, not the parameter of the entry point', key='consensus-options-forwarded', undecided=True)
        return
    v = a.id
    bad, n = [], 0
    for st in walk_no_nested(f):
        if isinstance(st, ast.Assign) and any(isinstance(t, ast.Name) and t.id == v for t in st.targets):
            n += 1
            if v in names_in(st.value):
                continue                      # built from itself: dict(v, ...), {**v, ...}, v or {}
            conds = reach_conds(f.body, st) or []
            if any((src(t_).replace(' ', '') in (f'{v}isNone', f'not{v}') and pol) or (src(t_).replace(' ', '') == f'{v}isnotNone' and not pol) for t_, pol in conds):
                continue                      # created because the caller gave none
            bad.append(st)
    for st in bad[:1]:
        ctx.emit('C15-R8', False, BTM, st, f'`{src(st)[:120]}` re-binds the option dictionary of the caller to a new one: whatever the caller put in (consensus_mode=majority when a consensus was '
                 f'requested) does not reach the tagging tasks, which then write the source reads instead of consensus records', key='consensus-options-forwarded',
                 what='tag_multiome_multi_processing: the caller\'s task options (consensus mode) are dropped')
    if not bad:
        ctx.emit('C15-R8', True, BTM, gens[0], f'`{v}` reaches generate_tasks with the entries of the caller ({n} re-bindings, all extend it or create it when missing)', key='consensus-options-forwarded')


META = {
    'text': ('Decides structural necessary conditions of well-formed consensus pseudo-reads: every numpy/pysam attribute referenced on '
             'the consensus call chain exists in the installed library; CIGAR arithmetic matches inclusive aligned blocks (M = end-start+1, '
             'N = start-prev_end-1) and the partial-read generator fetches exactly [pos, pos+M) per M and advances on every M/N path; '
             'sequence and quality stretches are appended/cleared pairwise (equal lengths); the MD reference is assembled from M operations '
             'only; the likelihood caller returns N exactly on "no observation or tie" (all cases enumerated); default CIGAR is len(sequence)M; '
             'SM/TF (always) and RX/DS (when defined) are written and no maybe-None result is subscripted unguarded. Does NOT decide base-call '
             'optimality or MD/reference agreement at runtime.'),
    'technique': 'static analysis: API-existence resolution against installed libraries, linear-form symbolic execution of CIGAR arms, paired-update path check, comparison-predicate enumeration; small-scope abstract execution of get_CIGAR / the block merge on every list of <= 3 blocks over small coordinates; partial-read generator on every list of <= 3 blocks x max_N_span, find_ranges on every subset of 0..7, create_MD_tag and the base caller on small alphabets',
    'design_ref': 'DESIGN.md section 5, C15',
}


@rule('C15', 'C15-R5', 'the likelihood of a base is prod(its observations) / 0.25^(number of ITS observations - 1), and the MD tag names '
                       'reference bases in upper case')
def r5(ctx):
    from ..domains import linform, Lin
    g = ctx.fn(SEQUTILS, 'base_probabilities_to_likelihood')
    comps = [c for c in walk_no_nested(g) if isinstance(c, ast.DictComp)]
    ok = False
    detail = 'likelihood comprehension not found'
    if len(comps) == 1:
        c = comps[0]
        gen = c.generators[0]
        vv = gen.target.elts[1].id if isinstance(gen.target, ast.Tuple) and len(gen.target.elts) == 2 and isinstance(gen.target.elts[1], ast.Name) else None
        val = c.value
        if isinstance(val, ast.BinOp) and isinstance(val.op, ast.Div) and isinstance(val.left, ast.Call) and isinstance(val.right, ast.Call) and vv:
            prod_ok = [src(a) for a in val.left.args] == [vv]
            pw = val.right
            pw_ok = (dotted(pw.func) or '').split('.')[-1] in ('power', 'pow') and len(pw.args) == 2 and isinstance(pw.args[0], ast.Constant) and pw.args[0].value == 0.25 \
                and linform(pw.args[1]) == Lin({f'len({vv})': 1}, -1)
            ok = prod_ok and pw_ok
            detail = f'likelihood `{src(val)}` with per-base observations `{vv}`' + ('' if pw_ok else f': the normaliser exponent `{src(pw.args[1]) if len(pw.args) == 2 else "?"}` is not len({vv}) - 1 '
                                                                                     '(the number of observations of THIS base): bases supported by more observations are no longer favoured')
    ctx.emit('C15-R5', ok, SEQUTILS, g, detail, key='likelihood-normaliser', what='base_probabilities_to_likelihood: normaliser does not use the per-base observation count')
    # N pseudo observations: complement of every real observation
    nasg = [s for s in g.body if isinstance(s, ast.Assign) and src(s.targets[0]) == "probs['N']"]
    ok = len(nasg) == 1 and '1 - p' in src(nasg[0].value).replace('1-p', '1 - p') and "base != 'N'" in src(nasg[0].value)
    ctx.emit('C15-R5', ok, SEQUTILS, nasg[0] if nasg else g, 'N receives the complement probability of every real observation', key='likelihood-N', nontrivial=False)
    m = ctx.fn(SEQUTILS, 'create_MD_tag')
    sem = _md_by_interpretation(ctx, m)
    if sem is not None:
        ctx.counters['abstract_cases'] += sem[1]
        ctx.emit('C15-R5', sem[0], SEQUTILS, m, f'create_MD_tag interpreted on {sem[1]} (reference, query) pairs over A / C / a: match runs are counted, mismatches name the reference base in upper case' if sem[0]
                 else f'create_MD_tag differs: {sem[2]}', key='md-upper-case', witness=sem[2], what='create_MD_tag: MD tag does not describe the reference (upper case) at the mismatches')
        return
    loops = [l for l in m.body if isinstance(l, ast.For)]
    ok = False
    detail = 'loop over (reference, query) not found'
    if len(loops) == 1 and isinstance(loops[0].iter, ast.Call) and dotted(loops[0].iter.func) == 'zip' and isinstance(loops[0].target, ast.Tuple):
        refv, qv = [e.id for e in loops[0].target.elts]
        refarg = src(loops[0].iter.args[0])
        apps = [c for c in walk_no_nested(loops[0]) if isinstance(c, ast.Call) and isinstance(c.func, ast.Attribute) and c.func.attr == 'append' and c.args and refv in names_in(c.args[0])]
        upper_iter = refarg.endswith('.upper()')
        upper_app = bool(apps) and all(src(c.args[0]) == f'{refv}.upper()' for c in apps)
        ok = bool(apps) and (upper_iter or upper_app)
        detail = f'MD mismatch letters come from `{refarg}`' + (' (upper case)' if ok else ': reference letters are written as found in the FASTA (lower case for soft-masked references; SAM requires [A-Z])')
        cmpok = any(isinstance(c, ast.Compare) and qv in names_in(c) and refv in names_in(c) for c in walk_no_nested(loops[0]))
        ok = ok and cmpok
    ctx.emit('C15-R5', ok, SEQUTILS, m, detail, key='md-upper-case', what='create_MD_tag writes reference bases in the case of the FASTA')


from . import shared as _shared
_shared.register('C15', 'C15')
