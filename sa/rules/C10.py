"""C10 - binned count tables: each counted read lands in exactly the bins containing it (window index arithmetic)."""
import ast
from fractions import Fraction

from ..core import rule
from ..index import AnalysisError, dotted, src, walk_no_nested, names_in
from ..domains import linform, Lin, rounding, check_pred
from ..util import calls_named, arg, reach_expr, pred_is, reach_conds
from .slots import COUNTTABLE, BINNING, P

SPLITDOUBLE = P + 'bamProcessing/split_double_BAM.py'
COPIES = [(COUNTTABLE, 'coordinate_to_sliding_bin_locations'), (BINNING, 'coordinate_to_sliding_bin_locations')]


def _local_defs(f):
    env = {}
    for s in f.body:
        if isinstance(s, ast.Assign) and len(s.targets) == 1 and isinstance(s.targets[0], ast.Name):
            env[s.targets[0].id] = s.value
    return env


def _return_tuple(f):
    rets = [s for s in walk_no_nested(f) if isinstance(s, ast.Return)]
    if len(rets) != 1 or not isinstance(rets[0].value, ast.Tuple) or len(rets[0].value.elts) != 4:
        raise AnalysisError(f'{f.name}: expected a single `return start, end, start_id, end_id`')
    return rets[0].value.elts


def _quot(q, params):
    """(numerator Lin, denominator Lin) of a quotient AST."""
    if not (isinstance(q, ast.BinOp) and isinstance(q.op, ast.Div)):
        return None
    return linform(q.left), linform(q.right)


def analyse_copy(ctx, relpath, name):
    f = ctx.fn(relpath, name)
    params = [a.arg for a in f.args.args]
    if len(params) != 3:
        raise AnalysisError(f'{name}: expected (coordinate, bin_size, sliding_increment)')
    p, b, s = params
    env = _local_defs(f)
    elts = _return_tuple(f)
    first, last = elts[2], elts[3]
    res = {}
    for role, e in (('first', first), ('last', last)):
        r = rounding(e, env=env)
        res[role] = (r, e)
    return f, (p, b, s), res, env, elts


def _interval_str(r):
    return f'{"[" if r.lo_closed else "("}{r.lo},{r.hi}{"]" if r.hi_closed else ")"}'


def bins_model(ctx):
    """both copies of the window arithmetic (coordinate_to_sliding_bin_locations / coordinate_to_bins in bamToCountTable and utils.binning), run by the abstract
    interpreter on every (coordinate 0..40, bin size 1..7, increment 1..7), integer and half-integer coordinates: the windows are exactly the (i*s, i*s+b) with
    i*s <= p < i*s+b in ascending order, and the index function returns (first*s, last*s+b, first, last).  (ok, cases, witness) / None.  Cached per run."""
    if hasattr(ctx, '_bins_model'):
        return ctx._bins_model
    import math
    from ..consteval import run_function, Raised, Unfoldable, module_scope, LocalFn
    ctx._bins_model = None
    n = 0
    try:
        for relpath in (COUNTTABLE, BINNING):
            env = module_scope(ctx.ix, relpath)
            loc, bins = env.get('coordinate_to_sliding_bin_locations'), env.get('coordinate_to_bins')
            if not isinstance(loc, LocalFn) or not isinstance(bins, LocalFn):
                return None
            for b in range(1, 8):
                for s_ in range(1, 8):
                    for p2 in range(0, 81):
                        p = p2 / 2 if p2 % 2 else p2 // 2
                        if p2 % 2 and p2 > 21:
                            continue
                        n += 1
                        first = math.floor((p - b) / s_) + 1
                        last = math.floor(p / s_)
                        want = [(i * s_, i * s_ + b) for i in range(first, last + 1)]
                        got = run_function(bins.fdef, [p, b, s_], env=bins.scope, budget=20000)
                        got = [tuple(x) for x in got]
                        case = {'file': relpath.split('/')[-1], 'coordinate': p, 'bin size': b, 'sliding increment': s_}
                        if got != want:
                            ctx._bins_model = (False, n, dict(case, problem=f'coordinate_to_bins yields {got[:6]}, the windows containing the coordinate are {want[:6]}'))
                            return ctx._bins_model
                        g4 = run_function(loc.fdef, [p, b, s_], env=loc.scope, budget=20000)
                        if tuple(g4) != (first * s_, last * s_ + b, first, last):
                            ctx._bins_model = (False, n, dict(case, problem=f'coordinate_to_sliding_bin_locations returns {tuple(g4)}, expected {(first * s_, last * s_ + b, first, last)}'))
                            return ctx._bins_model
    except (Unfoldable, Raised):
        return None
    except Exception:
        return None
    ctx._bins_model = (True, n, None)
    return ctx._bins_model


def _model_or_symbolic(ctx, rid, symbolic):
    """the symbolic (rounding-domain) reading of the window arithmetic decides; where it cannot follow a restructured implementation the exhaustive small-scope
    evaluation of both copies decides instead"""
    from ..core import Ctx, VIOLATED, UNDECIDED
    sub = Ctx(ctx.ix, 'C10', ctx.tier)
    err = None
    try:
        symbolic(sub)
    except AnalysisError as e_:
        err = e_
    except Exception as e_:
        err = AnalysisError(f'symbolic reading failed ({type(e_).__name__}: {e_})')
    for k_, v_ in sub.counters.items():
        ctx.counters[k_] = (ctx.counters.get(k_, set()) | v_) if isinstance(v_, set) else ctx.counters.get(k_, 0) + v_
    for k_, v_ in getattr(sub, 'exhaustive', {}).items():
        ctx.exhaustive[k_] = v_
    open_ = [o for o in sub.obligations if o.status in (VIOLATED, UNDECIDED)]
    if err is None and not open_:
        ctx.obligations.extend(sub.obligations)
        return
    m = bins_model(ctx)
    if m is None:
        ctx.obligations.extend(sub.obligations)
        if err is not None:
            raise err
        return
    ok, n, wit = m
    f = ctx.fn(BINNING, 'coordinate_to_bins')
    ctx.counters['interpreted_cases'] += n
    if ok:
        ctx.obligations.extend([o for o in sub.obligations if o not in open_])
        ctx.emit(rid, True, BINNING, f, f'both copies of the window arithmetic evaluated on {n} (coordinate, bin size, increment) triples: the windows are exactly the (i*s, i*s+b) that contain the coordinate '
                 f'(the symbolic reading did not follow {len(open_)} construct(s) of the restructured functions)', key='window-arithmetic-model')
    else:
        ctx.obligations.extend(sub.obligations)
        ctx.emit(rid, False, BINNING, f, f'window arithmetic: {wit.get("problem")} - {({k_: v_ for k_, v_ in wit.items() if k_ != "problem"})}', key='window-arithmetic-model', witness=wit,
                 what='window arithmetic: ' + str(wit.get('problem')))


@rule('C10', 'C10-R1', 'first window index is the smallest i with i*s + b > p (i - (p-b)/s in (0,1]) and the last the '
                       'largest with i*s <= p (i - p/s in (-1,0]), derived from rounding bounds of floor/ceil/int/"//"')
def r1(ctx):
    _model_or_symbolic(ctx, 'C10-R1', _r1_symbolic)


def _r1_symbolic(ctx):
    for relpath, name in COPIES:
        f, (p, b, s), res, env, elts = analyse_copy(ctx, relpath, name)
        for role, want_q, want in (('first', Lin({p: 1, b: -1}), (0, False, 1, True)), ('last', Lin({p: 1}), (-1, False, 0, True))):
            r, e = res[role]
            expr = env.get(e.id, e) if isinstance(e, ast.Name) else e
            if r is None:
                ctx.emit('C10-R1', False, relpath, f, f'{role} index `{src(expr)}` is not a recognised rounding form', key=f'{role}-index', undecided=True)
                continue
            okq = r.den is not None and r.num == want_q and r.den == Lin({s: 1})
            lo, loc, hi, hic = want
            ok = okq and r.within(lo, loc, hi, hic)
            witness = None
            if okq and not ok:
                # concrete abstract witness: pick q on the offending boundary
                witness = {'case': f'(numerator)/{s} integral' if role == 'first' else f'{p}/{s} integral or negative',
                           'value - quotient in': _interval_str(r), 'required': '(0,1]' if role == 'first' else '(-1,0]'}
            ctx.emit('C10-R1', ok, relpath, f,
                     f'{role} index `{src(expr)}`: value - {r.q} in {_interval_str(r)}; required ' +
                     ('(0,1] w.r.t. (p-b)/s' if role == 'first' else '(-1,0] w.r.t. p/s') + ('' if okq else '; quotient is not the required one'),
                     key=f'{role}-index', witness=witness,
                     what=f'{name} ({relpath.split("/")[-1]}): {role} window index `{src(expr)}` admits a window that does not contain the coordinate')
        # start / end coordinates returned are consistent with the ids
        start, end = elts[0], elts[1]
        envl = {}
        ids = {}
        for nm, e in (('start', start), ('end', end)):
            ex = env.get(e.id, e) if isinstance(e, ast.Name) else e
            ids[nm] = src(ex)
        ok = ids['start'].replace(' ', '') in (f'{src(elts[2])}*{s}', f'{s}*{src(elts[2])}') and \
            ids['end'].replace(' ', '') in (f'{src(elts[3])}*{s}+{b}', f'{b}+{src(elts[3])}*{s}', f'{s}*{src(elts[3])}+{b}')
        ctx.emit('C10-R1', ok, relpath, f, f'returned coordinates start=`{ids["start"]}`, end=`{ids["end"]}` are first*s and last*s + b', key='start-end-coords', nontrivial=False)


@rule('C10', 'C10-R2', 'the two copies of the window arithmetic (bamToCountTable, utils.binning) agree on the abstract result')
def r2(ctx):
    _model_or_symbolic(ctx, 'C10-R2', _r2_symbolic)


def _r2_symbolic(ctx):
    sigs = []
    for relpath, name in COPIES:
        f, (p, b, s), res, env, elts = analyse_copy(ctx, relpath, name)
        sig = []
        for role in ('first', 'last'):
            r, e = res[role]
            if r is None:
                sig.append(None)
            else:
                ren = {p: 'p', b: 'b', s: 's'}
                qq = tuple((tuple(sorted((ren.get(k, k), v) for k, v in l.coef.items())), l.const) for l in (r.num, r.den)) if r.den is not None else None
                sig.append((qq, r.lo, r.lo_closed, r.hi, r.hi_closed))
        sigs.append(sig)
    ok = sigs[0] == sigs[1]
    ctx.emit('C10-R2', ok, COPIES[1][0], ctx.fn(*COPIES[1]), 'sibling implementations ' + ('agree' if ok else f'differ: {sigs}'), key='siblings-agree')


def _r3_direct(ctx, relpath, f, p, b, s):
    """coordinate_to_bins computes the two indices itself: the range bounds are held to the same rounding obligations as the index function"""
    env = _local_defs(f)
    ret = [st for st in walk_no_nested(f) if isinstance(st, ast.Return)]
    comp = ret[0].value if len(ret) == 1 else None
    if isinstance(comp, ast.Name) and comp.id in env:
        comp = env[comp.id]
    if not isinstance(comp, (ast.ListComp, ast.GeneratorExp)) or len(comp.generators) != 1:
        ctx.emit('C10-R3', False, relpath, f, 'window list is not a single comprehension over range(first, last + 1)', key='window-constructor', undecided=True)
        return
    g = comp.generators[0]
    rng = g.iter
    if not (isinstance(rng, ast.Call) and dotted(rng.func) == 'range' and len(rng.args) == 2 and not g.ifs and isinstance(g.target, ast.Name)):
        ctx.emit('C10-R3', False, relpath, f, f'windows are not enumerated by range(first, last + 1): `{src(rng)}`', key='window-constructor', undecided=True)
        return
    first = rounding(rng.args[0], env=env)
    last = rounding(ast.BinOp(left=rng.args[1], op=ast.Sub(), right=ast.Constant(value=1)), env=env)
    if first is None or last is None:
        ctx.emit('C10-R3', False, relpath, f, f'range bounds `{src(rng)}` are not a recognised rounding form', key='window-constructor', undecided=True)
        return
    okf = first.den is not None and first.num == Lin({p: 1, b: -1}) and first.den == Lin({s: 1}) and first.within(0, False, 1, True)
    okl = last.den is not None and last.num == Lin({p: 1}) and last.den == Lin({s: 1}) and last.within(-1, False, 0, True)
    i = g.target.id
    elt = comp.elt
    oke = False
    if isinstance(elt, ast.Tuple) and len(elt.elts) == 2:
        prod = {f'{i} * {s}', f'{s} * {i}'}
        l0, l1 = linform(elt.elts[0]), linform(elt.elts[1])
        oke = len(l0.coef) == 1 and list(l0.coef)[0] in prod and l0.const == 0 and list(l0.coef.values())[0] == 1 and (l1 - l0) == Lin({b: 1})
    ctx.emit('C10-R3', okf and okl and oke, relpath, f,
             f'windows: for {i} in {src(rng)} -> {src(elt)}; first - ({p}-{b})/{s} in {_interval_str(first)}, last - {p}/{s} in {_interval_str(last)}' +
             ('' if okf else '; first index is not the smallest window containing the coordinate') + ('' if okl else '; last index is not the largest window containing the coordinate') +
             ('' if oke else '; window is not (i*s, i*s+b)'), key='window-constructor',
             what=f'coordinate_to_bins ({relpath.split("/")[-1]}): windows enumerated for a coordinate are not exactly those containing it')


@rule('C10', 'C10-R3', 'windows are built as (i*s, i*s + b) for i = first..last inclusive from the indices returned by the index function')
def r3(ctx):
    _model_or_symbolic(ctx, 'C10-R3', _r3_symbolic)


def _r3_symbolic(ctx):
    for relpath in (COUNTTABLE, BINNING):
        f = ctx.fn(relpath, 'coordinate_to_bins')
        point, b, s = [a.arg for a in f.args.args][:3]
        # unpacking of the helper's result
        unpack = [st for st in f.body if isinstance(st, ast.Assign) and isinstance(st.targets[0], ast.Tuple)
                  and isinstance(st.value, ast.Call) and (dotted(st.value.func) or '').endswith('coordinate_to_sliding_bin_locations')]
        if len(unpack) == 1 and len(unpack[0].targets[0].elts) == 4:
            call = unpack[0].value
            names = [src(e) for e in unpack[0].targets[0].elts]
            first_name, last_name = names[2], names[3]
        else:
            # the result is bound to one name and its elements are read by index
            whole = [st for st in f.body if isinstance(st, ast.Assign) and len(st.targets) == 1 and isinstance(st.targets[0], ast.Name)
                     and isinstance(st.value, ast.Call) and (dotted(st.value.func) or '').endswith('coordinate_to_sliding_bin_locations')]
            if len(whole) != 1 and not any(isinstance(c, ast.Call) and (dotted(c.func) or '').endswith('coordinate_to_sliding_bin_locations') for c in ast.walk(f)):
                _r3_direct(ctx, relpath, f, point, b, s)
                continue
            if len(whole) != 1:
                raise AnalysisError('coordinate_to_bins: result of coordinate_to_sliding_bin_locations is not bound')
            call = whole[0].value
            res_name = whole[0].targets[0].id
            picked = {}
            for st in f.body:
                if isinstance(st, ast.Assign) and len(st.targets) == 1 and isinstance(st.targets[0], ast.Name) and isinstance(st.value, ast.Subscript) \
                        and src(st.value.value) == res_name and isinstance(st.value.slice, ast.Constant):
                    picked[st.value.slice.value] = st.targets[0].id
            if 2 not in picked or 3 not in picked:
                raise AnalysisError('coordinate_to_bins: first / last index (elements 2 and 3 of the helper result) are not read')
            first_name, last_name = picked[2], picked[3]
        okargs = [src(a) for a in call.args] == [point, b, s]
        ret = [st for st in walk_no_nested(f) if isinstance(st, ast.Return)]
        comp = ret[0].value if ret else None
        if not isinstance(comp, (ast.ListComp, ast.GeneratorExp)) or len(comp.generators) != 1:
            ctx.emit('C10-R3', False, relpath, f, 'window list is not a single comprehension over range(first, last + 1)', key='window-constructor', undecided=True)
            continue
        g = comp.generators[0]
        rng = g.iter
        okr = isinstance(rng, ast.Call) and dotted(rng.func) == 'range' and len(rng.args) == 2 and \
            linform(rng.args[0]) == Lin({first_name: 1}) and linform(rng.args[1]) == Lin({last_name: 1}, 1) and not g.ifs
        i = g.target.id if isinstance(g.target, ast.Name) else None
        elt = comp.elt
        oke = False
        if isinstance(elt, ast.Tuple) and len(elt.elts) == 2 and i:
            prod = {f'{i} * {s}', f'{s} * {i}'}
            l0, l1 = linform(elt.elts[0]), linform(elt.elts[1])
            oke = len(l0.coef) == 1 and list(l0.coef)[0] in prod and l0.const == 0 and list(l0.coef.values())[0] == 1 and (l1 - l0) == Lin({b: 1})
        ctx.emit('C10-R3', okargs and okr and oke, relpath, f,
                 f'windows: for {i} in {src(rng)} -> {src(elt)}; helper called with ({", ".join(src(a) for a in call.args)})' +
                 ('' if okr else '; range is not first..last inclusive') + ('' if oke else '; window is not (i*s, i*s+b)'),
                 key='window-constructor')


@rule('C10', 'C10-R4', 'a window is rejected exactly when it is not inside the contig (start < 0 or end > contig length) '
                       'and keepOverBounds is off; the coordinate binned is the read\'s own bin-tag value; sliding defaults to the bin size')
def r4(ctx):
    f = ctx.fn(COUNTTABLE, 'assignReads')
    pairs = [(l, l.iter) for l in walk_no_nested(f) if isinstance(l, ast.For) and isinstance(l.iter, ast.Call) and (dotted(l.iter.func) or '').endswith('coordinate_to_bins')]
    # the window list may be bound to a local first: `bins = coordinate_to_bins(...); for start, end in bins:`
    for l_ in walk_no_nested(f):
        if isinstance(l_, ast.For) and isinstance(l_.iter, ast.Name):
            defs = [s_ for s_ in walk_no_nested(f) if isinstance(s_, ast.Assign) and len(s_.targets) == 1 and src(s_.targets[0]) == l_.iter.id]
            if len(defs) == 1 and isinstance(defs[0].value, ast.Call) and (dotted(defs[0].value.func) or '').endswith('coordinate_to_bins'):
                pairs.append((l_, defs[0].value))
    ctx.need('C10-R4', len(pairs), 1, 'loops over coordinate_to_bins in assignReads')
    for l, bins_call in pairs:
        if isinstance(l.iter, ast.Name):
            nm_ = l.iter.id
            touched = [x for x in walk_no_nested(f) if (isinstance(x, ast.Call) and isinstance(x.func, ast.Attribute) and isinstance(x.func.value, ast.Name) and x.func.value.id == nm_
                                                        and x.func.attr in ('pop', 'remove', 'append', 'insert', 'extend', 'sort', 'reverse', 'clear'))
                       or (isinstance(x, ast.Delete) and any(isinstance(t_, ast.Subscript) and src(t_.value) == nm_ for t_ in x.targets))]
            if touched:
                ctx.emit('C10-R4', False, COUNTTABLE, touched[0], f'the window list `{nm_}` is edited in place before it is iterated (`{src(touched[0])[:40]}`): the acceptance of a window is not a per-window test',
                         key='bounds-predicate', undecided=True)
                continue
        if not (isinstance(l.target, ast.Tuple) and len(l.target.elts) == 2):
            raise AnalysisError('bin loop target is not (start, end)')
        st, en = [e.id for e in l.target.elts]
        # the count increment inside the bin loop: its reach condition within one iteration is the acceptance condition of the window
        aug = [x for x in walk_no_nested(l) if isinstance(x, ast.AugAssign)]
        if len(aug) != 1:
            ctx.emit('C10-R4', False, COUNTTABLE, l, f'{len(aug)} count increments in the bin loop (expected one)', key='bounds-predicate', undecided=True)
            continue
        jumps = [x for x in walk_no_nested(l) if isinstance(x, (ast.Break, ast.Return))]
        eff = type(jumps[0]).__name__ if jumps else 'Continue'
        ctx.emit('C10-R4', not jumps, COUNTTABLE, jumps[0] if jumps else l, f'a rejected window only skips itself (no break / return in the bin loop)' if not jumps else
                 f'a rejected window is skipped with `{eff.lower()}`: the remaining (in-bounds) windows of the same read are discarded as well', key='bounds-effect')
        test = reach_expr(l.body, aug[0])

        def atom(n):
            t = src(n)
            if t == st:
                return 'start'
            if t == en:
                return 'end'
            if t == 'args.ref_lengths[read.reference_name]':
                return 'L'
            if t == 'args.keepOverBounds':
                return 'keep'
            return None
        try:
            ncase, bad = check_pred(test, lambda e: e['keep'] or (e['start'] >= 0 and e['end'] <= e['L']),
                                    symbols=['start', 'end', 'L'], constraint=lambda e: e['start'] < e['end'] and e['L'] > 0, atom_name=atom, extra_consts=(0,), extra_bools=['keep'])
        except AnalysisError as ex:
            ctx.emit('C10-R4', False, COUNTTABLE, aug[0], f'acceptance condition `{src(test)}` of a window is not interpretable: {ex}', key='bounds-predicate', undecided=True)
            continue
        ctx.counters['abstract_cases'] += ncase
        ctx.emit('C10-R4', not bad, COUNTTABLE, aug[0], f'window acceptance `{src(test)}`: {ncase} cases enumerated; ' +
                 ('== keepOverBounds or (start >= 0 and end <= contig length)' if not bad else f'differs from the specification on {bad[0]}'),
                 key='bounds-predicate', witness=bad[0] if bad else None)
        ctx.exhaustive['C10-R4'] = True
        # arguments of coordinate_to_bins
        a = bins_call.args
        ok = len(a) == 3 and src(a[1]) == 'args.bin' and src(a[2]) == 'args.sliding' and isinstance(a[0], ast.Call) and dotted(a[0].func) == 'int'
        valname = src(a[0].args[0]) if ok else None
        # follow the local back (through further locals / a None sentinel) to the bin-tag value of the record's own features
        chain = []
        work = [valname] if valname else []
        seenv = set()
        while work:
            nm_ = work.pop()
            if nm_ in seenv:
                continue
            seenv.add(nm_)
            for s_ in walk_no_nested(f):
                if isinstance(s_, ast.Assign) and len(s_.targets) == 1 and src(s_.targets[0]) == nm_ and not (isinstance(s_.value, ast.Constant) and s_.value.value is None):
                    chain.append(s_.value)
                    work.extend(names_in(s_.value))
        okp = ok and any('args.binTag' in src(v_) and "['features']" in src(v_) for v_ in chain)
        ctx.emit('C10-R4', ok and okp, COUNTTABLE, l, f'binned coordinate is int({valname}) <- {[src(v_)[:50] for v_ in chain[:3]]}; bin size args.bin, increment args.sliding',
                 key='binned-value-provenance')
        # the increment is applied once per (sample, window)
        from . import C11 as _C11
        incv = aug[0].value
        if isinstance(incv, ast.Name):
            dd_ = [s_.value for s_ in walk_no_nested(f) if isinstance(s_, ast.Assign) and len(s_.targets) == 1 and src(s_.targets[0]) == incv.id and "['increment']" in src(s_.value)]
            incv = dd_[0] if dd_ else incv
        # the window may reach the table key through copies made inside the loop (`start = bin_start`)
        copies = {src(s_.targets[0]): s_.value.id for s_ in walk_no_nested(l) if isinstance(s_, ast.Assign) and len(s_.targets) == 1 and isinstance(s_.targets[0], ast.Name) and isinstance(s_.value, ast.Name)}
        tnames = {copies.get(n_, n_) for n_ in names_in(aug[0].target)} if aug else set()
        okc = len(aug) == 1 and "['increment']" in src(incv) and st in tnames and en in tnames
        ctx.emit('C10-R4', okc, COUNTTABLE, l, 'each accepted window receives the weight once per sample: ' + (src(aug[0]) if aug else 'no increment found'),
                 key='one-increment-per-window')
    g = ctx.fn(COUNTTABLE, 'create_count_table')
    dflt = [x for x in walk_no_nested(g) if isinstance(x, ast.Assign) and src(x) == 'args.sliding = args.bin'
            and pred_is(reach_expr(g.body, x, drop=lambda t_: 'args.sliding' not in src(t_)), lambda e: e['none'], {'args.sliding is None': 'none'}, bools=['none'])]
    ctx.emit('C10-R4', bool(dflt), COUNTTABLE, g, 'sliding increment defaults to the bin size (no sliding)', key='sliding-default', nontrivial=False)
    # ... and an increment the caller gave is the increment that is used: nothing else re-binds args.sliding / args.bin on the way to the reads
    other = [x for x in ast.walk(g) if isinstance(x, (ast.Assign, ast.AugAssign)) and any(src(t_) in ('args.sliding', 'args.bin') for t_ in (x.targets if isinstance(x, ast.Assign) else [x.target]))
             and not any(x is d_ for d_ in dflt) and not (isinstance(x, ast.Assign) and len(x.targets) == 1 and src(x.targets[0]) == src(x.value))]       # `a = a`: the other arm of a conditional default
    ctx.emit('C10-R4', not other, COUNTTABLE, other[0] if other else g, 'the bin size and a given sliding increment reach the window arithmetic unchanged' if not other else
             f'`{src(other[0])[:70]}` replaces the window parameters the caller gave: the windows counted are not the windows asked for', key='window-parameters-unchanged',
             witness={'statement': src(other[0])[:90]} if other else None, what='create_count_table: the sliding increment / bin size given by the caller is replaced')
    # split_double_BAM takes element 0 with increment == bin size (exactly one window once R1 holds)
    if ctx.ix.exists(SPLITDOUBLE):
        m = ctx.ix.module(SPLITDOUBLE)
        for c in [c for c in ast.walk(m.tree) if isinstance(c, ast.Call) and (dotted(c.func) or '').endswith('coordinate_to_bins')]:
            ok = len(c.args) == 3 and src(c.args[1]) == src(c.args[2])
            ctx.emit('C10-R4', ok, SPLITDOUBLE, c, f'split_double_BAM bins with increment == bin size: {src(c)} (single window)', key='split-double-caller', nontrivial=False)


@rule('C10', 'C10-R5', 'the coordinate that is binned is the value of the read itself, also when it is 0: tag values are never tested for truth (shared with C11-R6)')
def r5(ctx):
    from . import C11
    from ..core import include
    include(ctx, C11, [C11.r6, C11.r8, C11.r9], 'C10-R5')


@rule('C10', 'C10-R6', 'the inputs of the window arithmetic are the right ones: contig lengths come from the header of the file being counted, every '
                       'split feature state keeps all its tags (the bin tag included), and the result of a cached window function is never edited in place')
def r6(ctx):
    g = ctx.fn(COUNTTABLE, 'create_count_table')
    # (a) contig lengths per file
    stores = [s_ for s_ in walk_no_nested(g) if isinstance(s_, ast.Assign) and any(src(t_) == 'args.ref_lengths' for t_ in s_.targets)]
    # (assignReads may be reached through a closure of create_count_table, defined inside or before the loop)
    closures = {d_.name for d_ in ast.walk(g) if isinstance(d_, ast.FunctionDef) and d_ is not g and any(isinstance(c, ast.Call) and (dotted(c.func) or '').endswith('assignReads') for c in ast.walk(d_))}
    floops = [l for l in walk_no_nested(g) if isinstance(l, ast.For) and 'alignmentfiles' in src(l.iter)
              and any(isinstance(c, ast.Call) and ((dotted(c.func) or '').endswith('assignReads') or (isinstance(c.func, ast.Name) and c.func.id in closures)) for c in ast.walk(l))]
    ok = bool(stores) and len(floops) == 1
    why = 'args.ref_lengths is never set' if not stores else 'loop over the alignment files that calls assignReads not found'
    if ok:
        fl = floops[0]
        fv = fl.target.id if isinstance(fl.target, ast.Name) else None
        handles = {it.optional_vars.id for w_ in walk_no_nested(fl) if isinstance(w_, ast.With) for it in w_.items
                   if isinstance(it.optional_vars, ast.Name) and fv and fv in names_in(it.context_expr)}
        for s_ in stores:
            inside = any(x is s_ for x in walk_no_nested(fl))
            deps = set(names_in(s_.value))
            for _ in range(3):
                for d_ in walk_no_nested(fl):
                    if isinstance(d_, ast.Assign) and len(d_.targets) == 1 and isinstance(d_.targets[0], ast.Name) and d_.targets[0].id in deps:
                        deps |= names_in(d_.value)
            if not inside:
                ok, why = False, 'the contig lengths are read once, outside the loop over the alignment files: every later file is checked against the first file\'s contigs'
            elif not (deps & handles):
                ok, why = False, f'the contig lengths stored per file do not come from the handle of that file ({sorted(handles)})'
        if ok:
            why = f'contig lengths are re-read from the header of each file ({sorted(handles)}) inside the file loop'
    ctx.emit('C10-R6', ok, COUNTTABLE, stores[0] if stores else g, why, key='ref-lengths-per-file', undecided=(not ok and 'not found' in why),
             what='create_count_table: contig lengths of the first file are used for all files')
    # (b) split feature states keep every tag
    f = ctx.fn(COUNTTABLE, 'assignReads')
    sloops = [l for l in walk_no_nested(f) if isinstance(l, ast.For) and 'product' in src(l.iter)]
    if not sloops:
        # the increments may be built by a helper of the module that assignReads calls (a generator materialised with list(..))
        mod_ = ctx.ix.module(COUNTTABLE)
        for c_ in walk_no_nested(f):
            if isinstance(c_, ast.Call) and isinstance(c_.func, ast.Name) and c_.func.id in mod_.defs and c_.func.id != 'assignReads':
                for h_ in mod_.defs[c_.func.id]:
                    if isinstance(h_, ast.FunctionDef):
                        sloops += [l for l in walk_no_nested(h_) if isinstance(l, ast.For) and 'product' in src(l.iter)]
    if len(sloops) != 1:
        ctx.emit('C10-R6', False, COUNTTABLE, f, 'loop over the split feature states not found', key='split-state-features', undecided=True)
    else:
        sl = sloops[0]
        state = sl.target.id if isinstance(sl.target, ast.Name) else None
        recs = [d for d in walk_no_nested(sl) if isinstance(d, ast.Dict) and any(isinstance(k, ast.Constant) and k.value == 'features' for k in d.keys)]
        ok, why = bool(recs) and bool(state), 'record of a split state not found'
        for d in recs:
            fv_ = d.values[[k.value if isinstance(k, ast.Constant) else None for k in d.keys].index('features')]
            defs = [s_ for s_ in walk_no_nested(sl) if isinstance(s_, ast.Assign) and len(s_.targets) == 1 and src(s_.targets[0]) == src(fv_)] if isinstance(fv_, ast.Name) else []
            val = defs[-1].value if defs else fv_
            if isinstance(val, ast.DictComp):
                g_ = val.generators[0]
                full = len(val.generators) == 1 and not g_.ifs and state in names_in(g_.iter) and 'featureTags' in names_in(g_.iter)
                ok, why = ok and full, ('features of a split state = ' + src(val)[:70]) if full else f'the features of a split state are filtered: `{src(val)[:90]}`'
            elif isinstance(val, ast.Call) and dotted(val.func) == 'dict' and len(val.args) == 1 and not val.keywords and isinstance(val.args[0], ast.Call) and dotted(val.args[0].func) == 'zip' \
                    and state in names_in(val.args[0]) and 'featureTags' in names_in(val.args[0]):
                why = 'features of a split state = ' + src(val)[:70]
            elif isinstance(val, ast.Dict) and not val.keys and isinstance(fv_, ast.Name):
                # filled item by item in a loop: no tag may be skipped
                fills = [s_ for s_ in walk_no_nested(sl) if isinstance(s_, ast.Assign) and len(s_.targets) == 1 and isinstance(s_.targets[0], ast.Subscript) and src(s_.targets[0].value) == fv_.id]
                inner = [l_ for l_ in walk_no_nested(sl) if isinstance(l_, ast.For) and l_ is not sl and any(x is fl_ for fl_ in fills for x in walk_no_nested(l_))]
                conds = [c_ for l_ in inner for fl_ in fills for c_ in (reach_conds(l_.body, fl_) or [])]
                full = bool(fills) and bool(inner) and not conds and all(state in names_in(l_.iter) and 'featureTags' in names_in(l_.iter) for l_ in inner)
                ok, why = ok and full, 'features of a split state are filled for every tag' if full else \
                    f'a tag is left out of the features of a split state under `{src(conds[0][0]) if conds else "?"}`: the binning step finds no bin-tag value for split states'
            else:
                ok, why = False, f'features of a split state `{src(val)[:60]}` not understood'
        ctx.emit('C10-R6', ok, COUNTTABLE, recs[0] if recs else sl, why, key='split-state-features', undecided=(not ok and 'not understood' in why),
                 what='assignReads: split feature states lose a tag (the bin tag) from their features')
    # (c) ownership: a cached function hands out the same list object again
    from ..util import last_name
    for relpath in (COUNTTABLE, BINNING):
        for fn_name in ('coordinate_to_bins', 'coordinate_to_sliding_bin_locations'):
            if not ctx.ix.has_func(relpath, fn_name):
                continue
            fd = ctx.fn(relpath, fn_name)
            cached = [d for d in fd.decorator_list if last_name(dotted(d.func if isinstance(d, ast.Call) else d) or '') in ('lru_cache', 'cache', 'cached', 'memoize', 'memoized')]
            if not cached:
                ctx.emit('C10-R6', True, relpath, fd, f'{fn_name} builds a fresh result per call (not cached)', key=f'fresh-result:{relpath}:{fn_name}', nontrivial=False)
                continue
            bad = []
            for rp in ctx.ix.pyfiles():
                try:
                    if fn_name not in ctx.ix.read(rp):
                        continue
                except AnalysisError:
                    continue
                m = ctx.ix.module(rp)
                for fdef in [x for x in ast.walk(m.tree) if isinstance(x, (ast.FunctionDef, ast.AsyncFunctionDef))]:
                    for s_ in walk_no_nested(fdef):
                        if isinstance(s_, ast.Assign) and len(s_.targets) == 1 and isinstance(s_.targets[0], ast.Name) and isinstance(s_.value, ast.Call) and (dotted(s_.value.func) or '').endswith(fn_name):
                            nm_ = s_.targets[0].id
                            for x in walk_no_nested(fdef):
                                if (isinstance(x, ast.Call) and isinstance(x.func, ast.Attribute) and isinstance(x.func.value, ast.Name) and x.func.value.id == nm_
                                        and x.func.attr in ('pop', 'remove', 'append', 'insert', 'extend', 'sort', 'reverse', 'clear')) or \
                                   (isinstance(x, ast.Delete) and any(isinstance(t_, ast.Subscript) and src(t_.value) == nm_ for t_ in x.targets)) or \
                                   (isinstance(x, (ast.Assign, ast.AugAssign)) and any(isinstance(t_, ast.Subscript) and src(t_.value) == nm_ for t_ in (x.targets if isinstance(x, ast.Assign) else [x.target]))):
                                    bad.append((rp, x))
            ctx.emit('C10-R6', not bad, bad[0][0] if bad else relpath, bad[0][1] if bad else fd,
                     f'{fn_name} is cached ({src(cached[0])[:40]}) and no caller edits the returned list' if not bad else
                     f'{fn_name} is cached ({src(cached[0])[:40]}) but its result is edited in place (`{src(bad[0][1])[:40]}`): the edit persists for every later call with the same arguments',
                     key=f'fresh-result:{relpath}:{fn_name}', what=f'result of the cached {fn_name} is mutated by a caller')


@rule('C10', 'C10-R7', 'counts are accumulated by plain addition into one table: assignReads adds each weight to a single (sample, key) cell (`table[sample][key] += w`, or '
                       'Counter.update, which adds) - never with `table[sample] += <Counter>` (Counter.__iadd__ deletes every cell whose sum is not positive) - and the table '
                       'that is exported is the table the reads were added to, or is merged from per-file tables cell by cell (dict.update on the outer level replaces the '
                       'whole counter of a sample that occurs in two files)')
def r7(ctx):
    f = ctx.fn(COUNTTABLE, 'assignReads')
    params = [a.arg for a in f.args.args]
    tab = params[1] if len(params) > 1 else 'countTable'
    n, bad, und = 0, [], []
    for st in walk_no_nested(f):
        tgt = None
        if isinstance(st, ast.AugAssign):
            tgt = st.target
        elif isinstance(st, ast.Assign) and len(st.targets) == 1:
            tgt = st.targets[0]
        if tgt is not None and isinstance(tgt, ast.Subscript) and tab in names_in(tgt) and not (isinstance(st, ast.Assign) and tab not in names_in(tgt.value)):
            base = tgt
            depth = 0
            while isinstance(base, ast.Subscript):
                base, depth = base.value, depth + 1
            if not (isinstance(base, ast.Name) and base.id == tab):
                continue
            n += 1
            if isinstance(st, ast.AugAssign) and isinstance(st.op, ast.Add) and depth == 2:
                continue
            if isinstance(st, ast.AugAssign) and depth == 1:
                bad.append((st, f'`{src(st)[:120]}` adds a whole counter to the counter of a sample: Counter.__iadd__ removes every cell whose running sum is zero or negative, '
                                f'so a cell that was cancelled (by-value counting) restarts from 0 and zero cells vanish from the table'))
            else:
                und.append(st)
        if isinstance(st, ast.Expr) and isinstance(st.value, ast.Call) and isinstance(st.value.func, ast.Attribute) and st.value.func.attr in ('update', 'subtract') \
                and isinstance(st.value.func.value, ast.Subscript) and isinstance(st.value.func.value.value, ast.Name) and st.value.func.value.value.id == tab:
            n += 1
            if st.value.func.attr != 'update':
                und.append(st)
    ctx.need('C10-R7', n, 2, 'stores into the count table in assignReads')
    for st, text in bad:
        ctx.emit('C10-R7', False, COUNTTABLE, st, text, key='counts-added-per-cell', what='assignReads: counts are not accumulated by plain per-cell addition')
    for st in und:
        ctx.emit('C10-R7', False, COUNTTABLE, st, f'`{src(st)[:120]}`: not a recognised per-cell addition', key='counts-added-per-cell', undecided=True)
    if not bad and not und:
        ctx.emit('C10-R7', True, COUNTTABLE, f, f'{n} stores into `{tab}`: all add a weight to one (sample, key) cell', key='counts-added-per-cell')
    # the exported table
    g = ctx.fn(COUNTTABLE, 'create_count_table')
    calls = [c for c in ast.walk(g) if isinstance(c, ast.Call) and dotted(c.func) == 'assignReads' and len(c.args) > 1]        # also inside a local closure
    exp = [c for c in walk_no_nested(g) if isinstance(c, ast.Call) and (dotted(c.func) or '').endswith('DataFrame.from_dict') and c.args and isinstance(c.args[0], ast.Name)]
    ctx.need('C10-R7', len(calls), 1, 'assignReads call sites')
    ctx.need('C10-R7', len(exp), 1, 'export of the count table')
    out = exp[0].args[0].id
    for c in calls:
        a = c.args[1]
        if isinstance(a, ast.Name) and a.id == out:
            ctx.emit('C10-R7', True, COUNTTABLE, c, f'reads are added to `{out}`, the table that is exported', key=f'exported-table:{a.id}')
            continue
        if not isinstance(a, ast.Name):
            ctx.emit('C10-R7', False, COUNTTABLE, c, f'assignReads adds to `{src(a)}`', key='exported-table', undecided=True)
            continue
        # a per-file table: how does it reach the exported one?
        merges = [m for m in walk_no_nested(g) if isinstance(m, ast.Call) and isinstance(m.func, ast.Attribute) and m.func.attr == 'update' and src(m.func.value) == out and m.args and src(m.args[0]) == a.id]
        if merges:
            ctx.emit('C10-R7', False, COUNTTABLE, merges[0], f'reads are added to `{a.id}` and `{src(merges[0])}` copies it into the exported table: dict.update replaces the counter of every sample of this file, '
                     f'the counts a sample collected from an earlier alignment file are lost', key=f'exported-table:{a.id}', what='create_count_table: per-file tables are merged by replacing, not adding')
        else:
            cellwise = [m for m in walk_no_nested(g) if isinstance(m, (ast.AugAssign, ast.Expr)) and out in names_in(m) and a.id in {n_ for l_ in walk_no_nested(g) if isinstance(l_, ast.For) and any(x is m for x in walk_no_nested(l_)) for n_ in names_in(l_.iter)}]
            ok = any((isinstance(m, ast.AugAssign) and isinstance(m.op, ast.Add) and isinstance(m.target, ast.Subscript) and isinstance(m.target.value, ast.Subscript)) or
                     (isinstance(m, ast.Expr) and isinstance(m.value, ast.Call) and isinstance(m.value.func, ast.Attribute) and m.value.func.attr == 'update' and isinstance(m.value.func.value, ast.Subscript)) for m in cellwise)
            ctx.emit('C10-R7', ok, COUNTTABLE, c, f'reads are added to `{a.id}`' + (f', merged into `{out}` cell by cell' if ok else f'; how it reaches the exported `{out}` is not recognised'), key=f'exported-table:{a.id}', undecided=not ok)


META = {
    'text': ('Decides for ALL coordinates, bin sizes and sliding increments: the first/last window indices computed by both '
             'copies of coordinate_to_sliding_bin_locations satisfy first - (p-b)/s in (0,1] and last - p/s in (-1,0] '
             '(derived from rounding bounds of the floor/ceil/int/"//" forms actually used), i.e. exactly the windows '
             '[i*s, i*s+b) containing p; windows are constructed as (i*s, i*s+b) for first..last inclusive; the two copies '
             'agree; the out-of-bounds rejection equals "not keepOverBounds and (start<0 or end>contig length)" on every '
             'ordering; the binned value is the read\'s own bin tag. Does NOT decide totals over a BAM (filter semantics are C11).'),
    'technique': 'static analysis: rounding-bound abstract domain over quotient linear forms, sibling cross-check, exhaustive ordering enumeration of the bounds predicate; exhaustive small-scope evaluation of both copies of the window arithmetic (coordinate 0..40, bin size and increment 1..7) where the symbolic reading cannot follow; effect check of the table accumulation',
    'design_ref': 'DESIGN.md section 5, C10',
}


from . import shared as _shared
_shared.register('C10', 'C10')
