"""C05 - tagging conserves alignment records (job list coverage, iterator chaining, reject wiring, writer finalisation)."""
import ast

from ..core import rule
from ..index import AnalysisError, dotted, src, walk_no_nested, names_in
from ..cfg import CFG, const_env_step, eval3, UNK
from ..domains import check_pred
from ..util import node_calls, own_expr, last_name, calls_named, arg, reach_expr, pred_is, reach_conds, explore, mk_atoms, rename_names
from .slots import BTM, TAGGING, BAMFUNC, MOLITER, FRAGMENT, MOLECULE
from . import C05_shared

MP = 'tag_multiome_multi_processing'
ST = 'tag_multiome_single_thread'


def contig_loop(ctx):
    f = ctx.fn(BTM, MP)
    loops = [l for l in walk_no_nested(f) if isinstance(l, ast.For) and 'get_contigs_with_reads' in src(l.iter)
             and isinstance(l.iter, ast.Call)]
    if len(loops) != 1:
        raise AnalysisError(f'{MP}: loop over get_contigs_with_reads not found ({len(loops)})')
    return f, loops[0]


def mentions(node, name):
    return name in names_in(node)


def _job_comprehensions(ctx):
    """the job list written as comprehensions over the contigs with reads (instead of one construction loop): returns (function,
    [(comprehension, contig variable, length variable, combined filter expressions)]) or None"""
    f = ctx.fn(BTM, MP)
    defs = {s_.targets[0].id: s_.value for s_ in walk_no_nested(f) if isinstance(s_, ast.Assign) and len(s_.targets) == 1 and isinstance(s_.targets[0], ast.Name)}

    def source_filters(it, depth=0):
        """filters applied between get_contigs_with_reads(...) and the iterable `it` (through locals holding filtered lists), with the
        names of (contig, length) as bound there; None when `it` does not come from the enumerator"""
        if depth > 4:
            return None
        if isinstance(it, ast.Call) and 'get_contigs_with_reads' in src(it.func):
            return []
        if isinstance(it, ast.Name) and it.id in defs:
            return source_filters(defs[it.id], depth + 1)
        if isinstance(it, (ast.ListComp, ast.GeneratorExp)) and len(it.generators) == 1 and isinstance(it.generators[0].target, ast.Tuple) \
                and src(it.elt).replace(' ', '') in (src(it.generators[0].target).replace(' ', ''), '(' + src(it.generators[0].target).replace(' ', '') + ')'):
            inner = source_filters(it.generators[0].iter, depth + 1)
            if inner is None:
                return None
            return inner + [(t_, [e.id for e in it.generators[0].target.elts if isinstance(e, ast.Name)]) for t_ in it.generators[0].ifs]
        if isinstance(it, ast.Call) and dotted(it.func) in ('list', 'tuple') and len(it.args) == 1:
            return source_filters(it.args[0], depth + 1)
        return None
    out = []
    for c in walk_no_nested(f):
        if isinstance(c, (ast.ListComp, ast.GeneratorExp)) and len(c.generators) == 1 and isinstance(c.generators[0].target, ast.Tuple) and len(c.generators[0].target.elts) == 2:
            g = c.generators[0]
            names = [e.id for e in g.target.elts if isinstance(e, ast.Name)]
            if len(names) != 2 or names[0] not in names_in(c.elt) or not isinstance(c.elt, (ast.Tuple, ast.List)):
                continue
            if src(c.elt).replace(' ', '').strip('()') == src(g.target).replace(' ', '').strip('()'):
                continue            # a filtered copy of the enumeration, not a job list
            sf = source_filters(g.iter)
            if sf is None:
                continue
            filters = []
            for t_, nm in sf:
                # rename the source comprehension's variables to this comprehension's
                filters.append(rename_names(t_, dict(zip(nm, names))) if nm and len(nm) == 2 else t_)
            conj = []
            for t_ in filters + list(g.ifs):
                conj += list(t_.values) if isinstance(t_, ast.BoolOp) and isinstance(t_.op, ast.And) else [t_]
            out.append((c, names[0], names[1], conj))
    return (f, out) if out else None


def job_list_model(ctx):
    """the one-contig-per-process job construction of tag_multiome_multi_processing, lifted out of the function and run by the abstract interpreter on model contig
    enumerations: up to four contigs that are small (below the pooling threshold) or large, in every order, with and without the unmapped sentinel "*" among them
    (get_contigs_with_reads is the model).  Required - the property itself: every contig with reads sits in exactly one job, the unmapped bin "*" in exactly one, no
    job is empty, every entry is (contig, None, None, None, None).  (ok, cases, witness) / None.  Cached per run."""
    if hasattr(ctx, '_job_list_model'):
        return ctx._job_list_model
    import copy
    import itertools
    from ..consteval import run_function, Raised, Unfoldable, module_scope
    ctx._job_list_model = None
    try:
        f = ctx.fn(BTM, MP)
        branch = [s_ for s_ in walk_no_nested(f) if isinstance(s_, ast.If) and src(s_.test) in ('one_contig_per_process', 'not one_contig_per_process')]
        if len(branch) != 1:
            return None
        body = branch[0].body if src(branch[0].test) == 'one_contig_per_process' else branch[0].orelse
        gens = [c for c in walk_no_nested(f) if isinstance(c, ast.Call) and last_name(dotted(c.func) or '') == 'generate_tasks']
        jarg = next((k.value for k in gens[0].keywords if k.arg == 'job_gen'), None) if gens else None
        if not isinstance(jarg, ast.Name):
            return None
        lifted = ast.FunctionDef(name='plan_jobs', args=ast.arguments(posonlyargs=[], args=[ast.arg(arg='input_bam_path')], kwonlyargs=[], kw_defaults=[], defaults=[]),
                                 body=copy.deepcopy(body) + [ast.Return(value=ast.Name(id=jarg.id, ctx=ast.Load()))], decorator_list=[], lineno=branch[0].lineno, col_offset=0)
        ast.fix_missing_locations(lifted)
        env = module_scope(ctx.ix, BTM)
    except Exception:
        return None
    pool = [('a', 50), ('b', 70), ('c', 200000), ('d', 5000000), ('*', 0)]
    # every integer constant of the construction is a potential length threshold: contigs just below, exactly at and just above it
    consts = sorted({c_.value for st_ in body for c_ in ast.walk(st_) if isinstance(c_, ast.Constant) and isinstance(c_.value, int) and not isinstance(c_.value, bool) and c_.value >= 2})
    edge = [(f'e{i}{j}', v_ + d_) for i, v_ in enumerate(consts[:3]) for j, d_ in enumerate((-1, 0, 1))]
    combos = [combo for k in range(0, 5) for combo in itertools.permutations(pool, k) if not (k == 4 and combo[0][0] > combo[-1][0])]
    combos += [(e_,) for e_ in edge] + [(e_, pool[0]) for e_ in edge] + [(pool[2], e_, pool[4]) for e_ in edge] + [tuple(edge)]
    # ... and a potential count threshold: enumerations with c - 1, c, c + 1 and 2c + 1 small contigs for the small constants
    for c_ in [v_ for v_ in consts if v_ <= 200][:2]:
        for m_ in (c_ - 1, c_, c_ + 1, 2 * c_ + 1):
            combos.append(tuple((f's{i}', 40 + i) for i in range(m_)) + (pool[2], pool[4]))
    n = 0
    try:
        for combo in combos:
            if True:
                if False:
                    continue
                n += 1

                def hook(ev, call, env_, combo=combo):
                    d = dotted(call.func) or ''
                    if d.endswith('get_contigs_with_reads'):
                        a = [ev.ev(x, env_) for x in call.args] + [ev.ev(k_.value, env_) for k_ in call.keywords]
                        with_length = len(a) > 1 and bool(a[1])
                        return iter([c_ if with_length else c_[0] for c_ in combo])
                    if d == 'print':
                        return None
                    return NotImplemented
                jobs = run_function(lifted, ['in.bam'], env=dict(env), call_hook=hook, budget=60000)
                jobs = [list(j) for j in jobs]
                flat = [tuple(e) for j in jobs for e in j]
                want = sorted([c_[0] for c_ in combo if c_[0] != '*'] + ['*'])
                problem = None
                if sorted(e[0] for e in flat) != want:
                    got = sorted(e[0] for e in flat)
                    problem = f'contigs in the job list {got}, contigs with reads + unmapped bin {want}: missing {sorted(set(want) - set(got))}, more than once {sorted({x for x in got if got.count(x) > 1})}'
                elif any(tuple(e[1:]) != (None, None, None, None) for e in flat):
                    problem = 'a whole-contig job entry carries coordinates'
                elif any(not j for j in jobs):
                    problem = 'an empty job'
                if problem:
                    ctx._job_list_model = (False, n, {'contigs enumerated (name, length)': list(combo), 'jobs': jobs, 'problem': problem})
                    return ctx._job_list_model
    except (Unfoldable, Raised):
        return None
    except Exception:
        return None
    ctx._job_list_model = (True, n, None)
    return ctx._job_list_model


def _job_model_or_structural(ctx, rid, structural):
    from ..core import Ctx, VIOLATED, UNDECIDED
    sub = Ctx(ctx.ix, 'C05', ctx.tier)
    err = None
    try:
        structural(sub)
    except AnalysisError as e_:
        err = e_
    except Exception as e_:
        err = AnalysisError(f'structural reading failed ({type(e_).__name__}: {e_})')
    for k_, v_ in sub.counters.items():
        ctx.counters[k_] = (ctx.counters.get(k_, set()) | v_) if isinstance(v_, set) else ctx.counters.get(k_, 0) + v_
    for k_, v_ in getattr(sub, 'exhaustive', {}).items():
        ctx.exhaustive[k_] = v_
    # what the model stands in for: the construction of the job list from the enumeration - not the enumerator itself (get_contigs_with_reads is the model's input)
    open_ = [o for o in sub.obligations if o.status in (VIOLATED, UNDECIDED) and 'get_contigs_with_reads' not in o.construct]
    if err is None and not open_:
        ctx.obligations.extend(sub.obligations)
        return
    m = job_list_model(ctx)
    if m is None:
        ctx.obligations.extend(sub.obligations)
        if err is not None:
            raise err
        return
    ok, n, wit = m
    f = ctx.fn(BTM, MP)
    ctx.counters['interpreted_cases'] += n
    if ok:
        ctx.obligations.extend([o for o in sub.obligations if o not in open_])
        ctx.emit(rid, True, BTM, f, f'one-contig-per-process job construction interpreted on {n} contig enumerations (small / large contigs in every order, with and without "*"): every contig with reads and the '
                 f'unmapped bin sit in exactly one job (the structural reading did not follow {len(open_)} construct(s) of the restructured construction)', key='job-list-model')
    else:
        ctx.obligations.extend(sub.obligations)
        ctx.emit(rid, False, BTM, f, f'job construction on a model enumeration: {wit.get("problem")} - {({k_: v_ for k_, v_ in wit.items() if k_ != "problem"})}', key='job-list-model', witness=wit,
                 what='tag_multiome_multi_processing: ' + str(wit.get('problem')))


@rule('C05', 'C05-R1', 'one-contig-per-process job list: on every path of the construction loop each contig with reads is put into '
                       'exactly one job (own job or the shared small-contig job) unless it is the unmapped sentinel; the shared job is '
                       'flushed whenever it is non-empty and reset after any in-loop flush')
def r1(ctx):
    _job_model_or_structural(ctx, 'C05-R1', _r1_structural)


def _r1_structural(ctx):
    try:
        f, loop = contig_loop(ctx)
    except AnalysisError:
        jc = _job_comprehensions(ctx)
        if jc is None:
            raise
        _r1_comprehensions(ctx, *jc)
        _r1_enumerator(ctx)
        return
    _r1_loop(ctx, f, loop)
    _r1_enumerator(ctx)


def _r1_comprehensions(ctx, f, sinks):
    """the job list as comprehensions: the filters of the sinks must partition the contigs (every length in exactly one sink) and exclude '*'"""
    from ..domains import eval_pred
    problems = []
    ncase = 0
    thr_names = set()
    for c, cv, lv, filters in sinks:
        for t_ in filters:
            thr_names |= {n_ for n_ in names_in(t_) if n_ not in (cv, lv)}
    for star in (False, True):
        for L in (0, 1, 2):
            for T in (1,):
                hits = 0
                undec = False
                for c, cv, lv, filters in sinks:
                    def atom(x, cv=cv, lv=lv):
                        t = src(x)
                        return 'L' if t == lv else ('T' if t in thr_names or (isinstance(x, ast.Constant) and isinstance(x.value, int) and x.value > 1) else None)
                    ok = True
                    for t_ in filters:
                        if cv in names_in(t_) and lv not in names_in(t_):
                            # the sentinel test
                            txt = src(t_).replace('"', "'").replace(' ', '')
                            if txt in (f"{cv}!='*'", f"'*'!={cv}"):
                                ok = ok and not star
                            elif txt in (f"{cv}=='*'", f"'*'=={cv}"):
                                ok = ok and star
                            else:
                                undec = True
                        else:
                            try:
                                ok = ok and bool(eval_pred(t_, {'L': L, 'T': T}, atom))
                            except Exception:
                                undec = True
                    hits += 1 if ok else 0
                ncase += 1
                if undec:
                    problems.append(('undecided', f'a filter of the job comprehensions is not a length / sentinel test'))
                elif star and hits:
                    problems.append(('violated', "the '*' row of the enumeration is queued as a contig job (unmapped reads written twice)"))
                elif not star and hits != 1:
                    rel = {0: 'below', 1: 'equal to', 2: 'above'}[L]
                    problems.append(('violated', f'a contig whose length is {rel} the small-contig threshold lands in {hits} job lists'))
    ctx.counters['abstract_cases'] += ncase
    und = [p_ for p_ in problems if p_[0] == 'undecided']
    vio = [p_ for p_ in problems if p_[0] == 'violated']
    ctx.emit('C05-R1', not problems, BTM, sinks[0][0], f'{len(sinks)} job comprehensions over the contigs with reads partition them over {ncase} (sentinel, length vs threshold) cases' if not problems else
             (vio[0][1] if vio else und[0][1]), key='contig-to-job-once', undecided=bool(und) and not vio,
             what=f'{MP}: a contig with reads is dropped from / duplicated in the job list')
    # every sink reaches the job list
    used = 0
    mod = ctx.ix.module(BTM)
    for c, cv, lv, filters in sinks:
        p_ = mod.parent.get(c)
        while p_ is not None and not isinstance(p_, ast.stmt):
            p_ = mod.parent.get(p_)
        nm = p_.targets[0].id if isinstance(p_, ast.Assign) and isinstance(p_.targets[0], ast.Name) else None
        if nm == 'job_gen' or (nm and any(isinstance(x, ast.Call) and isinstance(x.func, ast.Attribute) and x.func.attr in ('append', 'extend') and x.args and src(x.args[0]) == nm
                                          for x in walk_no_nested(f))) or (nm and any(isinstance(s_, ast.Assign) and nm in names_in(s_.value) and src(s_.targets[0]) == 'job_gen' for s_ in walk_no_nested(f))):
            used += 1
    ctx.emit('C05-R1', used == len(sinks), BTM, sinks[0][0], f'{used} of {len(sinks)} job comprehensions end up in the job list', key='flush-after-loop:comprehensions')


def _r1_loop(ctx, f, loop):
    tgt = loop.target
    cv = tgt.elts[0].id if isinstance(tgt, ast.Tuple) else tgt.id
    cfg = CFG(loop.body, exceptions=False)

    def step(state, node, label):
        ev = tuple(x for x in state if x[0] != '<taint>')
        tainted = {x[1] for x in state if x[0] == '<taint>'}
        new = []
        # locals bound (on this path) to a value built from the contig stand for the contig: `task = (contig, None, ...)`
        if node.kind == 'stmt' and isinstance(node.ast, ast.Assign) and len(node.ast.targets) == 1 and isinstance(node.ast.targets[0], ast.Name) and node.ast.targets[0].id != cv:
            if mentions(node.ast.value, cv) or (names_in(node.ast.value) & tainted):
                tainted = tainted | {node.ast.targets[0].id}
            else:
                tainted = tainted - {node.ast.targets[0].id}
        if node.kind == 'test' and label in ('true',) and isinstance(node.ast.test, ast.Compare) and len(node.ast.test.ops) == 1:
            t = node.ast.test
            if isinstance(t.ops[0], ast.Eq) and {src(t.left), src(t.comparators[0])} == {cv, "'*'"}:
                new.append(('is-unmapped-sentinel', None))
        if node.kind == 'test' and label == 'false' and isinstance(node.ast.test, ast.Compare) and len(node.ast.test.ops) == 1:
            t = node.ast.test
            if isinstance(t.ops[0], ast.NotEq) and {src(t.left), src(t.comparators[0])} == {cv, "'*'"}:
                new.append(('is-unmapped-sentinel', None))
        for c in node_calls(node):
            if isinstance(c.func, ast.Attribute) and c.func.attr == 'append' and c.args:
                a = c.args[0]
                if mentions(a, cv) or (names_in(a) & tainted):
                    new.append(('consume', src(c.func.value)))
                elif isinstance(a, ast.Name):
                    new.append(('flush', a.id))
        if node.kind == 'stmt' and isinstance(node.ast, ast.Assign) and isinstance(node.ast.targets[0], ast.Name) \
                and isinstance(node.ast.value, ast.List) and not node.ast.value.elts:
            new.append(('reset', node.ast.targets[0].id))
        return ev + tuple(new) + tuple(('<taint>', t_) for t_ in sorted(tainted))

    paths = cfg.paths(state0=(), step=step)
    ctx.counters['paths_enumerated'] += len(paths)
    bad = []
    sinks = set()
    for p, ev in paths:
        if cfg.nodes[p[-1][0]].info not in ('fall', 'continue'):
            continue
        ev = tuple(x for x in ev if x[0] != '<taint>')
        cons = [x for k, x in ev if k == 'consume']
        sent = any(k == 'is-unmapped-sentinel' for k, x in ev)
        sinks.update(cons)
        if sent:
            if cons:
                bad.append(('the unmapped sentinel is queued', cfg.fmt_path(p)))
            continue
        if len(cons) != 1:
            bad.append((f'contig consumed {len(cons)} times', cfg.fmt_path(p)))
        # flush / reset discipline
        for i, (k, x) in enumerate(ev):
            if k == 'flush' and not any(k2 == 'reset' and x2 == x for k2, x2 in ev[i + 1:]):
                bad.append((f'accumulator {x} flushed inside the loop without being reset', cfg.fmt_path(p)))
    ctx.emit('C05-R1', not bad, BTM, loop, f'{len(paths)} paths through the contig loop: ' +
             ('every contig lands in exactly one job list (' + ', '.join(sorted(sinks)) + ')' if not bad else f'{bad[0][0]} on path {bad[0][1][:400]}'),
             key='contig-to-job-once', witness={'path': bad[0][1]} if bad else None,
             what=f'{MP}: a contig with reads is dropped from / duplicated in the job list')
    # accumulators (lists the loop appends plain tuples to, other than the job list itself) must be flushed after the loop
    mod = ctx.ix.module(BTM)
    parent = mod.parent[loop]
    body = parent.body if loop in getattr(parent, 'body', []) else parent.orelse
    after = body[body.index(loop) + 1:]
    job_lists = {x for x in sinks if any(isinstance(s, ast.Assign) and src(s.targets[0]) == x and "'*'" in src(s.value) for s in walk_no_nested(f))}
    accs = sinks - job_lists
    for acc in sorted(accs):
        fl = None
        for s in after:
            for n in walk_no_nested(s):
                if isinstance(n, ast.Call) and isinstance(n.func, ast.Attribute) and n.func.attr in ('append', 'extend') and n.args and src(n.args[0]) == acc:
                    fl = (s, n)
                # a list of ready-made jobs that is concatenated into the job list: `job_gen = [..] + acc` / `job_gen += acc`
                if isinstance(n, ast.Assign) and isinstance(n.value, ast.BinOp) and isinstance(n.value.op, ast.Add) and any(isinstance(x, ast.Name) and x.id == acc for x in (n.value.left, n.value.right)) \
                        and "'*'" in src(n.value):
                    fl = (s, n)
                if isinstance(n, ast.AugAssign) and isinstance(n.op, ast.Add) and src(n.value) == acc:
                    fl = (s, n)
        if fl is None:
            ctx.emit('C05-R1', False, BTM, loop, f'small-contig accumulator `{acc}` is never flushed into the job list after the loop', key=f'flush-after-loop:{acc}')
            continue
        s, n = fl
        if isinstance(s, ast.If):
            try:
                ncase, badp = check_pred(s.test, lambda e: e['n'] > 0, symbols=['n'], constraint=lambda e: e['n'] >= 0,
                                         atom_name=lambda x: 'n' if src(x) == f'len({acc})' else None, extra_consts=(0, 1, 2))
                if src(s.test) == acc:
                    ncase, badp = 1, []
            except AnalysisError:
                if src(s.test) == acc:
                    ncase, badp = 1, []
                else:
                    ncase, badp = 0, [{'case': 'guard not interpretable: ' + src(s.test)}]
            ctx.counters['abstract_cases'] += ncase
            ctx.emit('C05-R1', not badp, BTM, s, f'flush of `{acc}` after the loop is guarded by `{src(s.test)}`: ' +
                     ('== non-empty' if not badp else f'a non-empty accumulator is not flushed: {badp[0]["case"]}'), key=f'flush-after-loop:{acc}',
                     witness=badp[0] if badp else None)
        else:
            ctx.emit('C05-R1', True, BTM, s, f'`{acc}` is flushed unconditionally after the loop', key=f'flush-after-loop:{acc}')
    ctx.need('C05-R1', len(sinks), 2, 'job-list sinks in the contig loop')


def _r1_enumerator(ctx):
    # the enumerator: yields every idxstats row that has mapped or unmapped reads
    g = ctx.fn(BAMFUNC, 'get_contigs_with_reads')
    ys = [y for y in walk_no_nested(g) if isinstance(y, ast.Yield)]
    # idxstats columns are (contig, length, mapped, unmapped): the counts are the 3rd and 4th name of the row unpacking
    def from_split(v):
        if isinstance(v, ast.Name):
            ds = [a for a in walk_no_nested(g) if isinstance(a, ast.Assign) and len(a.targets) == 1 and src(a.targets[0]) == v.id]
            return len(ds) == 1 and 'split' in src(ds[0].value)
        return 'split' in src(v)
    unp = [s for s in walk_no_nested(g) if isinstance(s, ast.Assign) and isinstance(s.targets[0], ast.Tuple) and len(s.targets[0].elts) == 4 and from_split(s.value)]
    # a guard on the number of fields of the row only removes rows the 4-name unpacking rejects anyway (ValueError -> row skipped)
    row = src(unp[0].value) if len(unp) == 1 else None

    def irrelevant(t_):
        if 'with_length' in names_in(t_):
            return True
        return row is not None and isinstance(t_, ast.Compare) and len(t_.ops) == 1 and isinstance(t_.ops[0], (ast.NotEq, ast.Eq)) and \
            src(t_.left) == f'len({row})' and isinstance(t_.comparators[0], ast.Constant) and t_.comparators[0].value == 4
    nm = {}
    if len(unp) == 1 and all(isinstance(e, ast.Name) for e in unp[0].targets[0].elts):
        nm = {unp[0].targets[0].elts[2].id: 'm', unp[0].targets[0].elts[3].id: 'u'}
    ok = bool(ys) and bool(nm)
    why = 'row unpacking / yields not found'
    for y in ys:
        t = reach_expr(g.body, y, drop=irrelevant)
        if t is not None:
            # int(<count field>) is the count itself
            class _Int(ast.NodeTransformer):
                def visit_Call(self, n):
                    self.generic_visit(n)
                    if src(n.func) == 'int' and len(n.args) == 1 and not n.keywords and isinstance(n.args[0], ast.Name) and n.args[0].id in nm:
                        return n.args[0]
                    return n
            import copy as _copy
            t = _Int().visit(_copy.deepcopy(t))
        okk = t is not None and pred_is(t, lambda e: e['m'] > 0 or e['u'] > 0, nm, consts=(0, 1))
        ok = ok and okk
        why = 'yields a contig iff it has mapped or unmapped (placed) records' if okk else f'yield condition `{src(t) if t is not None else None}` differs from "mapped > 0 or unmapped > 0"'
        if not okk:
            break
    ctx.emit('C05-R1', ok, BAMFUNC, g, f'get_contigs_with_reads: {why}', key='enumerator-guard')


@rule('C05', 'C05-R2', 'the unmapped bin is processed by exactly one job: the literal initial job, and no other job can contain "*"')
def r2(ctx):
    _job_model_or_structural(ctx, 'C05-R2', _r2_structural)


def _r2_structural(ctx):
    f, loop = contig_loop(ctx)
    lits = [s for s in walk_no_nested(f) if isinstance(s, ast.Assign) and src(s.targets[0]) == 'job_gen' and "'*'" in src(s.value)]
    arm = None
    mod = ctx.ix.module(BTM)
    p = mod.parent[loop]
    one = [s for s in lits if any(x is s for x in getattr(p, 'body', []))]
    n_star = src(one[0].value).count("'*'") if one else 0
    ctx.emit('C05-R2', len(one) == 1 and n_star == 1, BTM, one[0] if one else loop, f'initial job list `{src(one[0].value) if one else None}` holds the unmapped bin exactly once',
             key='initial-unmapped-job')
    # the loop must exclude '*': established by C05-R1's sentinel path (a path with the sentinel and no consumption exists)
    tgt = loop.target
    cv = tgt.elts[0].id if isinstance(tgt, ast.Tuple) else tgt.id
    # with contig == '*' no feasible path of the loop body queues the contig (however the exclusion is written: continue guard, `pass` arm of an
    # if/elif chain, or `!=` around every consumption)
    carriers = {s_.targets[0].id for s_ in walk_no_nested(loop) if isinstance(s_, ast.Assign) and len(s_.targets) == 1 and isinstance(s_.targets[0], ast.Name)
                and s_.targets[0].id != cv and mentions(s_.value, cv)}      # locals built from the contig (`task = (contig, None, ...)`)
    appends = {src(c) for c in walk_no_nested(loop) if isinstance(c, ast.Call) and isinstance(c.func, ast.Attribute) and c.func.attr == 'append' and c.args
               and (mentions(c.args[0], cv) or (names_in(c.args[0]) & carriers))}
    rs = explore(loop.body, mk_atoms({f"{cv} == '*'": True}))
    queued = [r for r in rs if any(c in appends for c in r['calls'])]
    ok = bool(appends) and bool(rs) and not queued
    ctx.emit('C05-R2', ok, BTM, loop, "the contig loop skips the '*' row that get_contigs_with_reads yields for unmapped reads" if ok else
             "the contig loop can queue '*' a second time (unmapped reads written twice)", key='loop-excludes-unmapped',
             what=f"{MP}: '*' yielded by get_contigs_with_reads is queued next to the initial unmapped job")
    # tiled arm: initial job + chunks
    other = [s for s in lits if s not in one]
    ok2 = all(src(s.value).count("'*'") == 1 for s in other)
    ctx.emit('C05-R2', ok2, BTM, other[0] if other else loop, f'tiled mode job list holds the unmapped bin once ({len(other)} site)', key='tiled-unmapped-job', nontrivial=False)


@rule('C05', 'C05-R3', 'the single-process pipeline iterates chain(unmapped iterator, mapped iterator), both built from the same arguments')
def r3(ctx):
    f = ctx.fn(BTM, ST)
    ch = [c for c in walk_no_nested(f) if isinstance(c, ast.Call) and dotted(c.func) in ('chain', 'itertools.chain')]
    if len(ch) != 1:
        ctx.emit('C05-R3', False, BTM, f, f'{ST}: no single chain(...) of molecule iterators', key='chain')
        return
    c = ch[0]
    ok = len(c.args) == 2 and all(isinstance(a, ast.Call) and src(a.func) == 'molecule_iterator' for a in c.args)
    kwe = [a.keywords[0].value if ok and a.keywords and a.keywords[0].arg is None else None for a in c.args] if ok else []
    kws = [src(e_) if e_ is not None else None for e_ in kwe]

    def describe(e_):
        """(base argument dict, is the unmapped variant) of an iterator argument expression: B itself, or a copy of B with contig '*' -
        written as `u = B.copy(); u['contig'] = '*'`, `{**B, 'contig': '*'}` or `dict(B, contig='*')`"""
        if e_ is None:
            return None
        if isinstance(e_, ast.Name):
            star = any(isinstance(s_, ast.Assign) and isinstance(s_.targets[0], ast.Subscript) and src(s_.targets[0].value) == e_.id and src(s_.targets[0].slice) == "'contig'"
                       and src(s_.value) == "'*'" for s_ in walk_no_nested(f))
            dd = [s_.value for s_ in walk_no_nested(f) if isinstance(s_, ast.Assign) and len(s_.targets) == 1 and src(s_.targets[0]) == e_.id]
            if star and len(dd) == 1 and src(dd[0]).endswith('.copy()'):
                return (src(dd[0])[:-len('.copy()')], True)
            if len(dd) == 1 and isinstance(dd[0], (ast.Dict, ast.Call)) and not star:
                inner = describe(dd[0])
                if inner is not None:
                    return inner
            return (e_.id, star)
        if isinstance(e_, ast.Dict):
            bases = [src(v_) for k_, v_ in zip(e_.keys, e_.values) if k_ is None]
            consts = {k_.value: src(v_) for k_, v_ in zip(e_.keys, e_.values) if isinstance(k_, ast.Constant)}
            if len(bases) == 1 and consts == {'contig': "'*'"}:
                return (bases[0], True)
        if isinstance(e_, ast.Call) and dotted(e_.func) == 'dict' and len(e_.args) == 1 and {k_.arg: src(k_.value) for k_ in e_.keywords} == {'contig': "'*'"}:
            return (src(e_.args[0]), True)
        return None
    ds = [describe(e_) for e_ in kwe]
    um = next((kws[i] for i, d_ in enumerate(ds) if d_ and d_[1]), None)
    base = next((d_[0] for d_ in ds if d_ and not d_[1]), None)
    ok = ok and len(ds) == 2 and all(d_ is not None for d_ in ds) and {d_[1] for d_ in ds} == {True, False} and ds[0][0] == ds[1][0]
    # the pass over the unplaced reads is not optional: the chain is built on every path (an index may report 0 reads without a coordinate
    # although fetch('*') returns them - the optional n_no_coor field of a .bai)
    guards = [(t_, pol) for t_, pol in (reach_conds(f.body, c) or [])]
    if guards:
        ctx.emit('C05-R3', False, BTM, c, f'the iterator over the unplaced reads (contig "*") is only chained in when `{"" if guards[0][1] else "not "}{src(guards[0][0])}`: otherwise the single-process '
                 f'pipeline never visits reads without a coordinate and they are missing from the output', key='chain', what=f'{ST}: the unmapped pass is conditional')
        return
    if not ok:
        # an iterator argument may be a local holding the mapped / unmapped iterator built before
        def resolve(a):
            if isinstance(a, ast.Name):
                dd = [s_.value for s_ in walk_no_nested(f) if isinstance(s_, ast.Assign) and len(s_.targets) == 1 and src(s_.targets[0]) == a.id]
                if len(dd) == 1:
                    return dd[0]
            return a
        args2 = [resolve(a) for a in c.args]
        if len(args2) == 2 and all(isinstance(a, ast.Call) and src(a.func) == 'molecule_iterator' for a in args2):
            kwe = [a.keywords[0].value if a.keywords and a.keywords[0].arg is None else None for a in args2]
            kws = [src(e_) if e_ is not None else None for e_ in kwe]
            ds = [describe(e_) for e_ in kwe]
            um = next((kws[i] for i, d_ in enumerate(ds) if d_ and d_[1]), None)
            base = next((d_[0] for d_ in ds if d_ and not d_[1]), None)
            ok = all(d_ is not None for d_ in ds) and {d_[1] for d_ in ds} == {True, False} and ds[0][0] == ds[1][0]
    recognised = ok or (len(ds) == 2 and all(d_ is not None for d_ in ds))
    ctx.emit('C05-R3', ok, BTM, c, f'molecule source = chain over {kws}; `{um}` is a copy of `{base}` with contig "*"' if ok else f'chain arguments {kws} are not (unmapped copy, mapped) of one argument dict', key='chain',
             undecided=not recognised)
    # the loop writes every molecule: write_tags then write_pysam unless no_source_reads
    loops = [l for l in walk_no_nested(f) if isinstance(l, ast.For) and 'molecule_iterator_exec' in src(l.iter)]
    okw = len(loops) == 1
    if okw:
        cfg = CFG(loops[0].body, exceptions=False)
        for p, _ in cfg.paths():
            if cfg.nodes[p[-1][0]].info not in ('fall', 'continue'):
                continue
            names = [src(c.func) for nid, _l in p for c in node_calls(cfg.nodes[nid])]
            def _nsr_true(nid, lab):
                # the path runs under `no_source_reads` being true: the false arm of `not no_source_reads`, the true arm of `no_source_reads`
                nn = cfg.nodes[nid]
                if nn.kind != 'test' or 'no_source_reads' not in src(nn.ast.test):
                    return False
                t_ = nn.ast.test
                neg = isinstance(t_, ast.UnaryOp) and isinstance(t_.op, ast.Not)
                return lab == ('false' if neg else 'true')
            skipped = any(_nsr_true(nid, lab) for nid, lab in p)
            if 'molecule.write_tags' not in names or ('molecule.write_pysam' not in names and not skipped):
                okw = False
    ctx.emit('C05-R3', okw, BTM, loops[0] if loops else f, 'every molecule of the chained iterator is tagged and written (unless no_source_reads)', key='write-every-molecule')


@rule('C05', 'C05-R4', 'rejected / overflow fragments are yielded unless --no_rejects / --no_overflow was given: the only assignments that '
                       'switch them off are guarded by exactly those options, and the iterator yields them iff the flag is set')
def r4(ctx):
    f = ctx.fn(BTM, 'run_multiome_tagging')
    mod = ctx.ix.module(BTM)
    for var, opt in (('yield_invalid', 'args.no_rejects'), ('yield_overflow', 'args.no_overflow')):
        asg = [s for s in walk_no_nested(f) if isinstance(s, ast.Assign) and src(s.targets[0]) == var]
        problems = []
        # decision: the value of the flag where the iterator arguments are built, for the option off / on.  Option off -> True on every path;
        # option on -> False (another setting may re-assert True, e.g. the qflag method, so at least one path must give False and no path
        # may give True without a further condition).  Written as `x = True; if opt: x = False`, `x = not opt`, a conditional expression ...
        top = [s_ for s_ in f.body if any(isinstance(x, ast.Assign) and src(x.targets[0]) == var for x in ast.walk(s_))]
        for optval in (False, True):
            at = mk_atoms({opt: optval})

            def atoms(e, at=at, optval=optval):
                v_ = at(e)
                if v_ is UNK and isinstance(e, ast.UnaryOp) and isinstance(e.op, ast.Not) and src(e.operand) == opt:
                    return not optval
                return v_
            rs = [r for r in explore(top, atoms, names=(var,), max_paths=5000) if r['kind'] in ('fall',)]
            vals = set()
            for r in rs:
                e_ = r['env'].get(var)
                v_ = eval3(e_, {}, atoms) if e_ is not None else UNK
                cond_free = not any(True for _ in ())   # placeholder for readability
                vals.add(v_ if v_ is UNK else bool(v_))
            if not rs or UNK in vals:
                problems.append(f'value with {opt}={optval} not decided ({sorted(map(str, vals))})')
            elif not optval and vals != {True}:
                problems.append(f'with {opt} off the flag is {sorted(vals)} (expected True on every path)')
            elif optval and False not in vals:
                problems.append(f'with {opt} on the flag is never switched off')
        # the value reaches the iterator arguments
        dk = [d for d in walk_no_nested(f) if isinstance(d, ast.Dict) and any(isinstance(k, ast.Constant) and k.value == var for k in d.keys)]
        if not dk or not any(src(v) == var for d in dk for k, v in zip(d.keys, d.values) if isinstance(k, ast.Constant) and k.value == var):
            problems.append('not passed to the molecule iterator arguments')
        ctx.emit('C05-R4', not problems, BTM, asg[0] if asg else f, f'{var}: ' + ('True unless ' + opt + ' (qflag re-asserts True), passed to the iterator' if not problems else '; '.join(problems)),
                 key=f'wiring:{var}')
    # iterator side
    it = ctx.fn(MOLITER, 'MoleculeIterator.__iter__')
    init = ctx.fn(MOLITER, 'MoleculeIterator.__init__')
    for var in ('yield_invalid', 'yield_overflow'):
        st = any(isinstance(s, ast.Assign) and src(s) == f'self.{var} = {var}' for s in walk_no_nested(init))
        # the block that decides about such a fragment: with the flag on every path through it yields a molecule, with the flag off none does
        # and the fragment is counted as deleted (if/else, guard clause with `continue`, either polarity)
        modi = ctx.ix.module(MOLITER)
        ifs = [s for s in walk_no_nested(it) if isinstance(s, ast.If) and f'self.{var}' in src(s.test) and names_in(s.test) == {'self'}]
        oky = len(ifs) == 1
        if not oky and var == 'yield_invalid':
            # the decision may be spread over several tests (validity bound to a local, merged with other conditions): decided on the paths of
            # one read-loop iteration for an invalid fragment, from the statement that asks for the validity on
            loops_ = [l for l in walk_no_nested(it) if isinstance(l, ast.For) and 'matePairIterator' in src(l.iter)]
            if loops_:
                body_ = loops_[0].body
                k0 = next((k for k, s_ in enumerate(body_) if 'is_valid()' in src(s_)), None)
                if k0 is not None:
                    oky = True
                    for flag in (True, False):
                        at_ = mk_atoms({'fragment.is_valid()': False, f'self.{var}': flag})
                        rs = [r for r in explore(body_[k0:], at_, max_paths=5000) if r['kind'] in ('continue', 'fall')]
                        ys = {sum(1 for t, v, k in r['stores'] if t == '<yield>') for r in rs}
                        dl = {sum(1 for t, v, k in r['stores'] if t == 'self.deleted_fragments') for r in rs}
                        ends = {r['kind'] for r in rs}
                        oky = oky and bool(rs) and ends == {'continue'} and (ys == {1} and dl == {0} if flag else ys == {0} and dl == {1})
                    ctx.emit('C05-R4', st and oky, MOLITER, body_[k0], f'iterator: fragments are yielded iff self.{var}, otherwise counted as deleted', key=f'iterator:{var}')
                    continue
        if oky:
            par = modi.parent[ifs[0]]
            block = None
            for fld in ('body', 'orelse', 'finalbody'):
                if ifs[0] in (getattr(par, fld, None) or []):
                    block = getattr(par, fld)
            region = block[block.index(ifs[0]):] if block else [ifs[0]]
            for flag in (True, False):
                rs = [r for r in explore(region, mk_atoms({f'self.{var}': flag})) if r['kind'] in ('continue', 'fall')]
                ys = {sum(1 for t, v, k in r['stores'] if t == '<yield>') for r in rs}
                dl = {sum(1 for t, v, k in r['stores'] if t == 'self.deleted_fragments') for r in rs}
                oky = oky and bool(rs) and (ys == {1} and dl == {0} if flag else ys == {0} and dl == {1})
        ctx.emit('C05-R4', st and oky, MOLITER, ifs[0] if ifs else it, f'iterator: fragments are yielded iff self.{var}, otherwise counted as deleted', key=f'iterator:{var}')
    # the argparse options are store_true flags (default: write rejects)
    tree = mod.tree
    for optname in ('--no_rejects', '--no_overflow'):
        calls = [c for c in ast.walk(tree) if isinstance(c, ast.Call) and isinstance(c.func, ast.Attribute) and c.func.attr == 'add_argument'
                 and c.args and isinstance(c.args[0], ast.Constant) and c.args[0].value == optname]
        ok = len(calls) == 1 and any(k.arg == 'action' and isinstance(k.value, ast.Constant) and k.value.value == 'store_true' for k in calls[0].keywords)
        ctx.emit('C05-R4', ok, BTM, calls[0] if calls else None, f'{optname} is an opt-in store_true flag', key=f'option:{optname}', nontrivial=False)


@rule('C05', 'C05-R5', 'the writer context closes, re-headers, sorts and indexes in that order and propagates failures (shared with C20-R4)')
def r5(ctx):
    C05_shared.writer_finalisation(ctx, 'C05-R5')


def _rg_written_for_every_fragment(ctx, wt):
    """Fragment.write_tags run by the interpreter for every outcome of the tests it makes (valid span, safe span, valid fragment): RG is set, to the value of get_read_group(),
    in every case.  (ok, cases, witness) or None outside the interpreted subset."""
    import itertools
    from ..consteval import run_function, Unfoldable, Raised
    n = 0
    try:
        for span_ok, safe, valid in itertools.product((True, False), repeat=3):
            metas = []

            def hook(ev, call, env, metas=metas):
                d = dotted(call.func) or ''
                if not d.startswith('self.'):
                    return NotImplemented
                a = [ev.ev(x, env) for x in call.args]
                m_ = d[5:]
                if m_ == 'set_meta':
                    metas.append((a[0], a[1]))
                    return None
                if m_ == 'has_valid_span':
                    return span_ok
                if m_ == 'is_valid':
                    return valid
                if m_ == 'get_read_group':
                    return '<read group>'
                return f'<{m_}>'
            env = {'self.safe_span': safe, 'self.span': ('chr1', 10, 90), 'self.mapping_quality': 40, 'self.is_multimapped': False, 'self.qcfail': not valid}
            run_function(wt, [[]], env=env, call_hook=hook, budget=5000)
            n += 1
            rg = [v for k, v in metas if k == 'RG']
            if rg != ['<read group>']:
                return False, n, {'span valid': span_ok, 'safe span': safe, 'fragment valid': valid, 'RG written': rg, 'tags written': [k for k, v in metas]}
        return True, n, None
    except (Unfoldable, Raised, Exception):
        return None



@rule('C05', 'C05-R6', 'read groups: the id registered for the header and the RG tag written to the reads come from the same function, and '
                       'both tagging loops register the read group of every fragment of every written molecule')
def r6(ctx):
    sites = [(BTM, ST), (TAGGING, 'run_tagging_task')]
    for relpath, q in sites:
        f = ctx.fn(relpath, q)
        loops = [l for l in walk_no_nested(f) if isinstance(l, ast.For) and src(l.iter) == 'molecule' and isinstance(l.target, ast.Name)]
        ok = False
        detail = 'no loop over the fragments of the molecule registers read groups'
        for l in loops:
            fv = l.target.id
            reg = [s for s in walk_no_nested(l) if isinstance(s, ast.Assign) and isinstance(s.targets[0], ast.Subscript) and src(s.targets[0].value) == 'read_groups']
            ids = [s for s in walk_no_nested(l) if isinstance(s, ast.Assign) and src(s.value) == f'{fv}.get_read_group()']
            if reg and ids:
                idv = src(ids[0].targets[0])
                ok = src(reg[0].targets[0].slice) == idv and src(reg[0].value) == f'{fv}.get_read_group(True)[1]'
                detail = f'read_groups[{src(reg[0].targets[0].slice)}] = {src(reg[0].value)} for every fragment of the molecule'
        ctx.emit('C05-R6', ok, relpath, loops[0] if loops else f, f'{q}: {detail}', key=f'{q}:register-every-fragment',
                 what=f'{q}: read groups are not registered for every fragment of a molecule (RG missing from the header)')
    # the RG tag written to the reads is get_read_group()
    wt = ctx.fn(FRAGMENT, 'Fragment.write_tags')
    ok = any(isinstance(c, ast.Call) and isinstance(c.func, ast.Attribute) and c.func.attr == 'set_meta' and len(c.args) == 2 and
             isinstance(c.args[0], ast.Constant) and c.args[0].value == 'RG' and src(c.args[1]) == 'self.get_read_group()' for c in walk_no_nested(wt))
    model = _rg_written_for_every_fragment(ctx, wt)
    if model is None:
        ctx.emit('C05-R6', ok, FRAGMENT, wt, 'Fragment.write_tags writes RG = self.get_read_group()', key='rg-tag-source')
    else:
        ctx.emit('C05-R6', model[0], FRAGMENT, wt, f'Fragment.write_tags writes RG = self.get_read_group() in all {model[1]} model cases (span valid or not, safe or not, fragment valid or not)' if model[0] else
                 f'Fragment.write_tags leaves a fragment without its read group: {model[2]} - the record keeps the RG of the input (none, or an id the new header does not declare)', key='rg-tag-source',
                 witness=model[2], what='Fragment.write_tags does not write RG for every fragment')
    wp = ctx.fn(FRAGMENT, 'Fragment.write_pysam')
    calls = [src(c.func) for c in walk_no_nested(wp) if isinstance(c, ast.Call)]
    loops = [l for l in walk_no_nested(wp) if isinstance(l, ast.For) and src(l.iter) == 'self']
    ok = 'self.write_tags' in calls and len(loops) == 1 and any(isinstance(c, ast.Call) and isinstance(c.func, ast.Attribute) and c.func.attr == 'write'
                                                                 and c.args and src(c.args[0]) == loops[0].target.id for c in walk_no_nested(loops[0]))
    if ok:
        # statement order in the body (not line numbers: statements of an inlined helper keep the lines of the helper)
        def top_index(node):
            return next((k for k, s_ in enumerate(wp.body) if any(x is node for x in ast.walk(s_))), None)
        wt_call = [c for c in walk_no_nested(wp) if isinstance(c, ast.Call) and src(c.func) == 'self.write_tags'][0]
        ok = top_index(wt_call) is not None and top_index(loops[0]) is not None and top_index(wt_call) < top_index(loops[0])
    ctx.emit('C05-R6', ok, FRAGMENT, wp, 'Fragment.write_pysam writes the tags (incl. RG) and then every non-None read of the fragment', key='fragment-write-pysam')
    mp = ctx.fn(MOLECULE, 'Molecule.write_pysam')
    ok = all(any(isinstance(c, ast.Call) and isinstance(c.func, ast.Attribute) and c.func.attr == 'write_pysam' for c in walk_no_nested(l))
             for l in walk_no_nested(mp) if isinstance(l, ast.For) and src(l.iter) == 'self')
    n_loops = sum(1 for l in walk_no_nested(mp) if isinstance(l, ast.For) and src(l.iter) == 'self')
    # every normal path that is meant to keep the source reads (no_source_reads off, with and without consensus) passes through such a loop
    wloops = [l for l in walk_no_nested(mp) if isinstance(l, ast.For) and src(l.iter) == 'self' and
              any(isinstance(c, ast.Call) and isinstance(c.func, ast.Attribute) and c.func.attr == 'write_pysam' for c in walk_no_nested(l))]
    paths_ok, n_paths = bool(wloops), 0
    for cons in (True, False):
        rs = explore(mp.body, mk_atoms({'no_source_reads': False, 'not no_source_reads': True, 'consensus': cons, 'not consensus': not cons}),
                     mark=lambda nd: 'fragment-loop' if nd.kind == 'for' and any(nd.ast is l for l in wloops) else None)
        for r in rs:
            if r['kind'] not in ('fall', 'return'):
                continue
            n_paths += 1
            if not any(t == '<mark>' and v == 'fragment-loop' for t, v, k in r['stores']):
                paths_ok = False
    ctx.counters['paths_enumerated'] += n_paths
    ctx.emit('C05-R6', ok and paths_ok and n_paths >= 2, MOLECULE, mp, f'Molecule.write_pysam writes every fragment of the molecule on all {n_paths} paths that keep the source reads ({n_loops} loops over self)',
             key='molecule-write-pysam')
    # the header writer receives the same dict
    f = ctx.fn(BTM, ST)
    w = [c for c in walk_no_nested(f) if isinstance(c, ast.Call) and last_name(dotted(c.func) or '') == 'sorted_bam_file']
    ok = len(w) == 1 and any(k.arg == 'read_groups' and src(k.value) == 'read_groups' for k in w[0].keywords)
    ctx.emit('C05-R6', ok, BTM, w[0] if w else f, 'single-process writer context receives the read_groups dict the loop fills', key='single:read-groups-dict', nontrivial=False)
    g = ctx.fn(TAGGING, 'run_tagging_tasks')
    w = [c for c in walk_no_nested(g) if isinstance(c, ast.Call) and last_name(dotted(c.func) or '') == 'sorted_bam_file']
    t = [c for c in walk_no_nested(g) if isinstance(c, ast.Call) and last_name(dotted(c.func) or '') == 'run_tagging_task']
    ok = len(w) == 1 and len(t) == 1 and any(k.arg == 'read_groups' and src(k.value) == 'read_groups' for k in w[0].keywords) and \
        any(k.arg == 'read_groups' and src(k.value) == 'read_groups' for k in t[0].keywords)
    ctx.emit('C05-R6', ok, TAGGING, w[0] if w else g, 'worker writer context and tagging task share one read_groups dict', key='worker:read-groups-dict', nontrivial=False)


def _merge_model(ctx):
    """merge_bams run by the abstract interpreter on a model file system (a file is the multiset of the record tokens it holds; merge / move / remove / index do what they
    say) for 1..12 indexed input files, with and without a samtools executable: the output holds every token of every input exactly once, is indexed after its last change,
    and the inputs are gone.  (ok, cases, witness) or None outside the interpreted subset."""
    import collections
    from ..consteval import run_function, module_scope, Unfoldable, Raised
    g = ctx.fn(BAMFUNC, 'merge_bams')
    n = 0
    try:
        env = dict(module_scope(ctx.ix, BAMFUNC))
        for have_samtools in (False, True):
            for k in range(1, 13):
                n += 1
                fs = {}
                for i in range(k):
                    fs[f'job{i}.bam'] = collections.Counter({f'r{i}a': 1, f'r{i}b': 1})
                    fs[f'job{i}.bam.bai'] = ('index', tuple(sorted(fs[f'job{i}.bam'].items())))
                log = []

                def merge(out, ins):
                    tot = collections.Counter()
                    for p_ in ins:
                        if p_ not in fs:
                            raise Raised('FileNotFoundError', p_)
                        tot.update(fs[p_])
                    fs[out] = tot

                def hook(ev, call, env_):
                    d = dotted(call.func) or ''
                    if d in ('os.path.exists', 'exists'):
                        return ev.ev(call.args[0], env_) in fs
                    if d in ('move', 'shutil.move', 'os.rename', 'os.replace'):
                        a, b = [ev.ev(x, env_) for x in call.args[:2]]
                        if a not in fs:
                            raise Raised('FileNotFoundError', a)
                        fs[b] = fs.pop(a)
                        return None
                    if d in ('which', 'shutil.which'):
                        return '/usr/bin/samtools' if have_samtools else None
                    if d == 'os.system':
                        cmd = ev.ev(call.args[0], env_).split()
                        if cmd[:2] == ['samtools', 'merge']:
                            paths = [c_ for c_ in cmd[2:] if c_.endswith('.bam')]
                            out = cmd[cmd.index('-o') + 1] if '-o' in cmd else paths[0]
                            merge(out, [p_ for p_ in paths if p_ != out])
                            return 0
                        return 0
                    if d == 'pysam.merge':
                        a = []
                        for x in call.args:
                            a.extend(list(ev.ev(x.value, env_)) if isinstance(x, ast.Starred) else [ev.ev(x, env_)])
                        paths = [x for x in a if isinstance(x, str) and not x.startswith('-')]
                        merge(paths[0], paths[1:])
                        return None
                    if d == 'pysam.index':
                        p_ = ev.ev(call.args[0], env_)
                        fs[p_ + '.bai'] = ('index', tuple(sorted(fs[p_].items())))
                        return None
                    if d in ('os.remove', 'os.unlink'):
                        p_ = ev.ev(call.args[0], env_)
                        if p_ not in fs:
                            raise Raised('FileNotFoundError', p_)
                        del fs[p_]
                        return None
                    if d in ('sys.stderr.write', 'print'):
                        return None
                    if d in ('uuid.uuid4', 'uuid4', 'uuid.uuid1'):
                        log.append('id')
                        return f'id{len(log)}'
                    return NotImplemented
                ins = [f'job{i}.bam' for i in range(k)]
                try:
                    run_function(g, [list(ins), 'out.bam'], env=env, call_hook=hook, budget=100000)
                except Raised as r_:
                    if r_.name in ('FileNotFoundError', 'AssertionError', 'IndexError', 'KeyError'):
                        return (False, n, {'input files': k, 'samtools available': have_samtools, 'problem': f'merge_bams raises {r_.name} ({str(r_)[:60]})'})
                    raise
                want = collections.Counter()
                for i in range(k):
                    want.update({f'r{i}a': 1, f'r{i}b': 1})
                got = fs.get('out.bam')
                problem = None
                if got != want:
                    missing = sorted((want - (got or collections.Counter())).keys())
                    twice = sorted(k_ for k_, v_ in (got or {}).items() if v_ > 1)
                    problem = f'the merged file lacks the records of {sorted({m_[:-1] for m_ in missing})} / holds {twice} twice' if got is not None else 'no output file'
                elif fs.get('out.bam.bai') != ('index', tuple(sorted(want.items()))):
                    problem = 'the output is not indexed after its last change'
                elif [p_ for p_ in ins if p_ in fs]:
                    problem = f'input files {[p_ for p_ in ins if p_ in fs]} are left behind'
                if problem:
                    return (False, n, {'input files': k, 'samtools available': have_samtools, 'problem': problem})
        return (True, n, None)
    except (Unfoldable, Raised):
        return None
    except Exception:
        return None



class _ModelBam:
    """stand-in for the input BAM inside the task-generation model: reads are (start, end) intervals per contig"""
    def __init__(self, reads):
        self.reads = reads

    def count(self, contig=None, start=None, stop=None):
        return sum(1 for (s_, e_) in self.reads.get(contig, ()) if (start is None or e_ > start) and (stop is None or s_ < stop))


def _task_generation_model(ctx, gt):
    """generate_tasks, run by the interpreter on a model plan: every planned region whose fetch window (or whole contig) holds a read becomes exactly one task with the
    planned coordinates - a region may only be left out when nothing can be fetched for it. The model BAM has a read that lies in the margin of a bin only (its site,
    found through a clipped start, is inside the bin): counting reads over the bin instead of the fetch window leaves that bin without a task."""
    from ..consteval import run_function, module_scope, Unfoldable, Raised
    reads = {'c1': [(100, 140)], 'c2': [(5, 30)], 'c3': [], 'c4': [(0, 20)]}
    plan = [[('c1', 0, 100, 0, 150), ('c1', 100, 200, 50, 250)], [('c2', None, None, None, None)], [('c3', 0, 50, 0, 50)], [('c1', 300, 400, 250, 450)],
            [('c4', 50, 100, 0, 150), ('c4', 0, 50, 0, 100)]]
    bam = _ModelBam(reads)

    def hook(ev, call, env):
        d = dotted(call.func) or ''
        if last_name(d) == 'AlignmentFile':
            return bam
        if isinstance(call.func, ast.Attribute) and isinstance(call.func.value, ast.Name) and env.get(call.func.value.id) is bam:
            a = [ev.ev(x, env) for x in call.args]
            kw = {k.arg: ev.ev(k.value, env) for k in call.keywords if k.arg}
            if call.func.attr == 'count':
                names = ['contig', 'start', 'stop']
                full = dict(zip(names, a))
                full.update({('stop' if k == 'end' else 'contig' if k == 'reference' else k): v for k, v in kw.items()})
                if set(full) - set(names):
                    raise Unfoldable('count arguments')
                return bam.count(**full)
            if call.func.attr in ('close', '__exit__'):
                return None
            raise Unfoldable(f'model BAM method {call.func.attr}')
        return NotImplemented
    try:
        env = dict(module_scope(ctx.ix, TAGGING))
        out = run_function(gt, ['in.bam', 'tmp', [list(j) for j in plan], {'it': 1}, {'extra': 2}, 7], env=env, call_hook=hook, budget=50000)
        out = [(tuple(h), [dict(d) for d in ts]) for h, ts in list(out)]
    except (Unfoldable, Raised, Exception) as e_:
        ctx.emit('C05-R7', False, TAGGING, gt, f'generate_tasks is outside the interpreted subset ({type(e_).__name__}: {str(e_)[:80]})', key='planned-regions-become-tasks', undecided=True)
        return
    planned = [r for j in plan for r in j]
    must = [r for r in planned if bam.count(r[0], r[3], r[4]) > 0]
    got = [(d.get('contig'), d.get('start'), d.get('end'), d.get('fetch_start'), d.get('fetch_end')) for h, ts in out for d in ts]
    bad = None
    if any(h != ('in.bam', 'tmp', 7) for h, ts in out):
        bad = {'task header': [h for h, ts in out if h != ('in.bam', 'tmp', 7)][0], 'expected': ('in.bam', 'tmp', 7)}
    elif [r for r in must if got.count(r) != 1]:
        r = [r for r in must if got.count(r) != 1][0]
        bad = {'planned region (contig, start, end, fetch_start, fetch_end)': r, 'reads in its fetch window': bam.count(r[0], r[3], r[4]), 'tasks made for it': got.count(r)}
    elif [g for g in got if g not in planned or got.count(g) > 1]:
        bad = {'task that was never planned / is made twice': [g for g in got if g not in planned or got.count(g) > 1][0]}
    elif any(d.get('it') != 1 or d.get('extra') != 2 for h, ts in out for d in ts):
        bad = {'task without the iterator / additional arguments': [d for h, ts in out for d in ts if d.get('it') != 1 or d.get('extra') != 2][0]}
    elif len({id(d) for h, ts in out for d in ts}) != len(got):
        bad = None     # aliasing is decided by the rule below
    ctx.counters['interpreted_cases'] = ctx.counters.get('interpreted_cases', 0) + len(planned)
    ctx.emit('C05-R7', bad is None, TAGGING, gt, f'model plan of {len(planned)} regions: every region with a read in its fetch window becomes exactly one task with the planned coordinates and arguments' if bad is None else
             f'generate_tasks on a model plan: {bad} - the molecules of that region are never processed', key='planned-regions-become-tasks', witness=bad,
             what='generate_tasks leaves out / duplicates a planned region')



@rule('C05', 'C05-R7', 'every per-job BAM is merged exactly once: a worker keeps its file iff any of its tasks wrote a molecule '
                       '(accumulated over all tasks), the parent appends every returned file once and merges header + all files')
def r7(ctx):
    g = ctx.fn(TAGGING, 'run_tagging_tasks')
    loops = [l for l in walk_no_nested(g) if isinstance(l, ast.For) and any(isinstance(c, ast.Call) and last_name(dotted(c.func) or '') == 'run_tagging_task' for c in walk_no_nested(l))]
    if len(loops) != 1:
        raise AnalysisError('run_tagging_tasks: task loop not found')
    # the return that hands the per-job file to the parent: (<file name>, meta) - the other return gives (None, meta)
    rets = [r for r in walk_no_nested(g) if isinstance(r, ast.Return) and isinstance(r.value, ast.Tuple) and isinstance(r.value.elts[0], ast.Name)]
    keep = None
    mod = ctx.ix.module(TAGGING)
    if rets:
        # the condition under which the job file is handed to the parent (if/else, or a guard that cleans up and returns None before)
        keep = reach_expr(g.body, rets[0])
        if isinstance(keep, ast.Constant):
            keep = None
    cnt = None
    if keep is not None and len(names_in(keep)) == 1:
        cnt = next(iter(names_in(keep)))
    upd = [s for s in walk_no_nested(loops[0]) if isinstance(s, (ast.Assign, ast.AugAssign)) and
           src(s.targets[0] if isinstance(s, ast.Assign) else s.target) == cnt]
    ok = cnt is not None and len(upd) >= 1 and all(isinstance(s, ast.AugAssign) and isinstance(s.op, ast.Add) for s in upd)
    okk = False
    if keep is not None and cnt:
        try:
            n, bad = check_pred(keep, lambda e: e['t'] > 0, symbols=['t'], constraint=lambda e: e['t'] >= 0, atom_name=lambda x: 't' if src(x) == cnt else None, extra_consts=(0, 1))
            okk = not bad
        except AnalysisError:
            okk = False
    ctx.emit('C05-R7', ok and okk, TAGGING, upd[0] if upd else g, f'worker keeps its BAM iff `{src(keep) if keep is not None else None}`; `{cnt}` is ' +
             ('accumulated with += over all tasks of the job' if ok else 'NOT accumulated over the tasks (overwritten): records of earlier tasks are deleted when the last task wrote nothing'),
             key='worker-keep-iff-any-task-wrote', what='run_tagging_tasks: per-job molecule counter is overwritten instead of accumulated')
    # the inner counter of run_tagging_task
    t = ctx.fn(TAGGING, 'run_tagging_task')
    inc = [s for s in walk_no_nested(t) if isinstance(s, ast.AugAssign) and src(s.target) == 'total_molecules_written']
    rd = [d for d in walk_no_nested(t) if isinstance(d, ast.Dict) and any(isinstance(k, ast.Constant) and k.value == 'total_molecules_written' for k in d.keys)]
    key_read = any(isinstance(c, ast.Call) and isinstance(c.func, ast.Attribute) and c.func.attr == 'get' and c.args and isinstance(c.args[0], ast.Constant)
                   and c.args[0].value == 'total_molecules_written' for c in walk_no_nested(g))
    ctx.emit('C05-R7', len(inc) == 1 and bool(rd) and key_read, TAGGING, t, 'task statistics key total_molecules_written is produced by the task and consumed by the worker', key='statistics-key', nontrivial=False)
    # parent
    f = ctx.fn(BTM, MP)
    loops = [l for l in walk_no_nested(f) if isinstance(l, ast.For) and src(l.iter) == 'job_generator']
    ok = False
    if len(loops) == 1 and isinstance(loops[0].target, ast.Tuple):
        bv = loops[0].target.elts[0].id
        cfg = CFG(loops[0].body, exceptions=False)
        ok = True
        for p, _ in cfg.paths():
            if cfg.nodes[p[-1][0]].info not in ('fall', 'continue', 'break'):
                continue
            apps = 0
            none_branch = False
            for nid, lab in p:
                nn = cfg.nodes[nid]
                if nn.kind == 'test' and src(nn.ast.test) == f'{bv} is not None' and lab == 'false':
                    none_branch = True
                for c in node_calls(nn):
                    if isinstance(c.func, ast.Attribute) and c.func.attr == 'append' and c.args and src(c.args[0]) == bv:
                        apps += 1
            if (apps != 1 and not none_branch) or (none_branch and apps != 0):
                ok = False
    ctx.emit('C05-R7', ok, BTM, loops[0] if loops else f, 'parent: every non-None worker result is appended to the merge list exactly once', key='parent-append-once')
    mg = [c for c in walk_no_nested(f) if isinstance(c, ast.Call) and last_name(dotted(c.func) or '') == 'merge_bams']
    # merge input: the header-only BAM written by this function plus the list every job BAM was appended to (as one expression or through a local)
    marg = mg[0].args[0] if len(mg) == 1 and mg[0].args else None
    via = set()       # the locals the merge input is read through: a list that is appended to contributes its appended elements
    for _hop in range(3):
        if isinstance(marg, ast.Call) and dotted(marg.func) in ('list', 'tuple', 'sorted') and len(marg.args) == 1:
            marg = marg.args[0]
        if isinstance(marg, ast.Name):
            via.add(marg.id)
            dd = [s_.value for s_ in walk_no_nested(f) if isinstance(s_, ast.Assign) and len(s_.targets) == 1 and src(s_.targets[0]) == marg.id]
            if not dd:
                break
            marg = dd[-1]
    applists = {c.func.value.id for l_ in loops for c in walk_no_nested(l_) if isinstance(c, ast.Call) and isinstance(c.func, ast.Attribute) and c.func.attr == 'append'
                and isinstance(c.func.value, ast.Name)}
    hdr = {src(c.args[0]) for c in walk_no_nested(f) if isinstance(c, ast.Call) and last_name(dotted(c.func) or '') == 'AlignmentFile' and len(c.args) >= 2
           and isinstance(c.args[1], ast.Constant) and 'w' in str(c.args[1].value)}
    # what else flows into the locals the merge input is read through: `xs = [hdr]; xs.extend(job_bams)` / `xs += job_bams`
    contrib = set(names_in(marg)) if marg is not None else set()
    for n_ in walk_no_nested(f):
        if isinstance(n_, ast.Call) and isinstance(n_.func, ast.Attribute) and n_.func.attr in ('extend', 'append', 'insert') and isinstance(n_.func.value, ast.Name) and n_.func.value.id in via:
            for a_ in n_.args:
                contrib |= names_in(a_)
        if isinstance(n_, ast.AugAssign) and isinstance(n_.target, ast.Name) and n_.target.id in via:
            contrib |= names_in(n_.value)
        if isinstance(n_, ast.Assign) and len(n_.targets) == 1 and isinstance(n_.targets[0], ast.Name) and n_.targets[0].id in via:
            contrib |= names_in(n_.value)
    ok = marg is not None and bool((contrib | via) & applists) and bool(contrib & hdr)
    ctx.emit('C05-R7', ok, BTM, mg[0] if mg else f, f'merge input = {src(marg) if marg is not None else None} (header BAM {sorted(hdr)} + every job BAM {sorted(applists)})', key='merge-input')
    # the iterator settings reach the workers complete: only the region / handle / callback keys may be removed from them.  A dictionary that is
    # rebuilt from a list of settings to keep must list every setting the caller can set.
    PRUNE_OK = {'start', 'end', 'contig', 'progress_callback_function', 'alignments'}
    modb = ctx.ix.module(BTM)
    set_keys = set()
    for n_ in ast.walk(modb.tree):
        if isinstance(n_, ast.Assign):
            for t_ in n_.targets:
                if isinstance(t_, ast.Subscript) and src(t_.value) == 'molecule_iterator_args' and isinstance(t_.slice, ast.Constant) and isinstance(t_.slice.value, str):
                    set_keys.add(t_.slice.value)
                if isinstance(t_, ast.Name) and t_.id == 'molecule_iterator_args' and isinstance(n_.value, ast.Dict):
                    set_keys |= {k_.value for k_ in n_.value.keys if isinstance(k_, ast.Constant) and isinstance(k_.value, str)}
        if isinstance(n_, ast.Call) and isinstance(n_.func, ast.Attribute) and n_.func.attr == 'update' and src(n_.func.value) == 'molecule_iterator_args' and n_.args and isinstance(n_.args[0], ast.Dict):
            set_keys |= {k_.value for k_ in n_.args[0].keys if isinstance(k_, ast.Constant) and isinstance(k_.value, str)}
    lost = []
    removed = set()
    for n_ in walk_no_nested(f):
        if isinstance(n_, ast.Assign) and any(isinstance(t_, ast.Name) and t_.id == 'molecule_iterator_args' for t_ in n_.targets) and isinstance(n_.value, ast.DictComp):
            g_ = n_.value.generators[0]
            for t_ in g_.ifs:
                if isinstance(t_, ast.Compare) and len(t_.ops) == 1 and isinstance(t_.ops[0], (ast.In, ast.NotIn)):
                    coll = t_.comparators[0]
                    if isinstance(coll, ast.Name):
                        dd = [s_.value for s_ in walk_no_nested(f) if isinstance(s_, ast.Assign) and len(s_.targets) == 1 and src(s_.targets[0]) == coll.id]
                        coll = dd[-1] if dd else coll
                    vals = {e_.value for e_ in coll.elts if isinstance(e_, ast.Constant)} if isinstance(coll, (ast.Tuple, ast.List, ast.Set)) else None
                    if vals is None:
                        lost.append((n_, 'a filter that is not a literal list of settings'))
                    elif isinstance(t_.ops[0], ast.In):
                        miss = sorted(set_keys - PRUNE_OK - vals)
                        if miss:
                            lost.append((n_, f'the keep-list omits {miss}'))
                    else:
                        removed |= vals
                else:
                    lost.append((n_, f'the filter `{src(t_)[:40]}`'))
        if isinstance(n_, ast.Delete):
            for t_ in n_.targets:
                if isinstance(t_, ast.Subscript) and src(t_.value) == 'molecule_iterator_args' and isinstance(t_.slice, ast.Constant):
                    removed.add(t_.slice.value)
        if isinstance(n_, ast.Call) and isinstance(n_.func, ast.Attribute) and n_.func.attr == 'pop' and src(n_.func.value) == 'molecule_iterator_args' and n_.args and isinstance(n_.args[0], ast.Constant):
            removed.add(n_.args[0].value)
    bad_removed = sorted(x for x in removed if isinstance(x, str) and x not in PRUNE_OK)
    okset = not lost and not bad_removed
    ctx.emit('C05-R7', okset, BTM, lost[0][0] if lost else f, f'iterator settings are forwarded to the workers complete ({len(set_keys)} settings can be set; only {sorted(removed & PRUNE_OK)} are removed)' if okset else
             (f'the iterator settings forwarded to the workers are rebuilt with {lost[0][1]}: those settings fall back to their defaults in every worker (e.g. rejected reads are dropped)' if lost else
              f'settings {bad_removed} are removed before the workers are started'), key='worker-settings-complete', what=f'{MP}: an iterator setting does not reach the workers')
    # task fields
    gt = ctx.fn(TAGGING, 'generate_tasks')
    d = [x for x in ast.walk(gt) if isinstance(x, ast.Dict)]      # also inside a nested generator function
    keys = {k.value for x in d for k in x.keys if isinstance(k, ast.Constant)}
    params = {a.arg for a in t.args.args}
    ok = {'contig', 'start', 'end', 'fetch_start', 'fetch_end'} <= keys and keys <= params
    ctx.emit('C05-R7', ok, TAGGING, gt, f'task dictionaries carry {sorted(keys)}; all are parameters of run_tagging_task', key='task-fields')
    _task_generation_model(ctx, gt)
    mm = _merge_model(ctx)
    if mm is not None:
        ctx.counters['interpreted_cases'] = ctx.counters.get('interpreted_cases', 0) + mm[1]
        ctx.emit('C05-R7', mm[0], BAMFUNC, ctx.fn(BAMFUNC, 'merge_bams'), f'merge_bams on a model file system, 1..12 indexed inputs with and without samtools ({mm[1]} cases): the output holds every record of every input once, '
                 'is indexed last, the inputs are removed' if mm[0] else f'merge_bams on a model file system: {mm[2]}', key='merge-keeps-every-input', witness=mm[2],
                 what='merge_bams loses / duplicates the records of an input file')
    # every task owns its dictionary: what is put into a job's task list is built inside the per-task iteration (a dictionary created once and
    # updated per task is the same object in every slot - all tasks of a job then describe the last region)
    aliased = []
    for l_ in [x for x in ast.walk(gt) if isinstance(x, ast.For)]:
        for c_ in walk_no_nested(l_):
            if isinstance(c_, ast.Call) and isinstance(c_.func, ast.Attribute) and c_.func.attr == 'append' and len(c_.args) == 1 and isinstance(c_.args[0], ast.Name):
                nm_ = c_.args[0].id
                built_here = [s_ for s_ in walk_no_nested(l_) if isinstance(s_, ast.Assign) and len(s_.targets) == 1 and src(s_.targets[0]) == nm_
                              and isinstance(s_.value, (ast.Dict, ast.DictComp, ast.Call))]
                built_outside = [s_ for s_ in ast.walk(gt) if isinstance(s_, ast.Assign) and len(s_.targets) == 1 and src(s_.targets[0]) == nm_ and isinstance(s_.value, (ast.Dict, ast.DictComp, ast.Call))
                                 and not any(x is s_ for x in walk_no_nested(l_))]
                inner = [x for x in walk_no_nested(l_) if isinstance(x, ast.For) and x is not l_ and any(y is c_ for y in walk_no_nested(x))]
                if built_outside and not built_here and not inner:
                    aliased.append((c_, nm_))
    ctx.emit('C05-R7', not aliased, TAGGING, aliased[0][0] if aliased else gt, 'every task gets a dictionary of its own' if not aliased else
             f'`{aliased[0][1]}` is created once outside the per-task loop and appended for every task: all tasks of a job share one dictionary (they all describe the last region; the earlier '
             'regions are never processed, the last one once per task)', key='task-dict-per-task', what='generate_tasks: the tasks of a job alias one dictionary')


@rule('C05', 'C05-R8', 'every record is written exactly once: a fragment joins at most one molecule (shared with C07-R6), so its reads are not emitted '
                       'with two molecules')
def r8(ctx):
    from . import C07
    from ..core import include
    # ... and a molecule leaves the buffers only by being finalised and yielded (C07-R1 / R3): dropped molecules are records never written
    include(ctx, C07, [C07.r6, C07.r1, C07.r3], 'C05-R8')


@rule('C05', 'C05-R9', 'mate numbers are a function of the slot only: the read in slot 0 of a fragment is flagged read 1 and the read in slot 1 is flagged '
                       'read 2 on every path (mates that reach the tagger alone keep / regain their number)')
def r9(ctx):
    f = ctx.fn(FRAGMENT, 'Fragment.__init__')
    loops = [l for l in walk_no_nested(f) if isinstance(l, ast.For) and isinstance(l.iter, ast.Call) and dotted(l.iter.func) == 'enumerate' and
             isinstance(l.target, ast.Tuple) and len(l.target.elts) == 2 and all(isinstance(e, ast.Name) for e in l.target.elts) and
             any(isinstance(a, ast.Assign) and src(a.targets[0]).endswith('.is_read1') for a in walk_no_nested(l))]
    if len(loops) != 1:
        raise AnalysisError('Fragment.__init__: loop that assigns the mate flags not found')
    l = loops[0]
    iv, rv = [e.id for e in l.target.elts]
    for slot, want in ((0, {'is_read1': 'True', 'is_read2': 'False'}), (1, {'is_read1': 'False', 'is_read2': 'True'})):
        rs = [r for r in explore(l.body, mk_atoms({f'{rv} is None': False}), env0={iv: slot}) if r['kind'] in ('fall', 'continue')]
        bad = []
        for r in rs:
            last = {}
            for t, v, k in r['stores']:
                if t in (f'{rv}.is_read1', f'{rv}.is_read2'):
                    # the stored expression is evaluated for the slot at hand (`mate_index == 0` is True for slot 0)
                    try:
                        val_ = eval3(ast.parse(v, mode='eval').body, {iv: slot})
                    except SyntaxError:
                        val_ = UNK
                    last[t.split('.')[-1]] = v if val_ is UNK else str(bool(val_))
            if last != want:
                bad.append(last)
        ctx.counters['paths_enumerated'] += len(rs)
        ctx.emit('C05-R9', bool(rs) and not bad, FRAGMENT, l, f'slot {slot}: every path through the loop body stores {want}' if rs and not bad else
                 f'slot {slot}: a path leaves the mate flags at {bad[0] if bad else None} (expected {want}): a mate returned alone is written without its mate number',
                 key=f'mate-flags:slot{slot}', what='Fragment.__init__: the mate flags are not forced from the slot index on every path')


@rule('C05', 'C05-R10', 'a whole-contig job has no window: in one-contig-per-process mode every job entry is (contig, None, None, None, None) - with coordinates '
                        'the region filter of the worker wakes up and drops molecules whose site lies before base 0 or at / behind the contig end (clipped or '
                        'site-shifted fragments at a contig border)')
def r10(ctx):
    from . import C08
    C08.whole_contig_task_unwindowed(ctx, 'C05-R10')
    f = ctx.fn(BTM, MP)
    branch = [s_ for s_ in walk_no_nested(f) if isinstance(s_, ast.If) and 'one_contig_per_process' in names_in(s_.test)]
    tuples = []
    for b in branch:
        body = b.body if not (isinstance(b.test, ast.UnaryOp) and isinstance(b.test.op, ast.Not)) else b.orelse
        for st in body:
            for t in ast.walk(st):
                if isinstance(t, ast.Tuple) and len(t.elts) == 5 and isinstance(t.ctx, ast.Load):
                    tuples.append(t)
    ctx.need('C05-R10', len(tuples), 2, 'job entries built in the one-contig-per-process branch')
    bad = [(t, k) for t in tuples for k, e in enumerate(t.elts[1:], 1) if not (isinstance(e, ast.Constant) and e.value is None)]
    for t, k in bad[:2]:
        ctx.emit('C05-R10', False, BTM, t, f'job entry `{src(t)}` carries `{src(t.elts[k])}` in field {k} (start / end / fetch window): the worker then filters molecules by site coordinate '
                 f'inside a job that is meant to take the whole contig', key='contig-job-has-no-window', what=f'{MP}: whole-contig job carries a fetch window')
    if not bad:
        ctx.emit('C05-R10', True, BTM, tuples[0], f'{len(tuples)} job entries of the one-contig-per-process branch carry no window', key='contig-job-has-no-window')


@rule('C05', 'C05-R11', '--no_rejects removes exactly the invalid fragments: where the Fragment constructor flags the READS as rejected (set_rejection_reason(.., set_qcfail=True), which '
                        'sets the qc-fail bit and RR tag on every mate) the FRAGMENT is marked failed on every path to the end of the constructor - otherwise the reads carry '
                        'the reject marks but the fragment stays valid and --no_rejects keeps it')
def r11(ctx):
    f = ctx.fn(FRAGMENT, 'Fragment.__init__')
    cfg = CFG(f.body, exceptions=False)
    marks = [c for c in walk_no_nested(f) if isinstance(c, ast.Call) and isinstance(c.func, ast.Attribute) and c.func.attr == 'set_rejection_reason'
             and any(k.arg == 'set_qcfail' and isinstance(k.value, ast.Constant) and k.value.value is True for k in c.keywords)]
    ctx.need('C05-R11', len(marks), 1, 'reject marks set on the reads by the Fragment constructor')

    def step(state, node, label):
        pending = state[0]
        for c in node_calls(node):
            if any(c is m for m in marks):
                pending = node.ast.lineno if hasattr(node.ast, 'lineno') else -1
        a = node.ast
        if node.kind == 'stmt' and isinstance(a, ast.Assign) and any(src(t) == 'self.qcfail' for t in a.targets) and isinstance(a.value, ast.Constant) and a.value.value is True:
            pending = None
        return (pending,)
    bad = None
    n = 0
    for pth, (pending,) in cfg.paths(state0=(None,), step=step, loop_visits=2, max_paths=200000):
        n += 1
        if cfg.nodes[pth[-1][0]].info in ('fall', 'return') and pending is not None:
            bad = (pending, cfg.fmt_path(pth)[-300:])
    ctx.counters['paths_enumerated'] += n
    ctx.need('C05-R11', n, 4, 'paths through the Fragment constructor')
    ctx.emit('C05-R11', bad is None, FRAGMENT, marks[0], f'{n} paths: every set_rejection_reason(.., set_qcfail=True) of the constructor is followed by self.qcfail = True' if bad is None else
             f'the reads are marked rejected at line {bad[0]} but the constructor ends without self.qcfail = True: the fragment stays valid (path ...{bad[1]})', key='reads-rejected-implies-fragment-invalid',
             what='Fragment.__init__: reads flagged qc-fail / RR while the fragment itself stays valid (kept by --no_rejects)')


def fragment_writes_all_reads(ctx, rid):
    """Fragment.write_pysam, run by the abstract interpreter on every occupancy of the two mate slots, hands every present read to the output handle exactly once, in slot order"""
    from ..consteval import run_function, Raised, Unfoldable, LocalFn
    f = ctx.fn(FRAGMENT, 'Fragment.write_pysam')
    meths = {m.name: m for m in ctx.ix.cls(FRAGMENT, 'Fragment').body if isinstance(m, ast.FunctionDef)}
    bad, n = None, 0
    try:
        for reads in (['r1', 'r2'], [None, 'r2'], ['r1', None], ['r1'], [None, None]):
            written = []

            def hook(ev, call, env, written=written):
                d = dotted(call.func) or ''
                if d == 'self.write_tags':
                    return None
                if isinstance(call.func, ast.Attribute) and call.func.attr == 'write' and not d.startswith('self.'):
                    written.append(ev.ev(call.args[0], env))
                    return None
                return NotImplemented
            env = {'self.reads': list(reads)}
            for mn_ in ('has_R1', 'has_R2', 'get_R1', 'get_R2', '__iter__', '__getitem__', '__len__'):
                if mn_ in meths:
                    env['self.' + mn_] = LocalFn(meths[mn_], env, bound='<self>')
            n += 1

            class Slots(list):
                """stands for the fragment object: iterating / indexing it goes through the mate slots, as Fragment.__iter__ / __getitem__ do (checked below)"""
                def __len__(self):
                    return sum(1 for r in list.__iter__(self) if r is not None)
            if '__iter__' in meths and list(run_function(meths['__iter__'], ['<self>'], env=env, budget=2000)) != list(reads):
                raise Unfoldable('Fragment.__iter__ does not iterate the mate slots')
            run_function(f, [Slots(reads), '<handle>'], env=env, call_hook=hook, budget=20000)
            want = [r for r in reads if r is not None]
            if written != want and bad is None:
                bad = {'mate slots': reads, 'written': list(written), 'expected': want}
    except (Unfoldable, Raised, Exception) as e_:
        ctx.emit(rid, False, FRAGMENT, f, f'Fragment.write_pysam is outside the interpreted subset ({type(e_).__name__}: {str(e_)[:80]})', key='fragment-writes-all-reads', undecided=True)
        return
    ctx.counters['interpreted_cases'] = ctx.counters.get('interpreted_cases', 0) + n
    ctx.emit(rid, bad is None, FRAGMENT, f, f'Fragment.write_pysam on {n} slot occupancies: every present read is written once' if bad is None else
             f'Fragment.write_pysam does not write every read of the fragment: {bad} (a mate that reached the tagger alone is silently left out of the output)', key='fragment-writes-all-reads', witness=bad,
             what='Fragment.write_pysam: a present read is not written')


@rule('C05', 'C05-R12', 'every read of every written fragment reaches the output: Fragment.write_pysam writes each present mate, whichever slots are occupied (orphan mates included)')
def r12(ctx):
    fragment_writes_all_reads(ctx, 'C05-R12')


META = {
    'text': ('Decides structural necessary conditions of record conservation: in contig-per-process mode every contig the enumerator yields '
             'is put into exactly one job on every path of the construction loop, the shared small-contig job is flushed whenever non-empty, '
             'the unmapped bin is in exactly one job, the enumerator yields every contig with mapped or unmapped records; the single-process '
             'pipeline chains the unmapped and the mapped iterator built from one argument dict and writes every molecule; rejected / overflow '
             'fragments are switched off only by --no_rejects / --no_overflow; the writer context closes, re-headers, sorts, indexes in order and '
             'propagates failures; read groups of every fragment are registered and equal the RG tag written; a worker keeps its BAM iff any task '
             'wrote (accumulated), every worker BAM is merged once. Does NOT decide multiset equality of records at runtime nor what the mate-pairing '
             'library drops.'),
    'technique': 'static analysis: exactly-once consumption along CFG paths of the job-list loop, comparison-predicate enumeration of guards, constant/guard tracking of option wiring, finalisation-order path check; small-scope abstract execution of the lifted job-list construction (contig enumerations with lengths at the thresholds of the code) where the structural reading cannot follow, and of Fragment.write_pysam on every slot occupancy, of Fragment.write_tags on every outcome of its tests (RG), and of generate_tasks on a model plan against a modelled BAM',
    'design_ref': 'DESIGN.md section 5, C05',
}


from . import shared as _shared
_shared.register('C05', 'C05')
