"""C04 - read-name encoding round-trips (agreement of the tables the two halves of the codec rely on)."""
import ast
import gzip
import itertools
import os
import re

from ..core import rule, Ctx
from ..index import AnalysisError, dotted, src, walk_no_nested, names_in
from ..consteval import Evaluator, Unfoldable, fold, TOP
from ..cfg import CFG
from ..util import pred_is, reach_conds, node_calls
from .slots import BASEDEMUX, TAGS, P, DEMUXMODS

MD = P + 'modularDemultiplexer/'
HUMAN_ALIASES = {'Fi': {'isFiltered', 'filterFlag'}, 'Is': {'instrument'}, 'RN': {'runNumber'}, 'Fc': {'flowCellId'}, 'La': {'lane'}, 'Ti': {'tile'},
                 'CX': {'clusterXpos'}, 'CY': {'clusterYpos'}, 'RP': {'readPairNumber'}, 'CN': {'controlNumber'}}
CANONICAL = ['instrument', 'runNumber', 'flowCellId', 'lane', 'tile', 'clusterXpos', 'clusterYpos', 'readPairNumber', 'isFiltered', 'controlNumber', 'indexSequence']


def tag_table(ctx):
    """tag -> dict(humanName, isPhred, doNotWrite) folded from tags.py"""
    m = ctx.ix.module(TAGS)
    out = {}
    for c in ast.walk(m.tree):
        if isinstance(c, ast.Call) and dotted(c.func) == 'SamTag' and len(c.args) >= 2 and all(isinstance(a, ast.Constant) for a in c.args[:2]):
            kw = {k.arg: k.value.value for k in c.keywords if isinstance(k.value, ast.Constant)}
            pos = [a.value for a in c.args if isinstance(a, ast.Constant)]
            out[pos[0]] = {'humanName': pos[1], 'isPhred': kw.get('isPhred', pos[2] if len(pos) > 2 else False), 'doNotWrite': kw.get('doNotWrite', pos[3] if len(pos) > 3 else False), 'node': c}
    return out


def module_consts(mod, ix=None, _depth=0):
    """fold module level assignments in order -> env; with `ix`, names imported from other modules of the package carry the constant they have there"""
    env = {}
    ev = Evaluator(env)
    for s in mod.tree.body:
        if ix is not None and _depth < 2 and isinstance(s, ast.ImportFrom) and s.module and s.level == 0 and s.module.startswith('singlecellmultiomics'):
            rel = s.module.replace('.', '/') + '.py'
            if not ix.exists(rel):
                continue
            try:
                other = module_consts(ix.module(rel), ix, _depth + 1)
            except Exception:
                continue
            for a in s.names:
                if a.name in other:
                    env[a.asname or a.name] = other[a.name]
            continue
        if isinstance(s, ast.Assign) and len(s.targets) == 1 and isinstance(s.targets[0], ast.Name):
            try:
                env[s.targets[0].id] = ev.ev(s.value)
            except Unfoldable:
                env[s.targets[0].id] = TOP
            except Exception:
                env[s.targets[0].id] = TOP
    return env


@rule('C04', 'C04-R1', 'quality encoding is total and saturating: every phred character 33..126 is mapped to a letter of the table the decoder '
                       'inverts (index clamped into the table, or a translation table covering all characters)')
def r1(ctx):
    f = ctx.fn(BASEDEMUX, 'phredToFastqHeaderSafeQualities')
    subs = [n for n in walk_no_nested(f) if isinstance(n, ast.Subscript) and src(n.value) == 'string.ascii_letters']
    trans = [c for c in walk_no_nested(f) if isinstance(c, ast.Call) and isinstance(c.func, ast.Attribute) and c.func.attr == 'translate' and c.args]
    if subs and not trans:
        from . import C01
        sub = Ctx(ctx.ix, 'C01', ctx.tier)
        C01.r3(sub)
        for o in sub.obligations:
            o.construct = o.construct.replace('C01-R3', 'C04-R1')
            o.rule = 'C04-R1'
            ctx.obligations.append(o)
        return
    if trans:
        env = module_consts(ctx.ix.module(BASEDEMUX))
        # the table may be a module constant or a local
        for s in f.body:
            if isinstance(s, ast.Assign) and isinstance(s.targets[0], ast.Name):
                env[s.targets[0].id] = fold(s.value, env)
        t = fold(trans[-1].args[0], env)
        if t is TOP or not isinstance(t, dict):
            ctx.emit('C04-R1', False, BASEDEMUX, trans[-1], f'translation table `{src(trans[-1].args[0])}` cannot be folded to a constant', key='encoder-total', undecided=True)
            return
        import string
        dom = set(t.keys())
        missing = [c for c in range(33, 127) if c not in dom]
        img_bad = [c for c in range(33, 127) if c in dom and not (isinstance(t[c], (int, str)) and (chr(t[c]) if isinstance(t[c], int) else t[c]) in string.ascii_letters)]
        ok = not missing and not img_bad
        ctx.emit('C04-R1', ok, BASEDEMUX, trans[-1], f'encoder translates with a constant table of {len(dom)} entries: ' +
                 ('all characters 33..126 are mapped to letters' if ok else f'{len(missing)} quality characters (first: {chr(missing[0])!r}) are outside the table and pass through unchanged -> not saturating, header-unsafe' if missing
                  else f'image outside the letter table for {chr(img_bad[0])!r}'), key='encoder-total', witness={'unmapped': [chr(c) for c in missing[:10]]} if missing else None,
                 what='phredToFastqHeaderSafeQualities: translation table does not cover every phred character (no saturation)')
        return
    # neither form: the encoder and the decoder are run on every phred character
    import string
    from ..consteval import module_scope, run_function, Unfoldable, Raised
    try:
        env = module_scope(ctx.ix, BASEDEMUX)
        q = ''.join(chr(c) for c in range(33, 127))
        enc = run_function(f, [q], env=env, budget=100000)
        want = ''.join(string.ascii_letters[min(max(0, ord(c) - 33), 51)] for c in q)
        dec = run_function(ctx.fn(BASEDEMUX, 'fastqHeaderSafeQualitiesToPhred'), [want], env=env, budget=100000)
        wdec = ''.join(chr(min(ord(c) - 33, 51) + 33) for c in q)
    except (Unfoldable, Raised, Exception) as e_:
        ctx.emit('C04-R1', False, BASEDEMUX, f, f'encoder is neither a clamped table lookup nor a constant translation table, and outside the interpreted subset ({type(e_).__name__}: {str(e_)[:60]})', key='encoder-total', undecided=True)
        return
    bad = None
    if enc != want:
        k = next(i for i in range(len(q)) if i >= len(enc) or enc[i] != want[i]) if isinstance(enc, str) else 0
        bad = {'phred character': q[k], 'encoded as': enc[k] if isinstance(enc, str) and k < len(enc) else None, 'expected': want[k]}
    elif dec != wdec:
        bad = {'decoded': dec, 'expected': wdec}
    ctx.counters['interpreted_cases'] = ctx.counters.get('interpreted_cases', 0) + len(q)
    ctx.emit('C04-R1', bad is None, BASEDEMUX, f, 'encoder and decoder interpreted on all 94 phred characters: letter table at min(max(0, ord - 33), 51), decoded back to the saturated character' if bad is None else
             f'quality codec on all 94 phred characters: {bad}', key='encoder-total', witness=bad, what='phredToFastqHeaderSafeQualities is not the total, saturating letter code')


@rule('C04', 'C04-R2', 'every tag the demultiplexer can write is defined (asFastq looks every key up in the tag table)')
def r2(ctx):
    tt = tag_table(ctx)
    ctx.need('C04-R2', len(tt), 80, 'tag definitions')
    written = {}
    files = [p for p in ctx.ix.pyfiles() if p.startswith(MD)]
    for rel in files:
        m = ctx.ix.module(rel)
        for n in ast.walk(m.tree):
            if isinstance(n, ast.Assign):
                for t in n.targets:
                    if isinstance(t, ast.Subscript) and isinstance(t.value, ast.Attribute) and t.value.attr == 'tags' and isinstance(t.slice, ast.Constant) and isinstance(t.slice.value, str):
                        written.setdefault(t.slice.value, []).append((rel, n))
            if isinstance(n, ast.Call) and isinstance(n.func, ast.Attribute):
                if n.func.attr == 'update' and isinstance(n.func.value, ast.Attribute) and n.func.value.attr == 'tags' and n.args and isinstance(n.args[0], ast.Dict):
                    for k in n.args[0].keys:
                        if isinstance(k, ast.Constant) and isinstance(k.value, str):
                            written.setdefault(k.value, []).append((rel, n))
                if n.func.attr == 'addTagByTag' and n.args and isinstance(n.args[0], ast.Constant):
                    written.setdefault(n.args[0].value, []).append((rel, n))
    ctx.need('C04-R2', len(written), 25, 'distinct constant tag keys written')
    undefined = {k: v for k, v in written.items() if k not in tt}
    for k, sites in sorted(undefined.items()):
        rel, n = sites[0]
        ctx.emit('C04-R2', False, rel, n, f'tag {k!r} is written but not defined in tags.py: asFastq raises KeyError for every record carrying it', key=f'undefined-tag:{k}', nontrivial=False)
    if not undefined:
        ctx.emit('C04-R2', True, TAGS, None, f'{len(written)} distinct tag keys written under modularDemultiplexer/ are all defined ({len(tt)} definitions)', key='tags-defined')
    ctx.written_tags = written


@rule('C04', 'C04-R3', 'phred-typed tags: a quality string is stored only through the encoder and only under a tag declared isPhred; a tag '
                       'declared isPhred never receives a raw value on the encode side; the decoder decodes exactly the isPhred tags')
def r3(ctx):
    tt = tag_table(ctx)
    P_ = {k for k, v in tt.items() if v['isPhred']}
    files = [p for p in ctx.ix.pyfiles() if p.startswith(MD)]
    problems = []
    n_sites = 0
    for rel in files:
        m = ctx.ix.module(rel)
        for q, ds in m.defs.items():
            for f in ds:
                if not isinstance(f, ast.FunctionDef):
                    continue
                if q in ('TaggedRecord.fromTaggedBamRecord', 'TaggedRecord.fromTaggedFastq', 'TaggedRecord.tagPysamRead', 'TaggedRecord.addTagByTag'):
                    continue
                tainted = set()
                for s in sorted([x for x in walk_no_nested(f) if isinstance(x, ast.Assign)], key=lambda s: s.lineno):
                    vs = src(s.value)
                    is_q = ('.qual' in vs or 'qualities' in vs) and 'phredToFastqHeaderSafeQualities' not in vs
                    if is_q or (names_in(s.value) & tainted and 'phredToFastqHeaderSafeQualities' not in vs):
                        for t in s.targets:
                            if isinstance(t, ast.Name):
                                tainted.add(t.id)
                            elif isinstance(t, ast.Tuple):
                                pass
                for c in walk_no_nested(f):
                    if isinstance(c, ast.Call) and isinstance(c.func, ast.Attribute) and c.func.attr == 'addTagByTag' and len(c.args) >= 2 and isinstance(c.args[0], ast.Constant):
                        key = c.args[0].value
                        kw = {k.arg: k.value for k in c.keywords}
                        isph = kw.get('isPhred')
                        val = c.args[1]
                        val_q = bool(names_in(val) & tainted) or '.qual' in src(val)
                        n_sites += 1
                        explicit = isph.value if isinstance(isph, ast.Constant) else None
                        effective = explicit if explicit is not None else (key in P_)
                        if val_q and not effective:
                            problems.append((rel, c, f'{q}: quality string `{src(val)}` stored RAW under {key!r} (isPhred={explicit}, table: {key in P_}): the decoder will not restore it / header-unsafe characters'))
                        if effective and key not in P_:
                            problems.append((rel, c, f'{q}: {key!r} is written through the quality encoder but is not declared isPhred in tags.py: the tagger will not decode it'))
                        if key in P_ and explicit is False:
                            problems.append((rel, c, f'{q}: {key!r} is declared isPhred but written with isPhred=False'))
                    if isinstance(c, ast.Call) and isinstance(c.func, ast.Attribute) and c.func.attr == 'update' and isinstance(c.func.value, ast.Attribute) and c.func.value.attr == 'tags' \
                            and c.args and isinstance(c.args[0], ast.Dict):
                        for k, v in zip(c.args[0].keys, c.args[0].values):
                            if isinstance(k, ast.Constant):
                                n_sites += 1
                                enc = 'phredToFastqHeaderSafeQualities' in src(v)
                                vq = bool(names_in(v) & tainted) or '.qual' in src(v)
                                if enc and k.value not in P_:
                                    problems.append((rel, c, f'{q}: encoded qualities stored under {k.value!r}, which is not declared isPhred'))
                                if vq and not enc:
                                    problems.append((rel, c, f'{q}: raw quality string `{src(v)}` stored under {k.value!r}'))
                                if k.value in P_ and not enc:
                                    problems.append((rel, c, f'{q}: {k.value!r} is declared isPhred but receives `{src(v)}` without the encoder'))
                for s in walk_no_nested(f):
                    if isinstance(s, ast.Assign):
                        for t in s.targets:
                            if isinstance(t, ast.Subscript) and isinstance(t.value, ast.Attribute) and t.value.attr == 'tags' and isinstance(t.slice, ast.Constant):
                                n_sites += 1
                                enc = 'phredToFastqHeaderSafeQualities' in src(s.value)
                                vq = bool(names_in(s.value) & tainted) or '.qual' in src(s.value)
                                if (vq and not enc) or (enc and t.slice.value not in P_) or (t.slice.value in P_ and not enc and not isinstance(s.value, ast.Subscript)):
                                    problems.append((rel, s, f'{q}: direct store tags[{t.slice.value!r}] = {src(s.value)[:50]} violates the phred-tag discipline'))
    ctx.need('C04-R3', n_sites, 40, 'tag store sites')
    for rel, n, msg in problems:
        ctx.emit('C04-R3', False, rel, n, msg, key='phred-discipline:' + msg.split(':')[0] + ':' + str(getattr(n, 'lineno', 0) and src(n)[:30]), what=msg)
    if not problems:
        ctx.emit('C04-R3', True, BASEDEMUX, None, f'{n_sites} constant-key tag stores: qualities only through the encoder and only under isPhred tags {sorted(P_ & set(getattr(ctx, "written_tags", P_)))}', key='phred-discipline')
    # decoder
    f = ctx.fn(BASEDEMUX, 'TaggedRecord.tagPysamRead')
    loops = [l for l in f.body if isinstance(l, ast.For) and src(l.iter) == 'self.tags.items()']
    ok = False
    if loops:
        ifs = [s for s in loops[-1].body if isinstance(s, ast.If)]
        kv = loops[-1].target.elts[0].id if isinstance(loops[-1].target, ast.Tuple) and isinstance(loops[-1].target.elts[0], ast.Name) else 'tag'
        ok = any(f'self.tagDefinitions[{kv}].isPhred' in src(s.test) and 'fastqHeaderSafeQualitiesToPhred' in src(s) for s in ifs) and \
            any(isinstance(c, ast.Call) and src(c.func) == 'read.set_tag' and c.args and src(c.args[0]) == kv for c in walk_no_nested(loops[-1]))
    ctx.emit('C04-R3', ok, BASEDEMUX, loops[-1] if loops else f, 'tagPysamRead decodes exactly the tags whose definition says isPhred and writes every tag to the read', key='decoder-uses-table')
    g = ctx.fn(BASEDEMUX, 'TaggedRecord.addTagByTag')
    ok = any(isinstance(s, ast.If) and src(s.test) == 'isPhred is None' and 'self.tagDefinitions[tagName].isPhred' in src(s) for s in g.body)
    ctx.emit('C04-R3', ok, BASEDEMUX, g, 'addTagByTag defaults isPhred to the tag table', key='addTagByTag-default', nontrivial=False)


def regex_kept_chars(pattern):
    """characters NOT removed by re.sub(pattern, '') for a pattern of the form [^...] ; None if not of that form"""
    try:
        import re._parser as sre
    except ImportError:
        import sre_parse as sre
    p = sre.parse(pattern)
    if len(p) != 1 or str(p[0][0]) != 'IN':
        return None
    items = p[0][1]
    if not items or str(items[0][0]) != 'NEGATE':
        return None
    keep = set()
    for op, av in items[1:]:
        if str(op) == 'LITERAL':
            keep.add(chr(av))
        elif str(op) == 'RANGE':
            keep.update(chr(c) for c in range(av[0], av[1] + 1))
        else:
            return None
    return keep


@rule('C04', 'C04-R4', 'every value written raw into the read name lies in the alphabet the decoder leaves unchanged and contains neither ":" '
                       'nor ";": strategy short names, barcode / index whitelist columns, bases')
def r4(ctx):
    env = module_consts(ctx.ix.module(BASEDEMUX))
    m = ctx.ix.module(BASEDEMUX)
    rx = [s for s in m.tree.body if isinstance(s, ast.Assign) and src(s.targets[0]) == 'fastqCleanerRegex']
    if not rx or not isinstance(rx[0].value, ast.Call) or not isinstance(rx[0].value.args[0], ast.Constant):
        raise AnalysisError('fastqCleanerRegex not found')
    keep = regex_kept_chars(rx[0].value.args[0].value)
    if keep is None:
        # any other spelling of the cleaner (`[^\\w-]`, flags): the kept alphabet is read off the constant pattern character by character over
        # printable ASCII (the pattern and its flags are literals of the module; nothing of the repository is executed)
        import re as _re
        flags = 0
        okflags = True
        for a_ in list(rx[0].value.args[1:]) + [k.value for k in rx[0].value.keywords if k.arg == 'flags']:
            for part in (a_.values if isinstance(a_, ast.BoolOp) else [a_]):
                names_ = []

                def _collect(x):
                    if isinstance(x, ast.BinOp) and isinstance(x.op, ast.BitOr):
                        _collect(x.left), _collect(x.right)
                    else:
                        names_.append(x)
                _collect(part)
                for x in names_:
                    fl = getattr(_re, src(x).split('.')[-1], None) if src(x).startswith('re.') else None
                    if fl is None:
                        okflags = False
                    else:
                        flags |= int(fl)
        try:
            cre = _re.compile(rx[0].value.args[0].value, flags) if okflags else None
        except _re.error:
            cre = None
        if cre is not None:
            keep = {chr(c) for c in range(32, 127) if cre.sub('', chr(c)) == chr(c)}
    if keep is None:
        ctx.emit('C04-R4', False, BASEDEMUX, rx[0], 'fastqCleanerRegex is not a negated character class', key='decoder-alphabet', undecided=True)
        return
    ok = ':' not in keep and ';' not in keep and {'A', 'C', 'G', 'T', 'N'} <= keep and set('0123456789') <= keep
    ctx.emit('C04-R4', ok, BASEDEMUX, rx[0], f'decoder-stable alphabet has {len(keep)} characters, excludes ":" and ";", contains bases and digits', key='decoder-alphabet')
    # the decoder sanitises with exactly this regex
    dec = ctx.fn(BASEDEMUX, 'TaggedRecord.fromTaggedBamRecord')
    ok = all(any(k.arg == 'isPhred' and src(k.value) == 'False' for k in c.keywords) for c in walk_no_nested(dec) if isinstance(c, ast.Call) and isinstance(c.func, ast.Attribute) and c.func.attr == 'addTagByTag')
    ctx.emit('C04-R4', ok, BASEDEMUX, dec, 'decoder stores every field as text (isPhred=False) through fqSafe; phred tags are decoded later by the table', key='decoder-text-fields', nontrivial=False)
    # short names
    bad = []
    n = 0
    for rel in [p for p in ctx.ix.pyfiles() if p.startswith(MD)]:
        mm = ctx.ix.module(rel)
        for s in ast.walk(mm.tree):
            if isinstance(s, ast.Assign) and any(isinstance(t, ast.Attribute) and t.attr == 'shortName' for t in s.targets) and isinstance(s.value, ast.Constant) and isinstance(s.value.value, str):
                if mm.enclosing_qualname(s).startswith('DemultiplexingStrategy.'):
                    continue    # placeholder of the abstract base class, never registered
                n += 1
                if set(s.value.value) - keep:
                    bad.append((rel, s, s.value.value))
    ctx.need('C04-R4', n, 25, 'strategy short names')
    for rel, s, v in bad:
        ctx.emit('C04-R4', False, rel, s, f'short name {v!r} (written raw as MX) contains {sorted(set(v) - keep)} which the decoder strips', key=f'shortname:{v}')
    if not bad:
        ctx.emit('C04-R4', True, BASEDEMUX, None, f'{n} strategy short names lie inside the decoder-stable alphabet', key='shortnames')
    # whitelist columns (static data files)
    root = ctx.ix.root
    cols_bad = []
    n_files = 0
    for sub in ('barcodes', 'indices'):
        d = os.path.join(root, MD, sub)
        if not os.path.isdir(d):
            continue
        for fn in sorted(os.listdir(d)):
            p = os.path.join(d, fn)
            try:
                data = ctx.ix.read(os.path.join(MD, sub, fn), binary=True)
                if fn.endswith('.gz'):
                    data = gzip.decompress(data) if data else b''
                text = data.decode('utf-8', errors='replace')
            except Exception:
                continue
            n_files += 1
            for line in text.splitlines():
                for col in line.strip().split():
                    extra = set(col) - keep
                    if extra:
                        cols_bad.append((sub + '/' + fn, col, sorted(extra)))
                        break
    ctx.need('C04-R4', n_files, 10, 'barcode / index whitelist files')
    uniq = {}
    for fn, col, extra in cols_bad:
        uniq.setdefault((fn, tuple(extra)), col)
    for (fn, extra), col in sorted(uniq.items()):
        ctx.emit('C04-R4', False, MD + fn, None, f'whitelist value {col!r} contains {list(extra)} which the decoder strips (raw / corrected index or barcode is not recovered unchanged)', key=f'whitelist:{fn}:{"".join(extra)}',
                 what=f'{fn}: whitelist values contain characters outside the header-safe alphabet')
    if not uniq:
        ctx.emit('C04-R4', True, MD, None, f'all columns of {n_files} shipped barcode / index files lie inside the decoder-stable alphabet', key='whitelists')


@rule('C04', 'C04-R5', 'field agreement: all header parsers bind the Illumina fields in the same (canonical) order and set every key the '
                       're-assembled read name uses; the molecular identifier is BC + RX + corrected index; the sample is library_cellindex')
def r5(ctx):
    tt = tag_table(ctx)
    if _r5_headers_by_tokens(ctx):
        _r5_identifier(ctx)
        return
    f = ctx.fn(BASEDEMUX, 'TaggedRecord.asIlluminaHeader')
    fmt = [c for c in walk_no_nested(f) if isinstance(c, ast.Constant) and isinstance(c.value, str) and '{' in c.value]
    keys = re.findall(r'\{(\w+)\}', fmt[0].value) if fmt else []
    ok = keys == ['Is', 'RN', 'Fc', 'La', 'Ti', 'CX', 'CY']
    ctx.emit('C04-R5', ok, BASEDEMUX, f, f'read name is re-assembled as {":".join(keys)}', key='illumina-header-format')
    for parser in ('TaggedRecord._parse_illumina_header', 'TaggedRecord.parse_3dec_header'):
        g = ctx.fn(BASEDEMUX, parser)
        ups = [c for c in walk_no_nested(g) if isinstance(c, ast.Call) and isinstance(c.func, ast.Attribute) and c.func.attr == 'update' and src(c.func.value) == 'self.tags' and c.args and isinstance(c.args[0], ast.Dict)]
        if not ups:
            ctx.emit('C04-R5', False, BASEDEMUX, g, f'{parser}: no tags.update({{...}}) found', key=f'{parser}:sets-keys')
            continue
        ups.sort(key=lambda c: -len(c.args[0].keys))
        d = ups[0].args[0]
        mapping = {k.value: src(v) for k, v in zip(d.keys, d.values) if isinstance(k, ast.Constant)}
        missing = [k for k in keys if k not in mapping]
        wrong = [k for k, v in mapping.items() if k in HUMAN_ALIASES and v not in HUMAN_ALIASES[k] | {tt.get(k, {}).get('humanName')}]
        ctx.emit('C04-R5', not missing and not wrong, BASEDEMUX, ups[0], f'{parser.split(".")[-1]} sets {sorted(mapping)}' + (f'; missing {missing}' if missing else '') + (f'; mis-wired {[(k, mapping[k]) for k in wrong]}' if wrong else
                 ': every key of the read name is set from the like-named field'), key=f'{parser}:sets-keys')
        # unpacking order
        for s in walk_no_nested(g):
            if isinstance(s, ast.Assign) and isinstance(s.targets[0], ast.Tuple) and len(s.targets[0].elts) >= 5 and all(isinstance(e, ast.Name) for e in s.targets[0].elts):
                names = [e.id for e in s.targets[0].elts]
                known = [n for n in names if n in CANONICAL]
                if len(known) < 5:
                    continue
                ok = known == [c for c in CANONICAL if c in known] and names[:len(known)] == CANONICAL[:len(known)] if names[0] == 'instrument' else known == [c for c in CANONICAL if c in known]
                ctx.emit('C04-R5', ok, BASEDEMUX, s, f'{parser.split(".")[-1]}: {len(names)}-field header variant binds {names[:7]}... ' + ('in canonical order' if ok else
                         f'NOT in the canonical order {CANONICAL[:len(names)]}: fields are swapped for this header variant'), key=f'{parser}:unpack-order:{len(names)}',
                         what=f'{parser}: a header variant binds the Illumina fields in a different order')
    _r5_identifier(ctx)


def _r5_headers_by_tokens(ctx):
    """The header parsers and the read-name assembler only move the fields of the header around: they are evaluated on headers whose fields are the
    tokens f0..f10 (one header per layout the parser accepts) and the resulting tag table is compared with the canonical assignment; the assembler
    is evaluated on a tag table of tokens.  False when a construct is outside the interpreted subset (the structural reading is used then)."""
    from ..consteval import run_function, Raised
    mod = ctx.ix.module(BASEDEMUX)
    mc = {k: v for k, v in module_consts(mod, ctx.ix).items() if v is not TOP}
    canon = ['Is', 'RN', 'Fc', 'La', 'Ti', 'CX', 'CY', 'RP', 'Fi', 'CN']
    out = []
    try:
        h = ctx.fn(BASEDEMUX, 'TaggedRecord.asIlluminaHeader')
        env = dict(mc)
        env['self.tags'] = {k: f'<{k}>' for k in canon + ['aa', 'aA', 'aI', 'LY', 'bi', 'BC', 'RX']}
        name = run_function(h, ['<self>'], env=env)
        out.append(('illumina-header-format', name == ':'.join(f'<{k}>' for k in canon[:7]), h, f'read name is re-assembled as {name}', None))
        g = ctx.fn(BASEDEMUX, 'TaggedRecord._parse_illumina_header')
        layouts = {11: 'f0:f1:f2:f3:f4:f5:f6 f7:f8:f9:f10', 10: 'f0:f1:f2:f3:f4:f5:f6 f7:f8:f9', 7: 'f0:f1:f2:f3:f4:f5:f6'}
        for nf, hdr in layouts.items():
            env = dict(mc)
            env['self.tags'] = {}
            try:
                run_function(g, ['<self>', hdr, None, None], env=env)
            except Raised as r_:
                out.append((f'TaggedRecord._parse_illumina_header:unpack-order:{nf}', nf != 11, g, f'_parse_illumina_header refuses the {nf}-field header layout ({r_.name})', None))
                continue
            tags = env['self.tags']
            want = {k: f'f{i}' for i, k in enumerate(canon[:min(nf, 10)])}
            if nf == 11:
                want['aa'] = 'f10'
            wrong = {k: (tags.get(k), v) for k, v in want.items() if tags.get(k) != v}
            out.append((f'TaggedRecord._parse_illumina_header:unpack-order:{nf}', not wrong, g, f'_parse_illumina_header, {nf}-field header: ' + ('every key holds the like-positioned field' if not wrong else
                        f'key -> (stored, expected field) {wrong}: fields are swapped / missing for this header variant'), wrong or None))
        p3 = ctx.fn(BASEDEMUX, 'TaggedRecord.parse_3dec_header')
        rec = p3.args.args[1].arg
        env = dict(mc)
        env['self.tags'] = {}
        env[f'{rec}.header'] = 'Cluster_s_f3_f4_f7'
        run_function(p3, ['<self>', '<record>', None, None], env=env)
        tags = env['self.tags']
        want = {'La': 'f3', 'Ti': 'f4', 'RP': 'f7'}
        wrong = {k: (tags.get(k), v) for k, v in want.items() if tags.get(k) != v}
        missing = [k for k in canon[:7] if k not in tags]
        out.append(('TaggedRecord.parse_3dec_header:sets-keys', not wrong and not missing, p3, 'parse_3dec_header: lane, tile and read number from the like-positioned fields, every key of the read name set' if not wrong and not missing
                    else f'parse_3dec_header: wrong {wrong}, missing {missing}', wrong or None))
    except Unfoldable:
        return False
    except Raised:
        return False
    except Exception:
        return False
    for key, ok, node, text, wit in out:
        ctx.emit('C04-R5', ok, BASEDEMUX, node, text, key=key, witness=wit, what='header parser / read-name assembler disagree on the Illumina fields')
    return True


def _identifier_by_interpretation(ctx):
    """tagPysamRead is evaluated on every presence pattern of the identifying tags (BC, RX, aA and their quality tags): with a corrected index the
    molecular identifier handed to the record is BC + RX + aA (absent optional parts left out, nothing after them dropped), without one the record is bulk (no
    identifier).  None when the method is outside the interpreted subset."""
    import itertools
    from ..consteval import run_function, Raised
    t = ctx.fn(BASEDEMUX, 'TaggedRecord.tagPysamRead')
    mod = ctx.ix.module(BASEDEMUX)
    mc = {k: v for k, v in module_consts(mod, ctx.ix).items() if v is not TOP}
    vals = {'BC': 'ACGT', 'RX': 'TTG', 'aA': 'GGCC', 'QT': 'eeee', 'RQ': 'aaa', 'aa': 'GGCA'}
    n = 0
    from ..consteval import LocalFn
    cdef = ctx.ix.cls(BASEDEMUX, 'TaggedRecord')
    class_consts = {}
    for st_ in cdef.body:
        if isinstance(st_, ast.Assign) and len(st_.targets) == 1 and isinstance(st_.targets[0], ast.Name):
            v_ = fold(st_.value, dict(mc))
            if v_ is not TOP:
                class_consts['self.' + st_.targets[0].id] = v_
    # private helpers of the record (the identifier assembly may live in one)
    helpers = {m_.name: m_ for m_ in cdef.body if isinstance(m_, ast.FunctionDef) and m_.name.startswith('_') and not m_.name.startswith('__') and m_.name not in ('_parse_illumina_header',)}
    try:
        for present in itertools.product((False, True), repeat=len(vals)):
            tags = {k: v for (k, v), p_ in zip(vals.items(), present) if p_}
            tags['LY'] = 'lib'
            env = dict(mc)
            env.update(class_consts)
            for mn_, md_ in helpers.items():
                env.setdefault('self.' + mn_, LocalFn(md_, env, bound='<self>'))
            env['self.tags'] = dict(tags)
            env['self.tagDefinitions'] = {}
            rd = {}

            def hook(ev, call, env_, rd=rd):
                d = dotted(call.func) or ''
                a = [ev.ev(x, env_) for x in call.args]
                if d == 'self.has_tag':
                    return a[0] in env_['self.tags']
                if d == 'self.addTagByTag':
                    env_['self.tags'][a[0]] = a[1] if isinstance(a[1], str) else str(a[1])
                    return None
                if d.endswith('hamming_distance'):
                    return sum(1 for x, y in zip(a[0], a[1]) if x != y)
                if d.endswith('.set_tag'):
                    rd[a[0]] = a[1]
                    return None
                if d.endswith('.has_tag'):
                    return a[0] in rd
                if d.endswith('.get_tag'):
                    return rd[a[0]]
                return NotImplemented
            out = {}
            try:
                run_function(t, ['<self>', '<read>'], env=env, call_hook=hook, out_scope=out, is_subclass=ctx.ix.is_subclass_name)
            except Raised as r_:
                if r_.name == 'ValueError':
                    continue        # QM / MI length check: loud
                return None
            n += 1
            got = rd.get('MI')
            want = ''.join(tags[k] for k in ('BC', 'RX', 'aA') if k in tags) if 'aA' in tags else None
            if got != want:
                return (False, n, {'tags of the record': tags, 'MI written': got, 'MI expected (BC + RX + corrected index)': want})
    except Unfoldable:
        return None
    except Exception:
        return None
    return (True, n, None)


def _sample_by_interpretation(ctx):
    """tagPysamRead evaluated on records with a cell index under `bi`, under the legacy key `BI`, with both, with none, with and without a library: the sample handed to
    the alignment is LY_<cell index> whenever a cell index is present (whatever else the record carries), LY_BULK without one, and no sample without a library.
    (ok, cases, witness) or None outside the interpreted subset."""
    from ..consteval import run_function, Raised, LocalFn
    t = ctx.fn(BASEDEMUX, 'TaggedRecord.tagPysamRead')
    mod = ctx.ix.module(BASEDEMUX)
    mc = {k: v for k, v in module_consts(mod, ctx.ix).items() if v is not TOP}
    cdef = ctx.ix.cls(BASEDEMUX, 'TaggedRecord')
    helpers = {m_.name: m_ for m_ in cdef.body if isinstance(m_, ast.FunctionDef) and m_.name.startswith('_') and not m_.name.startswith('__') and m_.name not in ('_parse_illumina_header',)}
    n = 0
    try:
        for bi, BI, ly, extra in itertools.product((None, '12'), (None, '7'), (None, 'libA'), ({}, {'BC': 'ACGT', 'RX': 'TTG', 'aA': 'GGCC', 'aa': 'GGCA'}, {'BC': 'ACGT'})):
            if ly is None and (bi or BI):
                continue           # a record with a cell index always has its library (set by the constructor)
            tags = dict(extra)
            if ly:
                tags['LY'] = ly
            if bi:
                tags['bi'] = bi
            if BI:
                tags['BI'] = BI
            env = dict(mc)
            for mn_, md_ in helpers.items():
                env.setdefault('self.' + mn_, LocalFn(md_, env, bound='<self>'))
            env['self.tags'] = dict(tags)
            env['self.tagDefinitions'] = {}
            rd = {}

            def hook(ev, call, env_, rd=rd):
                d = dotted(call.func) or ''
                a = [ev.ev(x, env_) for x in call.args]
                if d == 'self.has_tag':
                    return a[0] in env_['self.tags']
                if d == 'self.addTagByTag':
                    env_['self.tags'][a[0]] = a[1] if isinstance(a[1], str) else str(a[1])
                    return None
                if d.endswith('hamming_distance'):
                    return sum(1 for x, y in zip(a[0], a[1]) if x != y)
                if d.endswith('.set_tag'):
                    rd[a[0]] = a[1]
                    return None
                if d.endswith('.has_tag'):
                    return a[0] in rd
                if d.endswith('.get_tag'):
                    return rd[a[0]]
                return NotImplemented
            try:
                run_function(t, ['<self>', '<read>'], env=env, call_hook=hook, is_subclass=ctx.ix.is_subclass_name)
            except Raised as r_:
                if r_.name == 'ValueError':
                    continue
                return None
            n += 1
            cell = bi if bi is not None else BI
            want = f'{ly}_{cell}' if cell is not None else (f'{ly}_BULK' if ly else None)
            if rd.get('SM') != want:
                return (False, n, {'tags of the record': tags, 'SM written': rd.get('SM'), 'SM expected': want})
            # what the read name says replaces what an earlier tool left on the alignment under the same key
            stale = {k_: 'STALE' for k_ in ('BC', 'RX', 'LY') if k_ in tags}
            if stale:
                rd2 = dict(stale)
                env2 = dict(mc)
                for mn_, md_ in helpers.items():
                    env2.setdefault('self.' + mn_, LocalFn(md_, env2, bound='<self>'))
                env2['self.tags'] = dict(tags)
                env2['self.tagDefinitions'] = {}
                try:
                    run_function(t, ['<self>', '<read>'], env=env2, call_hook=lambda ev, call, env_, rd=rd2: hook(ev, call, env_, rd), is_subclass=ctx.ix.is_subclass_name)
                except Raised:
                    continue
                kept = {k_: rd2.get(k_) for k_ in stale if rd2.get(k_) != tags[k_]}
                if kept:
                    return (False, n, {'tags of the record': tags, 'tags already on the alignment': stale, 'on the alignment afterwards': kept, 'expected': {k_: tags[k_] for k_ in kept}})
    except Exception:
        return None
    return (True, n, None)



def _r5_identifier(ctx):
    t = ctx.fn(BASEDEMUX, 'TaggedRecord.tagPysamRead')
    res = _identifier_by_interpretation(ctx)
    if res is not None:
        ok, n, wit = res
        ctx.counters['interpreted_cases'] = ctx.counters.get('interpreted_cases', 0) + n
        ctx.emit('C04-R5', ok, BASEDEMUX, t, f'tagPysamRead evaluated on {n} presence patterns of BC / RX / aA / QT / RQ / aa: ' + ('the identifier is BC + RX + corrected index whenever the index is known, none otherwise'
                 if ok else f'{wit}'), key='MI-by-interpretation', witness=wit, what='tagPysamRead: the molecular identifier is not barcode + UMI + corrected index for some combination of present tags')
    if res is None:
        _r5_identifier_structural(ctx, t)
    sres = _sample_by_interpretation(ctx)
    if sres is not None:
        ctx.counters['interpreted_cases'] = ctx.counters.get('interpreted_cases', 0) + sres[1]
        ctx.emit('C04-R5', sres[0], BASEDEMUX, t, f'tagPysamRead evaluated on {sres[1]} records (cell index under bi / BI / both / none, with and without library and identifying tags): sample = LY_<cell index>, LY_BULK '
                 'without a cell index' if sres[0] else f'sample name: {sres[2]}', key='SM-format', witness=sres[2], what='tagPysamRead: the sample is not library_cellindex')
        return
    sm = [c for c in walk_no_nested(t) if isinstance(c, ast.Call) and isinstance(c.func, ast.Attribute) and c.func.attr == 'addTagByTag' and c.args and isinstance(c.args[0], ast.Constant) and c.args[0].value == 'SM']
    sm.sort(key=lambda c: c.lineno)
    first = sm[0] if sm else t
    ctx.emit('C04-R5', bool(sm) and "self.tags['LY']" in src(sm[0].args[1]).replace('"', "'") and "self.tags['bi']" in src(sm[0].args[1]).replace('"', "'") and '}_{' in src(sm[0].args[1]),
             BASEDEMUX, first, f'sample = {src(sm[0].args[1]) if sm else None}', key='SM-format')


def _r5_identifier_structural(ctx, t):
    lst = [s for s in t.body if isinstance(s, ast.Assign) and isinstance(s.value, ast.List) and all(isinstance(e, ast.Tuple) for e in s.value.elts) and s.value.elts]
    if not lst:
        ctx.emit('C04-R5', False, BASEDEMUX, t, 'tagPysamRead: the table of identifying tags was not found and the method is outside the interpreted subset', key='MI-components', undecided=True)
        return
    order = [e.elts[0].value for e in lst[0].value.elts if isinstance(e.elts[0], ast.Constant)] if lst else []
    req = [(e.elts[0].value, src(e.elts[2])) for e in lst[0].value.elts] if lst else []
    ok = order == ['BC', 'RX', 'aA']
    ctx.emit('C04-R5', ok, BASEDEMUX, lst[0] if lst else t, f'molecular identifier is assembled from {order}' + ('' if ok else ' (expected BC, RX, aA = corrected sequencing index)'), key='MI-components',
             what='tagPysamRead: molecular identifier is not BC + RX + corrected index (aA)')
    mi = [c for c in walk_no_nested(t) if isinstance(c, ast.Call) and isinstance(c.func, ast.Attribute) and c.func.attr == 'addTagByTag' and c.args and isinstance(c.args[0], ast.Constant) and c.args[0].value == 'MI']
    # the accumulator handed to addTagByTag('MI', ..) grows by the value of the current identifying tag (self.tags[tag], possibly through a local)
    miv = src(mi[0].args[1]) if mi else 'moleculeIdentifier'
    tdefs = {src(a_.targets[0]): src(a_.value) for a_ in walk_no_nested(t) if isinstance(a_, ast.Assign) and len(a_.targets) == 1 and isinstance(a_.targets[0], ast.Name)}
    loopv = {src(l_.target.elts[0]) for l_ in walk_no_nested(t) if isinstance(l_, ast.For) and isinstance(l_.target, ast.Tuple) and l_.target.elts}
    acc = [s for s in walk_no_nested(t) if isinstance(s, ast.AugAssign) and src(s.target) == miv and
           any(tdefs.get(src(s.value), src(s.value)).replace('"', "'") in (f'self.tags[{lv_}]', f'self.tags.get({lv_})') for lv_ in loopv)]
    ctx.emit('C04-R5', len(mi) == 1 and len(acc) == 1, BASEDEMUX, mi[0] if mi else t, 'MI is the concatenation of those tag values in order', key='MI-concatenation')


@rule('C04', 'C04-R6', 'a header too long to be stored is refused loudly: the length test dominates the return of asFastq and raises')
def r6(ctx):
    f = ctx.fn(BASEDEMUX, 'TaggedRecord.asFastq')
    cfg = CFG(f.body, exceptions=False)
    dom = cfg.dominators()
    # the header is the first value interpolated into the returned record (whatever the local is called)
    rets = [n for n in cfg.nodes if n.kind == 'stmt' and isinstance(n.ast, ast.Return) and n.ast.value is not None]
    hv = None
    for r in rets:
        fv = [x for x in ast.walk(r.ast.value) if isinstance(x, ast.FormattedValue)]
        fv.sort(key=lambda x: (x.lineno, x.col_offset))
        if fv and isinstance(fv[0].value, ast.Name):
            hv = fv[0].value.id
    tests = [n for n in cfg.nodes if n.kind == 'test' and hv is not None and f'len({hv})' in src(n.ast.test) and any(isinstance(x, ast.Raise) for x in n.ast.body)]
    rets = [n for n in rets if hv is not None and hv in names_in(n.ast)]
    ok = len(tests) == 1 and bool(rets) and all(tests[0].id in dom[r.id] for r in rets)
    lim = None
    if tests:
        t = tests[0].ast.test
        cs = sorted({x.value for x in ast.walk(t) if isinstance(x, ast.Constant) and isinstance(x.value, int) and not isinstance(x.value, bool)})
        for c_ in cs:
            if pred_is(t, lambda e, c_=c_: e['n'] > c_, {f'len({hv})': 'n'}, consts=[c_, c_ + 1, c_ - 1]):
                lim = c_
    ctx.emit('C04-R6', ok and lim is not None and lim <= 255, BASEDEMUX, tests[0].ast if tests else f, f'asFastq raises iff len(header) > {lim}: the test dominates every return of the record', key='length-guard')
    skip = [c for c in walk_no_nested(f) if isinstance(c, (ast.ListComp, ast.GeneratorExp)) and 'doNotWrite' in src(c)]
    ctx.emit('C04-R6', bool(skip), BASEDEMUX, skip[0] if skip else f, 'only tags marked doNotWrite are left out of the header', key='doNotWrite', nontrivial=False)


@rule('C04', 'C04-R7', 'what is encoded is what was read: the raw barcode tag carries the bases cut from the read and the corrected barcode tag the whitelist '
                       'entry (shared with C02-R8), and on decoding the sample name is LY_bi whenever a cell index is present')
def r7(ctx):
    from . import C02
    from ..core import include
    C02.provenance(ctx, 'C04-R7')
    # the qualities stored next to a base tag (RQ next to RX, ...) are cut with the slice of the bases: shared with C02-R1
    include(ctx, C02, [C02.r1], 'C04-R7')
    f = ctx.fn(BASEDEMUX, 'TaggedRecord.tagPysamRead')
    sres = _sample_by_interpretation(ctx)
    if sres is not None:
        ctx.emit('C04-R7', sres[0], BASEDEMUX, f, f'tagPysamRead: the sample is LY_<cell index> in all {sres[1]} evaluated records that carry a cell index, whatever else they carry' if sres[0] else
                 f'tagPysamRead: {sres[2]}', key='sample-name-iff-cell-index', witness=sres[2], what='tagPysamRead: the sample name ignores the cell index under an extra condition')
        return
    sm = [c for c in walk_no_nested(f) if isinstance(c, ast.Call) and isinstance(c.func, ast.Attribute) and c.func.attr == 'addTagByTag' and c.args
          and isinstance(c.args[0], ast.Constant) and c.args[0].value == 'SM' and len(c.args) > 1]
    bi_calls = [c for c in sm if "self.tags['bi']" in src(c.args[1]).replace('"', "'")]
    ok = len(bi_calls) == 1
    detail = f'{len(bi_calls)} SM assignments from the bi tag'
    if ok:
        # among the statements that decide the sample name, the LY_bi assignment runs exactly when 'bi' is a tag: no further condition
        top = [s_ for s_ in f.body if any(x is bi_calls[0] for x in ast.walk(s_))]
        conds = reach_conds(top, bi_calls[0]) or []
        extra = [src(t_) for t_, pol in conds if src(t_).replace('"', "'") != "'bi' in self.tags"]
        has = [pol for t_, pol in conds if src(t_).replace('"', "'") == "'bi' in self.tags"]
        ok = has == [True] and not extra
        detail = "SM = LY_bi is assigned iff 'bi' in self.tags" if ok else f"SM = LY_bi additionally depends on {extra} (a read with a cell index can be named LY_BULK)"
    ctx.emit('C04-R7', ok, BASEDEMUX, bi_calls[0] if bi_calls else f, 'tagPysamRead: ' + detail, key='sample-name-iff-cell-index',
             what='tagPysamRead: the sample name ignores the cell index under an extra condition')


@rule('C04', 'C04-R8', 'a read name is decoded into a record of its own: wherever tags are decoded from a read name (fromTaggedBamRecord / fromTaggedFastq) inside a '
                       'loop, the receiving TaggedRecord is constructed in the same iteration (decoding only adds tags, so a record reused across reads keeps '
                       'the tags of earlier reads)')
def r8(ctx):
    sites = []
    for rel in ctx.ix.pyfiles():
        try:
            text = ctx.ix.read(rel)
        except AnalysisError:
            continue
        if 'fromTaggedBamRecord' not in text and 'fromTaggedFastq' not in text:
            continue
        m = ctx.ix.module(rel)
        for fdef in [x for x in ast.walk(m.tree) if isinstance(x, (ast.FunctionDef, ast.AsyncFunctionDef))]:
            for c in walk_no_nested(fdef):
                if isinstance(c, ast.Call) and isinstance(c.func, ast.Attribute) and c.func.attr in ('fromTaggedBamRecord', 'fromTaggedFastq') and isinstance(c.func.value, (ast.Name, ast.Attribute)):
                    sites.append((rel, fdef, c))
    ctx.need('C04-R8', len(sites), 1, 'read-name decoding call sites')
    # the decoder only ever adds: if it started by resetting its tag table a reused record would be fine
    dec = ctx.fn(BASEDEMUX, 'TaggedRecord.fromTaggedBamRecord')
    resets = bool(dec.body) and isinstance(dec.body[0], ast.Assign) and src(dec.body[0].targets[0]) == 'self.tags' and isinstance(dec.body[0].value, (ast.Dict, ast.Call))
    for rel, fdef, c in sites:
        recv = c.func.value
        loops = [l for l in walk_no_nested(fdef) if isinstance(l, (ast.For, ast.While)) and any(x is c for x in walk_no_nested(l))]
        if not loops or resets:
            ctx.emit('C04-R8', True, rel, c, f'{src(c)[:50]}: ' + ('decoder resets its tag table first' if resets else 'not inside a loop'), key=f'fresh-decoder-record:{src(recv)}', nontrivial=False)
            continue
        inner = loops[-1]
        for l in loops:
            if all(any(x is l2 for x in walk_no_nested(l)) or l2 is l for l2 in loops):
                pass
        # innermost loop containing the call
        inner = min(loops, key=lambda l: sum(1 for _ in walk_no_nested(l)))
        fresh = False
        if isinstance(recv, ast.Name):
            cfg = CFG(inner.body, exceptions=False)
            ids = [n.id for n in cfg.nodes if any(x is c for x in node_calls(n))]
            dom = cfg.dominators()
            defs = {n.id for n in cfg.nodes if n.kind == 'stmt' and isinstance(n.ast, ast.Assign) and any(src(t_) == recv.id for t_ in n.ast.targets)
                    and isinstance(n.ast.value, ast.Call) and (dotted(n.ast.value.func) or '').endswith('TaggedRecord')}
            fresh = bool(ids) and all(dom[i] & defs for i in ids)
        ctx.emit('C04-R8', fresh, rel, c, f'`{src(recv)}` decoding a read name in a loop is ' + ('constructed in the same iteration' if fresh else
                 'NOT constructed per read: tags decoded for an earlier read (e.g. its UMI) leak into reads whose name lacks them'), key=f'fresh-decoder-record:{src(recv)}',
                 what='a TaggedRecord is reused across reads while decoding read names')


@rule('C04', 'C04-R9', 'sequencing index: with an index parser configured every accepted header records the raw index (aa), the corrected index (aA) and its '
                       'identifier (aI) - whether the header carries a sample number or an index sequence - and an index that cannot be resolved is refused with '
                       'NonMultiplexable; without a parser the raw index is recorded (the molecular identifier barcode+UMI+index is built from aA)')
def r9(ctx):
    from ..util import explore, mk_atoms
    from ..cfg import UNK
    f = ctx.fn(BASEDEMUX, 'TaggedRecord._parse_illumina_header')
    par = [a.arg for a in f.args.args]
    ifp, ifa = (par[2], par[3]) if len(par) >= 4 else ('indexFileParser', 'indexFileAlias')
    # the index handling starts after the header fields were stored: explore from the first statement that mentions the parser
    start = next((i for i, st in enumerate(f.body) if ifp in names_in(st)), None)
    if start is None:
        raise AnalysisError('_parse_illumina_header: index handling not found')
    body = f.body[start - 1:] if start > 0 and isinstance(f.body[start - 1], ast.Assign) and 'tags' in src(f.body[start - 1].targets[0]) else f.body[start:]

    def may_raise(kind, a):
        if kind in ('with_exit', 'except') or isinstance(a, ast.Raise):
            return set()
        tgt = a.test if kind == 'test' else a.iter if kind == 'for' else a
        # int(<index text>) raises ValueError for an index sequence; the whitelist lookup returns (None, None, None) instead of raising
        return {'ValueError'} if any(isinstance(c, ast.Call) and src(c.func) == 'int' for c in walk_no_nested(tgt)) else set()
    bad = []
    n = 0
    for configured in (True, False):
        for resolved in (True, False):
            facts = {f'{ifp} is not None': configured, f'{ifa} is not None': configured, 'correctedIndex is not None': resolved, 'correctedIndex is None': not resolved}
            for r in explore(body, mk_atoms(facts), names=None, may_raise=may_raise, is_subclass=ctx.ix.is_subclass_name):
                n += 1
                stored = {t for t, v, k in r['stores'] if t.startswith('self.tags[')}
                upd = [c for c in r['calls'] if c.startswith('self.tags.update(')]
                has = {'aa': "self.tags['aa']" in stored or any("'aa'" in c for c in upd), 'aA': any("'aA'" in c for c in upd) or "self.tags['aA']" in stored,
                       'aI': any("'aI'" in c for c in upd) or "self.tags['aI']" in stored}
                numeric = 'exc:ValueError' not in (r['path'] or '')
                if r['kind'] == 'raise':
                    tok = last_raise(r['stmt'])
                    # a sample number is its own corrected index: it is never refused; an unresolved sequence is refused with NonMultiplexable
                    if tok != 'NonMultiplexable' or not configured or (numeric and resolved):
                        bad.append((configured, numeric, resolved, f'raises {tok}'))
                    continue
                want = {'aa', 'aA', 'aI'} if configured else {'aa'}
                if configured and not resolved and not numeric:
                    bad.append((configured, numeric, resolved, 'an index that matches no whitelist entry is accepted'))
                    continue
                if configured and not resolved and numeric:
                    continue        # infeasible: a sample number resolves to itself (the atom valuation does not know that)
                missing = sorted(k for k in want if not has[k])
                if missing:
                    bad.append((configured, numeric, resolved, f'tags {missing} are not recorded'))
    ctx.counters['paths_enumerated'] += n
    ctx.need('C04-R9', n, 4, 'paths through the index handling of _parse_illumina_header')
    ctx.emit('C04-R9', not bad, BASEDEMUX, f, f'{n} paths over (parser configured, sample number / index sequence, resolved): aa always, aA + aI whenever a parser is configured, unresolved -> NonMultiplexable' if not bad else
             f'parser configured={bad[0][0]}, header carries a {"sample number" if bad[0][1] else "index sequence"}, resolved={bad[0][2]}: {bad[0][3]} - the tagger then builds no molecular identifier for the read',
             key='index-tags-recorded', witness={'parser configured': bad[0][0], 'sample number': bad[0][1], 'resolved': bad[0][2], 'problem': bad[0][3]} if bad else None,
             what='_parse_illumina_header: corrected sequencing index / identifier not recorded on an accepted header')


def last_raise(stmt):
    if stmt is None or not isinstance(stmt, ast.Raise) or stmt.exc is None:
        return '<reraise>'
    e = stmt.exc.func if isinstance(stmt.exc, ast.Call) else stmt.exc
    return (dotted(e) or '?').split('.')[-1]


@rule('C04', 'C04-R10', 'the library reaches every record: a strategy that delegates to another demultiplexer (its base class, the Illumina base layer or a '
                        'sub-strategy it owns) forwards its keyword arguments - the library name travels in them and becomes the LY tag the sample is derived from')
def r10(ctx):
    files = [BASEDEMUX] + [p_ for p_ in ctx.ix.pyfiles() if p_.startswith(DEMUXMODS)]
    n = 0
    bad = []
    for rel in files:
        m = ctx.ix.module(rel)
        for q, defs in m.defs.items():
            for f in defs:
                if not (isinstance(f, ast.FunctionDef) and f.name == 'demultiplex' and '.' in q):
                    continue
                kw = f.args.kwarg.arg if f.args.kwarg else None
                has_lib = any(a.arg == 'library' for a in f.args.args + f.args.kwonlyargs)
                if kw is None and not has_lib:
                    continue
                for c in walk_no_nested(f):
                    if isinstance(c, ast.Call) and isinstance(c.func, ast.Attribute) and c.func.attr == 'demultiplex':
                        n += 1
                        fwd = any(k.arg is None and isinstance(k.value, ast.Name) and k.value.id == kw for k in c.keywords) or any(k.arg == 'library' for k in c.keywords)
                        if not fwd:
                            bad.append((rel, q, c))
    ctx.need('C04-R10', n, 10, 'delegating demultiplex calls in the strategy modules')
    for rel, q, c in bad:
        ctx.emit('C04-R10', False, rel, c, f'{q}: `{src(c)[:80]}` does not forward the keyword arguments: records produced by this delegate carry no library (LY) - the tagger cannot derive the '
                 f'sample (library_cellindex) for them', key=f'library-forwarded:{q}', what=f'{q}: delegate called without the library')
    if not bad:
        ctx.emit('C04-R10', True, BASEDEMUX, None, f'{n} delegating demultiplex calls all forward **kwargs / library', key='library-forwarded')


def codec_model(ctx):
    """TaggedRecord run by the abstract interpreter on model tags.  (a) a quality string of every phred character 33..126 stored under a phred tag is the letter table at
    min(max(0, ord - 33), 51), nothing else is done to it; decoding gives back the saturated characters; a text tag is stored cleaned exactly once; (b) the read name asFastq
    builds is split back into the same fields by fromTaggedBamRecord - also when the last field ends in 1, 2 or / - and (c) by parse_scmo_header (a demultiplexed FASTQ
    that is demultiplexed again), without encoding the values a second time.  Returns (ok, cases, witness) or None outside the interpreted subset."""
    import string
    from ..consteval import module_scope, Evaluator, Instance, Unfoldable, Raised
    from .slots import FQITER
    try:
        env = module_scope(ctx.ix, BASEDEMUX)
        env['fastqIterator.FastqRecord'] = module_scope(ctx.ix, FQITER)['FastqRecord']

        def ev(text, **kw):
            e = dict(env)
            e.update(kw)
            return Evaluator(e, budget=400000).ev(ast.parse(text, mode='eval').body, e)
        letters = string.ascii_letters
        q = ''.join(chr(c) for c in range(33, 127))
        want_enc = ''.join(letters[min(max(0, ord(c) - 33), 51)] for c in q)
        n = 0
        rec = ev('TaggedRecord(TagDefinitions)')
        ev("rec.addTagByTag('RQ', q)", rec=rec, q=q)
        n += 1
        if rec.attrs['tags'].get('RQ') != want_enc:
            return False, n, {'stored under the phred tag RQ': rec.attrs['tags'].get('RQ'), 'expected (letter table at min(ord-33, 51))': want_enc, 'qualities': q}
        ev("rec.addTagByTag('RQ', q, decodePhred=True)", rec=rec, q=want_enc)
        n += 1
        want_dec = ''.join(chr(min(ord(c) - 33, 51) + 33) for c in q)
        if rec.attrs['tags'].get('RQ') != want_dec:
            return False, n, {'decoded RQ': rec.attrs['tags'].get('RQ'), 'expected': want_dec}
        for val in ('PLATE12', 'lib-1_a+b', 'we ird;na:me/1', 'ACGT'):
            clean = ev('fqSafe(v)', v=val)
            ev("rec.addTagByTag('LY', v)", rec=rec, v=val)
            n += 1
            if rec.attrs['tags'].get('LY') != clean or ev('fqSafe(v)', v=clean) != clean:
                return False, n, {'text tag LY set to': val, 'stored': rec.attrs['tags'].get('LY'), 'expected (cleaned once)': clean}
            ev("rec.addTagByTag('LY', v, make_safe=False)", rec=rec, v=val)
            if rec.attrs['tags'].get('LY') != val:
                return False, n, {'text tag LY set with make_safe=False to': val, 'stored': rec.attrs['tags'].get('LY')}
        ev("rec.addTagByTag('aa', 5)", rec=rec)
        if rec.attrs['tags'].get('aa') != '5':
            return False, n, {'tag aa set to the integer 5': rec.attrs['tags'].get('aa'), 'expected': '5'}
        # (b), (c): the name written is the name read
        for last in ('PLATE12', 'mESC_rep2', 'LIB-1', 'x21', 'BULK-A'):
            fields = [('Is', 'NS500'), ('RN', '7'), ('BC', 'ACGTACGT'), ('RX', 'TTGCAA'), ('RQ', 'II#;:~'), ('bi', '12'), ('LY', last)]
            a = ev('TaggedRecord(TagDefinitions)')
            for k_, v_ in fields:
                ev('rec.addTagByTag(k, v)', rec=a, k=k_, v=v_)
            want = dict(a.attrs['tags'])
            text = ev("rec.asFastq('ACGT', '+', 'IIII')", rec=a)
            name = text.split('\n')[0][1:]
            if name != ';'.join(f'{k_}:{v_}' for k_, v_ in want.items()):
                return False, n, {'tags': want, 'read name written': name}
            b = ev('TaggedRecord(TagDefinitions)')
            ev('rec.fromTaggedBamRecord(r)', rec=b, r=Instance(attrs={'query_name': name}))
            n += 1
            if dict(b.attrs['tags']) != want:
                diff = {k_: (want.get(k_), b.attrs['tags'].get(k_)) for k_ in set(want) | set(b.attrs['tags']) if want.get(k_) != b.attrs['tags'].get(k_)}
                return False, n, {'read name': name, 'decoded by fromTaggedBamRecord (field: written, decoded)': diff}
            c = ev('TaggedRecord(TagDefinitions)')
            ev('rec.parse_scmo_header(r, None, None)', rec=c, r=Instance(attrs={'header': '@' + name}))
            n += 1
            if dict(c.attrs['tags']) != want:
                diff = {k_: (want.get(k_), c.attrs['tags'].get(k_)) for k_ in set(want) | set(c.attrs['tags']) if want.get(k_) != c.attrs['tags'].get(k_)}
                return False, n, {'FASTQ header': '@' + name, 'decoded by parse_scmo_header (field: written, decoded)': diff}
        return True, n, None
    except (Unfoldable, Raised, Exception) as e_:
        ctx._codec_model_error = f'{type(e_).__name__}: {str(e_)[:80]}'
        return None


@rule('C04', 'C04-R12', 'the tag codec as a whole, run by the abstract interpreter: phred tags are stored through the letter table only (all 94 characters, saturating), text tags cleaned once, '
                        'and the read name asFastq writes is split into the same fields by fromTaggedBamRecord and by parse_scmo_header (names ending in 1 / 2 / -1 included)')
def r12(ctx):
    res = codec_model(ctx)
    f = ctx.fn(BASEDEMUX, 'TaggedRecord.addTagByTag')
    if res is None:
        ctx.emit('C04-R12', False, BASEDEMUX, f, f'the tag codec is outside the interpreted subset ({getattr(ctx, "_codec_model_error", "")})', key='codec-model', undecided=True)
        return
    ok, n, w = res
    ctx.counters['interpreted_cases'] = ctx.counters.get('interpreted_cases', 0) + n
    ctx.emit('C04-R12', ok, BASEDEMUX, f, f'{n} model cases: encode / decode / clean / name round trip agree with the specification' if ok else f'tag codec model: {w}', key='codec-model', witness=w,
             what='TaggedRecord: a value is not stored / recovered as written')


META = {
    'text': ('Decides agreement of the tables the codec halves rely on: the quality encoder is total and saturating over phred 33..126 (clamped table '
             'index or a folded translation table covering every character) and the decoder inverts the same table/offset; every tag the demultiplexer '
             'writes is defined; quality strings are stored only through the encoder and only under isPhred tags, and the decoder decodes exactly those; '
             'every raw value class (strategy short names, all columns of the shipped barcode/index whitelists) lies in the alphabet the decoder keeps '
             'and excludes ":" ";"; all header parsers bind the Illumina fields in canonical order and set every key of the re-assembled name; MI = '
             'BC+RX+aA, SM = LY_bi; over-long headers raise. Does NOT decide equality of decoded and original values for arbitrary runtime strings.'),
    'technique': 'static analysis: interval analysis / constant folding of codec tables, tag-table set comparison, taint-style check of quality strings, character-class containment over static whitelist data, sibling agreement of header parsers; token evaluation of the header parsers (header fields are opaque tokens moved through the code by the checker\'s interpreter); small-scope abstract execution of the TaggedRecord codec (all 94 phred characters, name round trip through fromTaggedBamRecord / parse_scmo_header, sample name on every cell-index layout)',
    'design_ref': 'DESIGN.md section 5, C04',
}


from . import shared as _shared
_shared.register('C04', 'C04')


@rule('C04', 'C04-R11', 'every alignment of a fragment is decoded: in the loop of QueryNameFlagger.digest over the mates a missing mate (None) only skips that slot - '
                        'no path on which the current mate is None leaves the loop or the method - and a present mate whose name still carries the encoded fields '
                        'reaches the decoder (fromTaggedBamRecord ... tagPysamRead) of a record built for it')
def r11(ctx):
    from ..cfg import eval3, UNK
    from .slots import UBT
    f = ctx.fn(UBT, 'QueryNameFlagger.digest')
    loops = [l for l in walk_no_nested(f) if isinstance(l, ast.For) and isinstance(l.target, ast.Name)]
    loops = [l for l in loops if any(isinstance(c, ast.Call) and isinstance(c.func, ast.Attribute) and c.func.attr == 'tagPysamRead' for c in walk_no_nested(l))]
    ctx.need('C04-R11', len(loops), 1, 'loop over the mates that decodes the read name')
    loop = loops[0]
    v = loop.target.id
    cfg = CFG(loop.body, exceptions=False)
    for none in (True, False):
        def atoms(e, none=none):
            t = src(e)
            if t == f'{v} is None':
                return none
            if t in (f'{v} is not None', v):
                return not none
            if not none and isinstance(e, ast.Call) and isinstance(e.func, ast.Attribute) and e.func.attr in ('has_tag', 'startswith'):
                return False        # not yet tagged, current name format
            return UNK

        def step(state, node, label, atoms=atoms):
            if node.kind == 'test' and label in ('true', 'false') and isinstance(node.ast, (ast.If, ast.While)):
                val = eval3(node.ast.test, {}, atoms)
                if val is not UNK and bool(val) != (label == 'true'):
                    return None
            calls = tuple(c.func.attr for c in node_calls(node) if isinstance(c.func, ast.Attribute))
            return state + calls
        bad = None
        n = 0
        for pth, calls in cfg.paths(state0=(), step=step, max_paths=20000):
            n += 1
            term = cfg.nodes[pth[-1][0]].info
            if none and term in ('return', 'break', 'raise'):
                bad = f'with a missing mate in the current slot the loop is left by `{term}`: the mates in the later slots are never decoded (path: {cfg.fmt_path(pth)[-300:]})'
            if not none and term in ('fall', 'continue') and not ('fromTaggedBamRecord' in calls and 'tagPysamRead' in calls):
                bad = f'a present, not yet decoded mate reaches the end of the iteration without fromTaggedBamRecord + tagPysamRead (path: {cfg.fmt_path(pth)[-300:]})'
        ctx.counters['paths_enumerated'] += n
        ctx.emit('C04-R11', bad is None, UBT, loop, (f'{n} paths with the current mate ' + ('missing: all go on with the next slot' if none else 'present and undecoded: all decode it')) if bad is None else bad,
                 key='digest:missing-mate-skipped' if none else 'digest:present-mate-decoded', what='QueryNameFlagger.digest: a mate of the fragment is not decoded')
